(* C14 — password and one-time-code guessing is throttled. *)
From Coq Require Import List ZArith Bool.
From KM Require Import Model.Limiter Model.TotpLimit Proofs.Limiter Proofs.TotpLimit Proofs.TotpSource.
Import ListNotations.
Open Scope Z_scope.

(* Units: time in ns; rate = p/q tokens per second; C = q*10^9 is the cost of one request and
   B = burst*C the cap, so the inequality below reads, divided by C,
        backend calls in [t0,t1]  <  burst + rate*(t1-t0) + rate*1ns.
   For EVERY non-decreasing sequence of requests (any number, either entry point, any backend
   answers) and every window. *)
Theorem c14_bucket : forall c t_init reqs t0 t1,
  wf c -> nondecr_from t_init (map req_time reqs) -> t0 <= t1 ->
  backend_calls_in t0 t1 (map req_time reqs) (login_run c (init c t_init) reqs) * C c
    < B c + (t1 - t0) * p c + p c.
Proof. exact backend_window. Qed.

(* the limiter alone, from the initial and from any reachable state; with a rate of at most
   10^9/s the slack is "+ 1 request", the form of the property text *)
Theorem c14_bucket_limiter : forall c t_init ts t0 t1,
  wf c -> nondecr_from t_init ts -> t0 <= t1 ->
  calls c (init c t_init) t0 t1 ts * C c < B c + (t1 - t0) * p c + p c.
Proof. exact bucket_window. Qed.

Theorem c14_bucket_plus1 : forall c t_init ts t0 t1,
  wf c -> p c <= C c -> nondecr_from t_init ts -> t0 <= t1 ->
  calls c (init c t_init) t0 t1 ts * C c < B c + (t1 - t0) * p c + C c.
Proof. exact bucket_window_plus1. Qed.

Theorem c14_bucket_any_state : forall c s ts t0 t1,
  wf c -> ok_state c s -> nondecr_from (last s) ts -> t0 <= t1 ->
  calls c s t0 t1 ts * C c < B c + (t1 - t0) * p c + p c.
Proof. exact bucket_window_from. Qed.

(* the excess is answered 429 without a backend lookup (and 429 is only ever that);
   a refusal leaves the limiter untouched *)
Theorem c14_excess_429 : forall c s e t a,
  (status (snd (login_step c s e t a)) = 429 <-> backend_called (snd (login_step c s e t a)) = false) /\
  (snd (allow c s t) = false -> login_step c s e t a = (s, {| status := 429; backend_called := false; lookups := 0 |})).
Proof. intros. split; [apply login_step_429|apply login_step_refused]. Qed.

(* ... and the order of the two calls in both entry points: an attempt whose lookup is performed has
   been charged to the limiter BEFORE the lookup (what the backend would read off the limiter is the
   bucket after this attempt's token was taken) *)
Theorem c14_limiter_first : forall c s e t a,
  backend_called (snd (login_step c s e t a)) = true ->
  T (fst (login_step c s e t a)) = advance c s t - C c /\ last (fst (login_step c s e t a)) = t.
Proof. exact limiter_first. Qed.

(* one limiter token buys exactly one backend lookup.  The backend is an answer stream per attempt
   (what it would say to a first, second, ... lookup: right, wrong, or "cannot tell" — a directory
   that resets connections, an identity provider answering 5xx); for EVERY request sequence and
   every such stream the lookups made are one for each attempt the limiter let through and none
   for the others ... *)
Theorem c14_one_lookup_per_token : forall c (reqs : list (entry * Z * answers)) s,
  map lookups (login_run_tries code_tries c s reqs)
  = map (fun ok : bool => if ok then 1 else 0) (decisions c s (map areq_time reqs)).
Proof. exact one_lookup_per_token. Qed.

(* ... so the bound holds for LOOKUPS, failing backend or not *)
Theorem c14_bucket_lookups : forall c t_init (reqs : list (entry * Z * answers)) t0 t1,
  wf c -> nondecr_from t_init (map areq_time reqs) -> t0 <= t1 ->
  lookups_in t0 t1 (map areq_time reqs) (login_run_tries code_tries c (init c t_init) reqs) * C c
    < B c + (t1 - t0) * p c + p c.
Proof. exact lookups_window. Qed.

(* checkUserPassword asking once is the `login_step` of the other theorems *)
Theorem c14_tries_code : forall c s e t a,
  login_step_tries code_tries c s e t a = login_step c s e t (first_answer a).
Proof. exact login_step_tries_code. Qed.

(* a second lookup after an error breaks the bound while the backend fails: burst 10, 1/s, twelve
   guesses at one instant -> twenty lookups *)
Theorem c14_retry_on_error_refuted : exists c t_init (reqs : list (entry * Z * answers)) t0 t1,
  wf c /\ nondecr_from t_init (map areq_time reqs) /\ t0 <= t1 /\
  B c + (t1 - t0) * p c + p c
    <= lookups_in t0 t1 (map areq_time reqs) (login_run_tries 2 c (init c t_init) reqs) * C c.
Proof. exact retry_on_error_refuted. Qed.

(* both entry points, whatever the backend answers, consult the same limiter in arrival order *)
Theorem c14_entry_points : forall c reqs s,
  map backend_called (login_run c s reqs) = decisions c s (map (fun r => snd (fst r)) reqs).
Proof. exact login_run_calls. Qed.

(* loadVerifyConfigFile's clamps: whatever the configuration file says *)
Theorem c14_config : forall b r, 10 <= clamp_burst b /\ frate_ge1 (clamp_rate r).
Proof. intros. split; [apply clamp_burst_ge|apply clamp_rate_ge]. Qed.

(* the clamp as it was written (rate < 1 -> 1) let a not-a-number rate through, and with it
   the limiter lets everything through *)
Theorem c14_old_clamp_refuted : exists r, ~ frate_ge1 (clamp_rate_old r).
Proof. exists NaN. exact (proj2 clamp_rate_old_nan). Qed.

(* evaluated attempts of one user are at least min_secs (2 s) apart, for every sequence of
   attempts at any times *)
Theorem c14_totp_spacing : forall k esc ops s, 0 <= min_secs k ->
  forall i j ti vi oi tj vj oj, (i < j)%nat ->
  nth_error ops i = Some (ti, vi) -> nth_error (snd (run k esc s ops)) i = Some oi ->
  nth_error ops j = Some (tj, vj) -> nth_error (snd (run k esc s ops)) j = Some oj ->
  evaluated oi = true -> evaluated oj = true -> ti + min_secs k * SEC <= tj.
Proof.
  intros k esc ops s Hk i j ti vi oi tj vj oj Hij Hi Hoi Hj Hoj Ei Ej.
  apply (spacing k esc ops s Hk i j ti vi oi tj vj oj); auto using evaluated_passes.
Qed.

(* ... also when the guesses are in flight at the same time: the spacing test and the update of the
   reference time are one step under the mutex, so N concurrent requests (thread i reads the clock
   `fst (thr i)`) pass it in SOME order — for EVERY order, any two that are evaluated are min_secs
   apart *)
Theorem c14_totp_spacing_concurrent : forall k esc (thr : nat -> Z * verdict) order s, 0 <= min_secs k ->
  forall a b ia ib oa ob, (a < b)%nat ->
  nth_error order a = Some ia -> nth_error (snd (gate_run k esc thr s order)) a = Some oa ->
  nth_error order b = Some ib -> nth_error (snd (gate_run k esc thr s order)) b = Some ob ->
  evaluated oa = true -> evaluated ob = true ->
  fst (thr ia) + min_secs k * SEC <= fst (thr ib).
Proof. exact gate_any_order. Qed.

(* a gate that reads the entry under the mutex, tests the copy outside and writes back after the
   evaluation: two guesses at the same instant are both evaluated and count as one failure *)
Theorem c14_split_gate_refuted : exists thr sched,
  let r := split_run k_prop true thr rl0 sched in
  g_outs r = [(0%nat, EvalFail); (1%nat, EvalFail)] /\ fst (thr 0%nat) = fst (thr 1%nat) /\
  fail_count (g_entry r) = 1.
Proof. exact split_gate_refuted. Qed.

(* the n-th lock (the failure that makes the count of consecutive failures every*n) refuses
   every attempt, whatever is tried, until n hours later; and n hours grow with n *)
Theorem c14_lockout : forall k s t v s' n ops,
  0 < every k -> 0 < n ->
  attempt k true s t v = (s', EvalFail) -> fail_count s' = every k * n ->
  (forall t2 v2, In (t2, v2) ops -> t2 < t + n * HOUR) ->
  lockout s' = t + n * HOUR /\
  Forall (fun o => evaluated o = false) (snd (run k true s' ops)).
Proof. exact lockout_holds. Qed.

Theorem c14_lockout_escalates : forall a b, 0 <= a < b -> a * HOUR < b * HOUR.
Proof. exact lock_duration_increasing. Qed.

(* the counter is the number of consecutive failures *)
Theorem c14_fail_count : forall k esc s t v,
  let (s', o) := attempt k esc s t v in
  match o with
  | EvalFail => fail_count s' = (if last_fail s + reset_hours k * HOUR <? t then 0 else fail_count s) + 1
  | EvalOk => fail_count s' = 0
  | _ => fail_count s' = fail_count s
  end.
Proof. exact count_step. Qed.

(* users do not influence each other *)
Theorem c14_totp_per_user : forall k esc u ops m,
  fst (run_users k esc m ops) u = fst (run k esc (m u) (ops_of u ops)).
Proof. exact run_users_proj. Qed.

(* before the fix the lock-out time was never assigned: a sixth guess right after five
   failures was evaluated *)
Theorem c14_old_lockout_refuted : exists ops,
  Forall (fun o => o = EvalFail) (snd (run k_prop false rl0 ops)) /\ (length ops = 6)%nat /\
  nth_error (snd (run k_prop true rl0 ops)) 5 = Some RefusedLockout.
Proof.
  exists five_then_one. rewrite old_never_locks, new_locks.
  split; [repeat constructor|split; reflexivity].
Qed.

(* ---- the periodic cleanup pass as an operation of the throttle's state machine ---- *)

(* every history of attempts and cleanup passes, at any times: a pass of the cleanup the code has
   is invisible to the throttle — final entry and verdicts are those of the attempts alone, so
   every statement above about `run` holds for the history with the passes taken out *)
Theorem c14_cleanup_invisible : forall k esc ops s,
  fst (run_ops k esc purge_never s ops) = fst (run k esc s (attempts_of ops)) /\
  flat_map (fun x => match x with Some o => [o] | None => [] end) (snd (run_ops k esc purge_never s ops))
    = snd (run k esc s (attempts_of ops)).
Proof. exact run_ops_never. Qed.

(* the stored counter is the number of consecutive evaluated failures as the property counts them
   (ghost: +1 per evaluated failure, restart after the quiet period, 0 after an accepted code; the
   ghost does not see the entry and ignores cleanup passes) *)
Theorem c14_streak : forall k esc ops,
  let r := run_ops k esc purge_never rl0 ops in
  fail_count (fst r) = streak (ghost_run k ghost0 ops (snd r)).
Proof. intros k esc ops. exact (proj1 (ghost_agree k esc ops rl0 ghost0 eq_refl eq_refl)). Qed.

(* lock-out, history form over the alphabet without read sources (`op`; the verdict of every attempt is
   the environment's): after ANY history of attempts and cleanup passes, the evaluated failure
   that makes the number of consecutive failures every*n locks verification until n hours later:
   whatever is tried before that instant, with any number of cleanup passes at any times in
   between, is refused unevaluated *)
Theorem c14_lockout_history_plain : forall k pre t v post n,
  0 < every k -> 0 < n ->
  let r1 := run_ops k true purge_never rl0 pre in
  let g1 := ghost_run k ghost0 pre (snd r1) in
  let a := attempt k true (fst r1) t v in
  snd a = EvalFail -> streak (ghost_step k g1 t EvalFail) = every k * n ->
  (forall t2 v2, In (Att t2 v2) post -> t2 < t + n * HOUR) ->
  lockout (fst a) = t + n * HOUR /\
  Forall (fun x => unevaluated x = true) (snd (run_ops k true purge_never (fst a) post)).
Proof. exact lockout_history. Qed.

(* lock-out, history form, over the alphabet WITH read sources: a history is a list of requests
   `Direct o | Cached o` (o an attempt with the submitted code, or a cleanup pass); ANY attempt may be
   served while the primary profile database does not answer in time (profile from the cache
   database), in any mix.  After ANY such history, the evaluated failure — itself served from the
   primary or from the cache — that makes the number of consecutive failures every*n locks
   verification until n hours later: whatever is tried before that instant, from whichever read
   source, with any number of cleanup passes in between, is refused unevaluated.  (The ghost streak
   counts evaluated failures of the history as the throttle sees it, `resolve`: each code replaced by
   what the replay guard makes of it at that point.) *)
Theorem c14_lockout_history : forall k pre cached t c post n,
  0 < every k -> 0 < n ->
  let r1 := run_src k true purge_never tst0 pre in
  let g1 := ghost_run k ghost0 (resolve k true purge_never tst0 pre) (snd r1) in
  let a := attempt_src k true cached (fst r1) t c in
  snd a = EvalFail -> streak (ghost_step k g1 t EvalFail) = every k * n ->
  (forall r t2 c2, In r post -> body r = CAtt t2 c2 -> t2 < t + n * HOUR) ->
  lockout (thr (fst a)) = t + n * HOUR /\
  Forall (fun x => unevaluated x = true) (snd (run_src k true purge_never (fst a) post)).
Proof. exact lockout_history_src. Qed.

(* the read source is irrelevant for the throttle: for every history, every policy of the cleanup,
   every start state, taking the `Cached` modifier off every request (or, second form, assigning the
   read sources of the same requests in any other way) changes no verdict, nothing in the throttle
   record (last check, failure count, last failure, lock-out) and not the value the replay guard
   compares with.  The record is in memory; only whether the accepted step is also WRITTEN to the
   profile depends on the source (c14_cached_no_write). *)
Theorem c14_read_source_irrelevant : forall k esc pol h s,
  snd (run_src k esc pol s h) = snd (run_src k esc pol s (map uncached h)) /\
  thr (fst (run_src k esc pol s h)) = thr (fst (run_src k esc pol s (map uncached h))) /\
  guard (fst (run_src k esc pol s h)) = guard (fst (run_src k esc pol s (map uncached h))).
Proof. exact read_source_irrelevant. Qed.

Theorem c14_read_source_any : forall k esc pol h1 h2 s,
  map body h1 = map body h2 ->
  snd (run_src k esc pol s h1) = snd (run_src k esc pol s h2) /\
  thr (fst (run_src k esc pol s h1)) = thr (fst (run_src k esc pol s h2)) /\
  guard (fst (run_src k esc pol s h1)) = guard (fst (run_src k esc pol s h2)).
Proof. exact read_source_any. Qed.

(* the machine with read sources IS the throttle of the theorems above, run on the resolved history:
   every statement about `run_ops` (spacing, count, cleanup, uint32) transfers *)
Theorem c14_source_is_throttle : forall k esc pol h s,
  thr (fst (run_src k esc pol s h)) = fst (run_ops k esc pol (thr s) (resolve k esc pol s h)) /\
  snd (run_src k esc pol s h) = snd (run_ops k esc pol (thr s) (resolve k esc pol s h)).
Proof. exact run_src_resolve. Qed.

Theorem c14_cached_no_write : forall k esc pol s o,
  persisted (fst (step_src k esc pol s (Cached o))) = persisted s.
Proof. exact cached_no_write. Qed.

(* a validator that returns before the failure bookkeeping when the profile came from the cache:
   five wrong codes 2.2 s apart during an outage, a sixth, and then the right code with the primary
   back — all evaluated, count 0, the right code accepted; the code as it is refuses the last two *)
Theorem c14_cached_lenient_refuted : exists h,
  let r := run_src_lenient k_prop true tst0 h in
  snd r = [Some EvalFail; Some EvalFail; Some EvalFail; Some EvalFail; Some EvalFail; Some EvalFail; Some EvalOk] /\
  fail_count (thr (fst r)) = 0 /\
  snd (run_src k_prop true purge_never tst0 h)
    = [Some EvalFail; Some EvalFail; Some EvalFail; Some EvalFail; Some EvalFail; Some RefusedLockout; Some RefusedLockout].
Proof. exists lenient_hist. exact lenient_refuted. Qed.

(* users stay independent when cleanup passes (which visit every entry) are interleaved *)
Theorem c14_cleanup_per_user : forall k esc pol u ops m,
  fst (run_users_ops k esc pol m ops) u = fst (run_ops k esc pol (m u) (uops_of u ops)).
Proof. exact run_users_ops_proj. Qed.

(* a cleanup that drops "idle" entries (lock-out over, last check older than the spacing) would
   restart the count: six evaluated failures within 12 s, the ghost counts six in a row, and no
   lock-out — while with the code's cleanup the sixth is refused *)
Theorem c14_purging_cleanup_refuted : exists ops,
  let r := run_ops k_prop true purge_idle rl0 ops in
  forallb (fun x => match x with None | Some EvalFail => true | _ => false end) (snd r) = true /\
  streak (ghost_run k_prop ghost0 ops (snd r)) = 6 /\
  nth_error (snd (run_ops k_prop true purge_never rl0 ops)) 6 = Some (Some RefusedLockout).
Proof. exists purge_hist1. vm_compute. auto. Qed.

(* ---- failCount is a uint32 ---- *)

(* in every history from the empty entry the count never exceeds every*(reset_hours+1) (125 with
   the constants of the code): the lock-out that follows that many failures is longer than the
   quiet period after which the count restarts *)
Theorem c14_count_bounded : forall k ops, 0 < every k -> 0 <= reset_hours k ->
  0 <= fail_count (fst (run_ops k true purge_never rl0 ops)) <= every k * (reset_hours k + 1).
Proof. intros k ops Hev Hr. exact (proj1 (count_bounded k Hev Hr ops rl0 (cnt_inv_rl0 k Hev Hr))). Qed.

(* hence the machine counter never wraps: the model with the counter computed mod 2^32 IS the
   model with the unbounded counter, on every history *)
Theorem c14_uint32_exact : forall k ops, 0 < every k -> 0 <= reset_hours k ->
  every k * (reset_hours k + 1) < W32 ->
  run_ops32 k true purge_never rl0 ops = run_ops k true purge_never rl0 ops.
Proof. intros k ops Hev Hr Hw. exact (run_ops32_eq k Hev Hr Hw ops rl0 (cnt_inv_rl0 k Hev Hr)). Qed.

Example c14_uint32_k_prop : every k_prop * (reset_hours k_prop + 1) = 125 /\ 125 < W32.
Proof. vm_compute. auto. Qed.

(* non-vacuity *)
Example c14_burst_then_429 :
  let c := mkcfg 1 1 10 in
  decisions c (init c 0) [5; 5; 5; 5; 5; 5; 5; 5; 5; 5; 5; 5; 1000000005; 1000000005]
  = [true; true; true; true; true; true; true; true; true; true; false; false; true; false].
Proof. vm_compute. reflexivity. Qed.

Example c14_two_locks :
  let ops := [(1000 * SEC, NoMatch); (1002 * SEC, NoMatch); (1004 * SEC, NoMatch); (1006 * SEC, NoMatch);
              (1008 * SEC, NoMatch); (1010 * SEC, Fresh); (4607 * SEC, Fresh); (4609 * SEC, NoMatch);
              (4611 * SEC, NoMatch); (4613 * SEC, NoMatch); (4615 * SEC, NoMatch); (4617 * SEC, NoMatch);
              (4619 * SEC + 3600 * SEC, Fresh); (4619 * SEC + 7200 * SEC, Fresh)] in
  map outcome_code (snd (run k_prop true rl0 ops)) = [4; 4; 4; 4; 4; 1; 1; 4; 4; 4; 4; 4; 1; 2].
Proof. vm_compute. reflexivity. Qed.
