(* C04 — signed tokens are unforgeable and never accepted outside their purpose.
   Model: Model/Tokens.v (claims, producers, consumers), Model/OIDC.v (token endpoint, exec,
   accepts).  Symbolic cryptography: [verify] succeeds iff the signer is one of the server's
   keys, the header algorithm is derived from those keys, and the bytes are unaltered. *)
From Coq Require Import String ZArith NArith List Bool.
From KM Require Import Base.Bytes Model.Tokens Model.OIDC Proofs.Tokens Proofs.OIDC Proofs.OIDCChannels Proofs.TokensPeer.
From KM Require Import Model.TokenCarrier Proofs.TokenCarrier.
Import ListNotations.
Open Scope Z_scope.

(* Whatever a consumer honours (i any server/clients, any clock reading, any request parameters,
   any token) was signed by a trusted key with an allowed algorithm and not altered, carries the
   consumer's own kind constant in the claim THAT consumer reads ("token_type" for session / CLI /
   storage, "type" for code / access), lies inside the window the consumer tests, names this server
   as issuer and first audience (session, CLI, storage), and - where the consumer binds a subject or
   a level - carries that subject / an admissible level. *)
Theorem c04_accept_sound : forall i now c t, accepts i now c t = true ->
  genuine (srv i) t /\
  rd_str (kind_claim c) (t_claims t) = Some (kind_const c) /\
  window now c (t_claims t) /\
  (must_name_server c -> names_server (srv i) (t_claims t)) /\
  subject_bound c (t_claims t).
Proof. exact accepts_sound. Qed.

(* The storage consumer spelled out for BOTH read paths of GetSigned (c04_accept_sound covers them
   through the consumer [CStorage p user col other], p and other universally quantified): whichever
   arm of the select answers - the primary, or the local cache after the primary failed to answer
   in time - and whatever the other store holds in that slot, a record is served only from the
   slot of the store that answered, with an expiration column in the future, genuinely signed, of
   kind storage_data, naming this server as issuer and first audience, inside its signed window,
   and signed for the user it is served for. *)
Theorem c04_storage_both_paths : forall p st now user prim cache d,
  get_signed_via p st now user prim cache = Some d ->
  exists r, answering_row p prim cache = Some r /\ unix now < r_col_exp r /\
    genuine st (r_jws r) /\ names_server st (t_claims (r_jws r)) /\
    rd_str "token_type" (t_claims (r_jws r)) = Some k_storage /\
    (exists nbf, rd_int "nbf" (t_claims (r_jws r)) = Some nbf /\ nbf <= unix now) /\
    (exists e, rd_int "exp" (t_claims (r_jws r)) = Some e /\ unix now <= e) /\
    rd_str "sub" (t_claims (r_jws r)) = Some user /\ rd_str "data" (t_claims (r_jws r)) = Some d.
Proof. exact get_signed_via_sound. Qed.

(* The producer x consumer matrix: an artefact of one kind, with ALL its parameters chosen freely
   (user names, nonces, scopes, redirect URIs, data strings, levels, lifetimes, issue time), is
   refused by every consumer of another kind, whatever else the request contains. *)
Theorem c04_matrix : forall i t_issue now a c,
  kind_of a <> consumes c -> accepts i now c (emit (srv i) t_issue a) = false.
Proof. exact accepts_matrix. Qed.

(* Alteration: bytes changed after signing, re-signing with a key that is not the server's, or a
   header algorithm outside the list derived from the server's keys - always refused. *)
Theorem c04_single_claim : forall i now c t,
  trusted_key (srv i) (t_signer t) = false \/ allowed_alg (srv i) (t_alg t) = false \/ t_tampered t = true ->
  accepts i now c t = false.
Proof. exact accepts_not_genuine. Qed.

(* ... and even signed again by the server's own key, a token in which one claim was replaced is
   honoured only if the new value is the one the consumer insists on. *)
Theorem c04_single_claim_resigned : forall i now c t n v, accepts i now c (reclaim t n v) = true ->
  (n = kind_claim c -> v = VStr (kind_const c)) /\
  (n = "iss"%string -> must_name_server c -> v = VStr (s_issuer (srv i))) /\
  (n = "aud"%string -> must_name_server c -> exists rest, v = VList (s_issuer (srv i) :: rest)) /\
  (n = "nbf"%string -> checks_nbf c -> exists z, v = VInt z /\ z <= unix now) /\
  (n = "exp"%string -> exists z, v = VInt z /\ exp_ok now c z) /\
  (n = "sub"%string -> match c with CCliSend _ u | CStorage _ u _ _ => v = VStr u
                                  | CToken r => v = VStr (fst (presented_creds r)) | _ => True end) /\
  (n = "auth_type"%string -> match c with CSession req => exists l, v = VInt l /\ Z.land l req <> 0 | _ => True end).
Proof. exact single_claim_resigned. Qed.

(* A refusing endpoint emits no signed artefact (no Set-Cookie, no token) and names nobody; the
   server keeps no token state at all ([exec] is a function of the request alone). *)
Theorem c04_no_side_effect : forall i o,
  o_ok (exec i o) = false -> o_emitted (exec i o) = [] /\ o_user (exec i o) = None.
Proof. exact refusal_no_effect. Qed.

(* The two consumers that re-issue a cookie never extend the validity of what they were given:
   updateAuthJWTWithNewAuthLevel does not test exp itself, but the cookie it signs keeps exp and
   sub, so checkAuth honours it only inside the original window ... *)
Theorem c04_update_keeps_expiry : forall st now l t t', c_update st now l t = Some t' ->
  exists a, dec_auth (t_claims t) = Some a /\
    rd_int "exp" (t_claims t') = Some (a_exp a) /\ rd_str "sub" (t_claims t') = Some (a_sub a) /\
    rd_int "auth_type" (t_claims t') = Some l /\
    forall now' req i', c_session st now' req t' = Some i' -> now' <= a_exp a * NS /\ ai_user i' = a_sub a.
Proof. exact update_keeps_expiry. Qed.

(* ... and the cookie SendAuthDocumentHandler hands to the CLI expires no later than the CLI token. *)
Theorem c04_cli_send_no_extension : forall st now l u t t', c_cli_send st now l u t = Some t' ->
  exists e e', rd_int "exp" (t_claims t) = Some e /\ rd_int "exp" (t_claims t') = Some e' /\ e' <= e /\
               rd_str "sub" (t_claims t') = Some u /\ rd_int "auth_type" (t_claims t') = Some l.
Proof. exact cli_send_no_extension. Qed.

(* Before the fix the storage consumer never looked at the signed exp claim: a record that expired
   at 1500 is served at 2000 once the unsigned SQL column says 9999 (F14). *)
Theorem c04_old_storage_exp_refuted : exists st now user r d,
  c_storage_old st now user r = Some d /\
  (exists e, rd_int "exp" (t_claims (r_jws r)) = Some e /\ e < unix now) /\
  c_storage st now user r = None.
Proof.
  exists srv0, (2000 * NS), (b "alice"),
    {| r_col_exp := 9999; r_jws := p_storage srv0 (1000 * NS) (b "alice") 1 (b "hash") 1500 |}, (b "hash").
  vm_compute. split; [reflexivity|]. split; [|reflexivity]. exists 1500. split; reflexivity.
Qed.

(* A cache arm that verified the record but skipped the subject comparison would serve bob's
   genuine record, moved into alice's row of the cache database, as alice's; the code refuses it
   on either arm and still serves it to bob. *)
Theorem c04_cache_arm_without_subject_refuted :
  let now := 2000 * NS in
  let t := p_storage srv0 (1000 * NS) (b "bob") 1 (b "bobs-hash") 5000 in
  let moved := Some {| r_col_exp := 5000; r_jws := t |} in
  c_storage_nosub srv0 now (b "alice") {| r_col_exp := 5000; r_jws := t |} = Some (b "bobs-hash") /\
  get_signed_via PCache srv0 now (b "alice") None moved = None /\
  get_signed_via PPrimary srv0 now (b "alice") moved None = None /\
  get_signed_via PCache srv0 now (b "bob") None moved = Some (b "bobs-hash").
Proof. exact cache_arm_without_subject_refuted. Qed.

(* What "purpose-bound" does NOT reach inside the storage kind: the signed data_type claim is not
   compared with the type the record is requested under (GetSigned selects the row by the unsigned
   type column).  The statement distinguishes the five artefact KINDS; keymaster writes and reads a
   single data type (1, the password hash), so no cross-purpose acceptance exists in the daemon -
   recorded as an observation, and made explicit here so that a second data type would not be
   added in the belief that the claim protects it. *)
Theorem c04_storage_data_type_unbound : forall st now issue user dt dt' data exp col,
  c_storage st now user {| r_col_exp := col; r_jws := p_storage st issue user dt data exp |} =
  c_storage st now user {| r_col_exp := col; r_jws := p_storage st issue user dt' data exp |}.
Proof. exact storage_data_type_unbound. Qed.

(* The token endpoint's subject binding, for every combination of the two channels a token request
   can name a client in - the Authorization: Basic header (id, secret) and the body (client_id,
   client_secret), which may name different registered clients, with right or wrong secrets in
   either.  Whenever tokens are released the request authenticated as exactly ONE configured client
   [id] (the header's when a header is present, the body's client_id only otherwise), that client
   proved its identity with the credentials of THAT channel (its secret, or PKCE against the
   challenge sealed into this code), the code's signed subject is [id], and the ID token's sole
   audience is [id]. *)
Theorem c04_token_one_client : forall i now r idt act, token_endpoint i now r = Release idt act ->
  exists id c k,
    authenticated_client r = Some id /\ find_client id (clients i) = Some c /\ cl_id c = id /\
    dec_code (t_claims (tr_code r)) = Some k /\ client_authenticated c k r /\
    rd_str "sub" (t_claims (tr_code r)) = Some id /\
    rd_list "aud" (t_claims idt) = Some [id].
Proof. exact token_one_client. Qed.

(* Which channel speaks: a header silences the body completely (the result does not depend on the
   body's client_id / client_secret, whatever they are) ... *)
Theorem c04_token_header_silences_body : forall i now r fc fs, tr_basic r <> None ->
  token_endpoint i now (with_form r fc fs) = token_endpoint i now r.
Proof. exact header_decides. Qed.

Theorem c04_token_channel : forall r,
  (forall hid hsec, tr_basic r = Some (hid, hsec) -> authenticated_client r = Some hid) /\
  (forall id, tr_basic r = None -> authenticated_client r = Some id -> id = tr_form_client r /\ id <> []).
Proof. intro r. split; [exact (authenticated_client_header r)|exact (authenticated_client_body r)]. Qed.

(* ... so a code issued to another client than the one the request authenticated as is refused:
   client B with its own valid credentials in the header cannot redeem A's code by naming A in the
   body (with or without A's secret). *)
Theorem c04_code_of_other_client_refused : forall i now r hid hsec a,
  tr_basic r = Some (hid, hsec) -> rd_str "sub" (t_claims (tr_code r)) = Some a -> a <> hid ->
  exists s, token_endpoint i now r = Refuse s.
Proof. exact header_names_other_client_refused. Qed.

(* The reading "compare the code's subject with the body's client_id when there is one" (while the
   client is authenticated from the header) is refuted: clientC, header (clientC, secretC), body
   client_id=clientA, redeems the code issued to clientA and gets an ID token for the audience
   clientC; the handler as it is refuses with 401, and still releases to A itself whatever the body
   names. *)
Theorem c04_body_subject_reading_refuted :
  (exists idt act, token_endpoint_body_subject idp3 (1010 * NS) two_channel_req = Release idt act /\
     rd_list "aud" (t_claims idt) = Some [b "clientC"] /\
     rd_str "sub" (t_claims (tr_code two_channel_req)) = Some (b "clientA") /\
     authenticated_client two_channel_req = Some (b "clientC")) /\
  token_endpoint idp3 (1010 * NS) two_channel_req = Refuse 401 /\
  ch_is_release (token_endpoint idp3 (1010 * NS) (with_form (with_basic two_channel_req (Some (b "clientA", b "secretA"))) (b "clientC") (b "secretC"))) = true.
Proof. exact body_subject_reading_refuted. Qed.

(* ---------------------------------------------------------------- bound to the server that issued them *)

(* The issuer / audience clause of c04_accept_sound, read for tokens that name ANOTHER server: a
   consumer of session cookies, CLI tokens or storage records refuses every token whose iss, or whose
   first audience, is not this server's own identity - whoever signed it, the key of a trusted peer
   instance (keymaster_public_keys_filename) included. *)
Theorem c04_other_server_token_refused : forall i now c t,
  must_name_server c -> names_server_b (srv i) (t_claims t) = false -> accepts i now c t = false.
Proof. exact other_server_token_refused. Qed.

(* The peer dimension.  [pe] is any other instance (its own identity, signer and keys; nothing is
   assumed about whether this server trusts its signing key): whatever it mints - session cookie, CLI
   web-auth token, storage record, access token, ID token, with ALL their parameters free, at any
   time - is refused by EVERY consumer of this server, at any time.  Authorization codes are the one
   exception the statement leaves: they are not required to name the server and the token endpoint
   does not read their iss. *)
Theorem c04_peer_artefact_refused : forall i pe t_issue now a c,
  s_issuer pe <> s_issuer (srv i) -> kind_of a <> KCode -> accepts i now c (emit pe t_issue a) = false.
Proof. exact peer_artefact_refused. Qed.

(* The identity is a function of (host_identity, http_address) alone (Tokens.issuer_of = jwt.go
   idpGetIssuer, compared on every loaded configuration by the correspondence): two instances on the
   same listen address with different host identities never honour each other's artefacts,
   whatever else their configurations share. *)
Theorem c04_bound_to_issuing_server : forall i pe host peer_host addr t_issue now a c,
  s_issuer (srv i) = issuer_of host addr -> s_issuer pe = issuer_of peer_host addr -> host <> peer_host ->
  kind_of a <> KCode -> accepts i now c (emit pe t_issue a) = false.
Proof. exact bound_to_issuing_server. Qed.

(* Non-vacuity: member A verifies what member B signs, B honours its own cookie / CLI token / storage
   record, A refuses all three, and A does honour a cookie signed by B's key that names A - the
   refusal rests on the issuer / audience comparison alone. *)
Theorem c04_peers_trust_keys_not_tokens :
  let now := 1010 * NS in
  let cookieB := emit memberB (1000 * NS) (ASession (b "alice") 2 57600) in
  let cliB := emit memberB (1000 * NS) (ACli (b "alice") 600) in
  let recB := emit memberB (1000 * NS) (AStorage (b "alice") 1 (b "h") 5000) in
  trusts_signer memberA memberB = true /\ verify memberA cookieB = true /\
  accepts idpB now (CSession 2) cookieB = true /\ accepts idpB now CCliVerify cliB = true /\
  accepts idpB now (CStorage PPrimary (b "alice") 5000 None) recB = true /\
  accepts idpA now (CSession 2) cookieB = false /\ accepts idpA now CCliVerify cliB = false /\
  accepts idpA now (CStorage PPrimary (b "alice") 5000 None) recB = false /\
  accepts idpA now (CSession 2)
    {| t_signer := 1%N; t_alg := 1%N; t_tampered := false;
       t_claims := t_claims (emit memberA (1000 * NS) (ASession (b "alice") 2 57600)) |} = true.
Proof. exact peers_trust_keys_not_tokens. Qed.

(* The other reading refuted: an identity taken from a value the members of a cluster share (instead
   of the host identity) makes each member honour the cookies, CLI tokens and storage records of
   the others. *)
Theorem c04_shared_identity_refuted :
  let now := 1010 * NS in
  let name := b "https://sso.example" in
  let A := {| srv := shared_identity memberA name; clients := [] |} in
  let B := shared_identity memberB name in
  accepts A now (CSession 2) (emit B (1000 * NS) (ASession (b "alice") 2 57600)) = true /\
  accepts A now CCliVerify (emit B (1000 * NS) (ACli (b "alice") 600)) = true /\
  accepts A now (CStorage PCache (b "alice") 5000 None) (emit B (1000 * NS) (AStorage (b "alice") 1 (b "h") 5000)) = true.
Proof. exact shared_identity_refuted. Qed.

(* ---------------------------------------------------------------- the carrier of a presentation (round 4)

   A presentation is (carrier, artefact): the cookie, Authorization: Bearer / bearer / Basic (artefact
   as password or as user), a query parameter or form field named like the cookie / access_token /
   token / code, a custom header, the storage row.  [reads c k] is the table of the carriers each
   consumer looks at ([accepts_via] = the code: an artefact in a carrier the consumer does not read
   leaves the request unauthenticated).  c04_accept_sound holds for EVERY carrier the code accepts:
   whatever consumer, carrier, clock and token - acceptance means the carrier is one the consumer
   reads AND the artefact is genuine, of the consumer's kind, inside the window that consumer tests,
   names this server (session, CLI, storage) and carries the bound subject / an admissible level. *)
Theorem c04_accept_sound_any_carrier : forall i now c k t, accepts_via i now c k t = true ->
  reads c k = true /\
  genuine (srv i) t /\
  rd_str (kind_claim c) (t_claims t) = Some (kind_const c) /\
  window now c (t_claims t) /\
  (must_name_server c -> names_server (srv i) (t_claims t)) /\
  subject_bound c (t_claims t).
Proof. exact accepts_via_sound. Qed.

(* An artefact the consumer's checks refuse (outside its window, of another kind, not genuine, naming
   another server) is refused in every carrier; one in a carrier the consumer does not read yields
   the refusal of an unauthenticated request (nothing emitted, nobody named); and among the carriers
   a consumer reads the answer does not depend on the carrier. *)
Theorem c04_no_carrier_rescues : forall i now c t, accepts i now c t = false ->
  forall k, accepts_via i now c k t = false.
Proof. exact carrier_never_rescues. Qed.

Theorem c04_unread_carrier_unauthenticated : forall i now c k t, reads c k = false ->
  exec_via i now c k t = refused.
Proof. exact unread_carrier_refused. Qed.

Theorem c04_carrier_irrelevant : forall i now c k k' t, reads c k = true -> reads c k' = true ->
  exec_via i now c k t = exec_via i now c k' t.
Proof. exact carrier_irrelevant. Qed.

(* non-vacuity of the table: every consumer reads its usual carrier, where it is the plain consumer *)
Theorem c04_usual_carrier : forall i now c t,
  reads c (usual_carrier c) = true /\ accepts_via i now c (usual_carrier c) t = accepts i now c t.
Proof. intros i now c t. split; [exact (usual_carrier_read c)|exact (usual_carrier_accepts i now c t)]. Qed.

(* A checkAuth with a bearer branch that verifies signature, issuer, audience, kind, not-before and
   level but does not compare the signed expiry with the clock (NOT the code): a 16 h session cookie
   minted at 1000 s is honoured at 100000 s in "Authorization: Bearer" / "bearer"; the code refuses
   it in every carrier, honours it in the cookie inside its window and ignores the bearer header. *)
Theorem c04_bearer_branch_without_expiry_refuted :
  let i := {| srv := srv0; clients := [] |} in
  let t := emit srv0 (1000 * NS) (ASession (b "alice") 2 57600) in
  let late := 100000 * NS in
  accepts_via_bearer_branch i late (CSession 2) KBearer t = true /\
  accepts_via_bearer_branch i late (CSession 2) KBearerLower t = true /\
  (exists e, rd_int "exp" (t_claims t) = Some e /\ e * NS < late) /\
  (forall k, accepts_via i late (CSession 2) k t = false) /\
  accepts_via i (2000 * NS) (CSession 2) KCookie t = true /\
  accepts_via i (2000 * NS) (CSession 2) KBearer t = false.
Proof. exact bearer_branch_without_expiry_refuted. Qed.

(* ---------------------------------------------------------------- non-vacuity *)
Definition idp0 : idp :=
  {| srv := srv0; clients := [ {| cl_id := b "clientA"; cl_secret := b "secretA"; cl_allow_aud := false; cl_other := [] |};
                               {| cl_id := b "clientB"; cl_secret := []; cl_allow_aud := false; cl_other := [] |} ] |}.

Definition treq0 (code : token) : treq :=
  {| tr_conn := conn_none; tr_post := true; tr_grant := gt_authcode; tr_redirect := b "https://a.example/cb"; tr_code := code;
     tr_verifier := []; tr_vhash := []; tr_basic := Some (b "clientA", b "secretA");
     tr_form_client := []; tr_form_secret := [] |}.

Definition code0 : token :=
  p_code srv0 (1000 * NS) (b "clientA") (b "alice") (b "openid") (b "https://a.example/cb") (b "nonce123")
         (b "jti") [] [] [].

(* every consumer accepts the artefact of its own kind inside the window *)
Example c04_each_consumer_accepts :
  accepts idp0 (1010 * NS) (CSession 2) (emit srv0 (1000 * NS) (ASession (b "alice") 2 57600)) = true /\
  accepts idp0 (1010 * NS) (CUpdate 10) (emit srv0 (1000 * NS) (ASession (b "alice") 2 57600)) = true /\
  accepts idp0 (1010 * NS) CCliVerify (emit srv0 (1000 * NS) (ACli (b "alice") 60)) = true /\
  accepts idp0 (1010 * NS) (CCliSend 1024 (b "alice")) (emit srv0 (1000 * NS) (ACli (b "alice") 60)) = true /\
  accepts idp0 (1010 * NS) (CStorage PPrimary (b "alice") 5000 None) (emit srv0 (1000 * NS) (AStorage (b "alice") 1 (b "h") 5000)) = true /\
  accepts idp0 (1010 * NS) (CStorage PCache (b "alice") 5000 None) (emit srv0 (1000 * NS) (AStorage (b "alice") 1 (b "h") 5000)) = true /\
  accepts idp0 (1010 * NS) (CToken (treq0 code0)) code0 = true /\
  accepts idp0 (1010 * NS) CUserinfo (emit srv0 (1005 * NS) (AAccess (code_of idp0 (1000 * NS) (b "alice")
     {| ar_method_ok := true; ar_response_type := rt_code; ar_client := b "clientA"; ar_scope := b "openid";
        ar_scope_openid := true; ar_redirect := b "https://a.example/cb"; ar_redirect_ok := true;
        ar_challenge := []; ar_method := []; ar_audience := []; ar_audience_ok := false;
        ar_nonce := b "nonce123"; ar_jti := b "jti" |}))) = true.
Proof. vm_compute. repeat split; reflexivity. Qed.

(* ... and refuses it one second after the signed expiry, or one second before nbf *)
Example c04_window_edges :
  accepts idp0 (58601 * NS) (CSession 2) (emit srv0 (1000 * NS) (ASession (b "alice") 2 57600)) = false /\
  accepts idp0 (999 * NS) (CSession 2) (emit srv0 (1000 * NS) (ASession (b "alice") 2 57600)) = false /\
  accepts idp0 (1301 * NS) (CToken (treq0 code0)) code0 = false /\
  accepts idp0 (5001 * NS) (CStorage PPrimary (b "alice") 9999 None) (emit srv0 (1000 * NS) (AStorage (b "alice") 1 (b "h") 5000)) = false /\
  accepts idp0 (5001 * NS) (CStorage PCache (b "alice") 9999 None) (emit srv0 (1000 * NS) (AStorage (b "alice") 1 (b "h") 5000)) = false /\
  (* the other user's record in the slot: refused on both paths *)
  accepts idp0 (1010 * NS) (CStorage PPrimary (b "alice") 5000 None) (emit srv0 (1000 * NS) (AStorage (b "bob") 1 (b "h") 5000)) = false /\
  accepts idp0 (1010 * NS) (CStorage PCache (b "alice") 5000 None) (emit srv0 (1000 * NS) (AStorage (b "bob") 1 (b "h") 5000)) = false.
Proof. vm_compute. repeat split; reflexivity. Qed.
