(* C15 — profiles survive storage round trips; the offline cache mirrors the primary; an
   interrupted synchronisation leaves old-or-new; an outage refuses profile changes.
   Model: Model/Storage.v (cmd/keymasterd/storage.go and the handlers' fromCache branches). *)
From Coq Require Import List NArith ZArith Bool.
From KM Require Import Model.Storage Proofs.Storage Model.Profile Proofs.Profile.
Import ListNotations.
Open Scope Z_scope.

(* A saved profile is read back identical from the primary; other users are not disturbed.
   (That the bytes stored ARE the profile — the gob encoding — is tested by the harness, not
   proved: see the manifest note.) *)
Theorem c15_roundtrip : forall s u b, pmode s = Up ->
  snd (step (fst (step s (Save u b))) (Load u)) = OLoad true false b /\
  (forall u', u' <> u -> snd (step (fst (step s (Save u b))) (Load u')) = snd (step s (Load u'))).
Proof. exact roundtrip. Qed.
Print Assumptions c15_roundtrip.

(* ---- the CONTENT of the profile (Model/Profile.v: userProfile with its three maps, the pending
   registration data, the bootstrap OTP; gob_roundtrip = what gob.Encode / gob.Decode into LoadUserProfile's
   destination do to such a value according to encoding/gob's rules for zero values — NOT the identity;
   canon = the content: map entries by key, nil = empty, a pointer to an empty list = no pointer).
   The gob library itself is trusted; that it follows these rules is compared on every run for the
   generated profiles (c15_profile_mismatches). *)

(* what is read back has exactly the content that was saved, for EVERY profile *)
Theorem c15_profile_roundtrip : forall p, canon (gob_roundtrip p) = canon p.
Proof. exact profile_roundtrip. Qed.
Print Assumptions c15_profile_roundtrip.

(* "content" is a normal form *)
Theorem c15_profile_canon_idempotent : forall p, canon (canon p) = canon p.
Proof. exact canon_idempotent. Qed.
Print Assumptions c15_profile_canon_idempotent.

(* on top of the storage model (whose blobs are numbers): for ANY codec enc / dec that carries the
   content as gob does, a profile saved while the primary is up is loaded back from the primary as
   gob_roundtrip p — a profile with the content of p *)
Theorem c15_profile_save_load : forall (enc : profile -> N) (dec : N -> option profile),
  (forall p, dec (enc p) = Some (gob_roundtrip p)) ->
  forall s u p, pmode s = Up ->
  loaded dec (snd (step (fst (step s (Save u (enc p)))) (Load u))) = Some (gob_roundtrip p) /\
  (exists q, loaded dec (snd (step (fst (step s (Save u (enc p)))) (Load u))) = Some q /\ canon q = canon p).
Proof. exact profile_save_load. Qed.
Print Assumptions c15_profile_save_load.

(* the per-pair check of the tie (prediction of the model = observed) is the property's own
   conclusion on the observation (content saved = content loaded) *)
Theorem c15_profile_case_is_property : forall c, pcase_ok c = pcase_content_kept c.
Proof. exact pcase_ok_is_content_kept. Qed.
Print Assumptions c15_profile_case_is_property.

(* what "exactly the content" does NOT say: the VALUE is not read back identical.  A pointer to an empty
   pending-secret list comes back as no pointer; a zero-length hash comes back nil; nil U2F / TOTP maps
   come back empty (and a nil WebAuthn map nil); entries come back in no particular order and an
   overwritten entry is gone — the canonical form hides exactly these; a pointer to a zero struct does
   come back as a pointer and stays distinct from no pointer in the canonical form *)
Theorem c15_profile_identity_refuted :
  PendingTOTPSecret ptr_to_empty_pending = Some (Some []) /\
  PendingTOTPSecret (gob_roundtrip ptr_to_empty_pending) = None /\
  gob_roundtrip ptr_to_empty_pending <> ptr_to_empty_pending /\
  b_hash (BootstrapOTP (gob_roundtrip zero_length_hash)) = None /\
  WebauthnData (gob_roundtrip zero_length_hash) = Some [] /\
  gob_roundtrip zero_length_hash <> zero_length_hash /\
  U2fAuthData (gob_roundtrip empty_profile) = Some [] /\ WebauthnData (gob_roundtrip empty_profile) = None /\
  gob_roundtrip empty_profile <> empty_profile /\
  U2fAuthData (gob_roundtrip unordered_map) = Some [(3, mk_u2f false 2 [] 0 [] None); (7, mk_u2f false 9 [] 0 [] None)] /\
  RegistrationChallenge (gob_roundtrip ptr_to_zero_challenge) = Some (mk_chal None 0 [] None) /\
  canon ptr_to_zero_challenge <> canon empty_profile /\
  forallb (fun p => profile_eqb (canon (gob_roundtrip p)) (canon p))
          [ptr_to_empty_pending; zero_length_hash; empty_profile; unordered_map; ptr_to_zero_challenge] = true.
Proof. exact profile_identity_refuted. Qed.
Print Assumptions c15_profile_identity_refuted.

(* After ANY history, a synchronisation that returns nil — whichever fault index it was run
   with — leaves the cache holding exactly the primary's users (same content) and exactly the
   primary's unexpired signed records: additions, changes and deletions. *)
Theorem c15_sync_mirror : forall ops f s',
  step (final ops) (Sync f) = (s', OSync true) ->
  (forall u, aget ukey_eqb u (profiles (cache s')) = aget ukey_eqb u (profiles (primary s'))) /\
  (forall k, aget skey_eqb k (signed (cache s')) =
             match aget skey_eqb k (signed (primary s')) with
             | Some r => if now s' <? sr_exp r then Some r else None
             | None => None
             end) /\
  primary s' = primary (final ops).
Proof.
  intros ops f s' H. destruct (sync_mirror ops f s' H) as [[A B] C]. repeat split; assumption.
Qed.
Print Assumptions c15_sync_mirror.

(* and while the primary can be read, an un-faulted synchronisation does return nil *)
Theorem c15_sync_completes : forall s, writable s = true -> snd (step s (Sync None)) = OSync true.
Proof. exact sync_completes. Qed.
Print Assumptions c15_sync_completes.

(* the reader's view of the same fact: after a completed synchronisation, with the primary
   slow or dead, every load is answered (fromCache = true) with what the primary holds *)
Theorem c15_mirror_reads : forall ops f s' m u, m <> Up ->
  step (final ops) (Sync f) = (s', OSync true) ->
  snd (step (fst (step s' (SetMode m))) (Load u)) =
  match aget ukey_eqb u (profiles (primary (final ops))) with
  | Some b => OLoad true true b
  | None => OLoad false true 0%N
  end.
Proof. exact mirror_reads. Qed.
Print Assumptions c15_mirror_reads.

(* A fault at ANY statement k of the copy, of ANY kind (an error of no particular type, SQLITE_BUSY,
   SQLITE_LOCKED, driver.ErrBadConn, a context deadline), transient (that one call) or standing
   (every call from there on) — f ranges over option fault — in any state, reachable or not: the
   cache afterwards is its previous content or the content of the completed copy; the primary is not
   touched; and what the copy REPORTS tells which: success = the new content, failure = the old. *)
Theorem c15_atomic : forall s f,
  (cache (fst (step s (Sync f))) = cache s \/
   cache (fst (step s (Sync f))) = cache (fst (step s (Sync None)))) /\
  primary (fst (step s (Sync f))) = primary s /\
  (snd (step s (Sync f)) = OSync true -> cache (fst (step s (Sync f))) = cache (fst (step s (Sync None)))) /\
  (snd (step s (Sync f)) = OSync false -> cache (fst (step s (Sync f))) = cache s).
Proof.
  intros s f. split; [apply sync_atomic|]. split; [apply sync_keeps_primary|].
  split; [apply sync_success_is_new|apply sync_failure_is_old].
Qed.
Print Assumptions c15_atomic.

(* A restart of the daemon (a new process on the same data directory) changes neither store. *)
Theorem c15_restart_keeps_stores : forall s,
  snd (step s Restart) = OOk /\
  primary (fst (step s Restart)) = primary s /\ cache (fst (step s Restart)) = cache s /\
  now (fst (step s Restart)) = now s /\ pmode (fst (step s Restart)) = pmode s.
Proof. exact restart_keeps. Qed.
Print Assumptions c15_restart_keeps_stores.

(* ... so what c15_outage_reads says (for every state) holds across restarts; put together: after a
   completed copy and the primary going out in whichever way, ANY sequence of restarts, reads, requests
   (refused or served) and further changes of the kind of outage — anything but a copy (alone or as a turn of
   the background copier), the purge, a
   write-through of a signed record or the primary coming back — every load is answered from the cache
   with what the primary held when the copy completed. *)
Theorem c15_restart_outage_reads : forall ops f s' k w tail u,
  step (final ops) (Sync f) = (s', OSync true) ->
  Forall (fun o => match o with
                   | Sync _ | Copier _ | Cleanup | Upsert _ _ _ _ | DelSigned _ _ | SetMode Up => False
                   | _ => True
                   end) tail ->
  snd (step (fst (run s' (SetMode (Out k w) :: tail))) (Load u)) =
  match aget ukey_eqb u (profiles (primary (final ops))) with
  | Some b => OLoad true true b
  | None => OLoad false true 0%N
  end.
Proof. exact restart_outage_reads. Qed.
Print Assumptions c15_restart_outage_reads.

(* The background copier (BackgroundDBCopy): one turn of its loop is the copy followed by the purge of
   both stores; what the turn reports (to the log) is what the copy returned. *)
Theorem c15_copier_turn : forall s f,
  step s (Copier f) = (fst (step (fst (step s (Sync f))) Cleanup), snd (step s (Sync f))).
Proof. exact step_copier. Qed.
Print Assumptions c15_copier_turn.

(* The cache is never more than one completed copy behind.  Along ANY history — saves, deletions, turns
   of the copier whenever the history lets it run, with or without faults of any kind, purges, outages,
   restarts, requests — carry a ghost: the user profiles the primary held when the last copy completed
   (run_ghost; empty before the first).  At every moment the cache's user profiles are exactly that ghost:
   nothing but a completed copy changes them, and a completed copy makes them the primary's. *)
Theorem c15_copier_lag : forall ops u,
  aget ukey_eqb u (profiles (cache (fst (run_ghost init [] ops)))) = aget ukey_eqb u (snd (run_ghost init [] ops)).
Proof. exact copier_lag. Qed.
Print Assumptions c15_copier_lag.

(* (run_ghost runs the same machine: its state is the history's final state) *)
Theorem c15_ghost_is_run : forall ops, fst (run_ghost init [] ops) = final ops.
Proof. intro ops. apply run_ghost_final. Qed.
Print Assumptions c15_ghost_is_run.

(* While the primary does not answer reads — in WHICHEVER way: the query hangs past the
   deadline (RHang), the statement cannot even be prepared (RPrepare: connection refused, closed
   pool), the query fails (RQuery), the row fetch fails (RScan); with or without writes still
   going through (w) — profile loads, the user list and signed-record reads are answered from
   the cache, and say so. *)
Theorem c15_outage_reads : forall s k w u t, pmode s = Out k w ->
  step s (Load u) = (s, match aget ukey_eqb u (profiles (cache s)) with
                        | Some b => OLoad true true b
                        | None => OLoad false true 0%N
                        end) /\
  step s (GetS u t) = (s, match aget skey_eqb (u, t) (signed (cache s)) with
                          | Some r => if now s <? sr_exp r then OSigned true (sr_data r) else OSigned false 0%N
                          | None => OSigned false 0%N
                          end) /\
  step s Users = (s, OUsers true (map fst (profiles (cache s)))).
Proof.
  intros s k w u t H. assert (pmode s <> Up) as H' by (rewrite H; discriminate).
  split; [apply outage_reads|split; [apply outage_reads_signed|apply outage_reads_users]]; exact H'.
Qed.
Print Assumptions c15_outage_reads.

(* ... and no handler stores a profile, in every kind of outage: the cache is untouched, no user's
   profile in the primary gets new content (the only possible change is the admin's delete, which
   loads nothing, and only while writes still go through), mutating handlers answer with their
   refusal, second-factor checks and readers are SERVED (a second-factor check of a user the cache
   does not know is refused), and when writes do not go through the primary is untouched
   altogether. *)
Theorem c15_outage_writes : forall s k w h u b, pmode s = Out k w ->
  let '(s', o) := step s (Handler h u b) in
  cache s' = cache s /\ signed (primary s') = signed (primary s) /\
  (forall u', aget ukey_eqb u' (profiles (primary s')) = aget ukey_eqb u' (profiles (primary s)) \/
              (h = HDelete /\ u' = u /\ aget ukey_eqb u' (profiles (primary s')) = None)) /\
  (h = HMutate -> o = ORefused) /\
  (h = HAuthSave \/ h = HRead ->
     o = OServed \/ (h = HAuthSave /\ o = ORefused /\ aget ukey_eqb u (profiles (cache s)) = None)) /\
  (w = false -> primary s' = primary s).
Proof.
  intros s k w h u b H. assert (pmode s <> Up) as H' by (rewrite H; discriminate).
  pose proof (outage_writes s h u b H') as P. destruct (step s (Handler h u b)) as [s' o].
  destruct P as (A & B & C & D & E & F). repeat split; try assumption.
  intro W. apply F. unfold writable. rewrite H. exact W.
Qed.
Print Assumptions c15_outage_writes.

Theorem c15_dead_frozen : forall s o, writable s = false -> (forall m, o <> SetMode m) ->
  primary (fst (step s o)) = primary s /\
  (o <> Cleanup -> (forall f, o <> Copier f) -> cache (fst (step s o)) = cache s).
Proof. exact dead_frozen. Qed.
Print Assumptions c15_dead_frozen.

(* a read of a signed record never returns an expired row — whichever store answers, whatever the
   state (any history, purged or not, tampered or not) *)
Theorem c15_reads_unexpired : forall s u t d,
  snd (step s (GetS u t)) = OSigned true d ->
  exists r, aget skey_eqb (u, t) (signed (if mode_eqb (pmode s) Up then primary s else cache s)) = Some r /\
            sr_data r = d /\ now s < sr_exp r.
Proof. exact reads_unexpired. Qed.
Print Assumptions c15_reads_unexpired.

(* the periodic purge of expired signed rows changes no answer of GetSigned, and afterwards the
   cache holds no row that expired before now *)
Theorem c15_cleanup_invisible : forall ops u t,
  snd (step (fst (step (final ops) Cleanup)) (GetS u t)) = snd (step (final ops) (GetS u t)).
Proof. exact cleanup_invisible. Qed.
Print Assumptions c15_cleanup_invisible.

Theorem c15_cleanup_purges : forall s k r,
  aget skey_eqb k (signed (cache (fst (step s Cleanup)))) = Some r -> now s <= sr_exp r.
Proof. exact cleanup_purges. Qed.
Print Assumptions c15_cleanup_purges.

(* ---- the statement was false of the code before the repairs (models old_sync / step_old) *)

(* SQLite never executed the DELETEs: a user and a signed record deleted in the primary are
   still in the cache after a completed synchronisation *)
Theorem c15_old_mirror_refuted :
  let '(s, outs) := run_old false init old_mirror_history in
  nth 6 outs OErr = OSync true /\
  aget ukey_eqb 2%N (profiles (primary s)) = None /\ aget ukey_eqb 2%N (profiles (cache s)) = Some 20%N /\
  aget skey_eqb (1%N, 1%N) (signed (primary s)) = None /\
  aget skey_eqb (1%N, 1%N) (signed (cache s)) = Some (mk_srow 5 1000 0).
Proof. exact old_mirror_refuted. Qed.
Print Assumptions c15_old_mirror_refuted.

(* the signed-row cursor's error was never looked at: a read failure in the middle of the second
   loop committed a cache that is neither the old nor the new content *)
Theorem c15_old_atomic_refuted_cursor :
  let s := fst (run_old false init old_cursor_history) in
  let c := cache (fst (step_old false s (Sync (Some (gen 9))))) in
  let cnew := cache (fst (step_old false s (Sync None))) in
  snd (step_old false s (Sync (Some (gen 9)))) = OSync true /\
  same_db c (cache s) = false /\ same_db c cnew = false.
Proof. exact old_atomic_refuted_cursor. Qed.
Print Assumptions c15_old_atomic_refuted_cursor.

(* on a driver that runs Query statements eagerly the DELETE was durable outside the transaction *)
Theorem c15_old_atomic_refuted_eager :
  let s := fst (run_old true init old_eager_history) in
  let c := cache (fst (step_old true s (Sync (Some (gen 6))))) in
  let cnew := cache (fst (step_old true s (Sync None))) in
  snd (step_old true s (Sync (Some (gen 6)))) = OSync false /\
  same_db c (cache s) = false /\ same_db c cnew = false.
Proof. exact old_atomic_refuted_eager. Qed.
Print Assumptions c15_old_atomic_refuted_eager.

(* NOT the code, a variant the statements exclude: a copy that writes its destination transaction again
   (3 attempts) after SQLITE_BUSY / SQLITE_LOCKED while the source cursors stay where the failed attempt
   left them (step_retrying).  A transient busy / locked error at the second insert (statement 9) or at
   the COMMIT (statement 17 of 18) ends in a committed cache that is neither the old nor the new
   content — empty, for the COMMIT — and is reported as success; the code (step), for the same faults,
   keeps the old cache and reports the failure. *)
Theorem c15_retry_reuses_cursors_refuted :
  let s := fst (run init retry_history) in
  let cnew := cache (fst (step s (Sync None))) in
  length (sync_script (primary s) (now s)) = 18%nat /\
  forallb (fun k =>
    forallb (fun at_ =>
      let f := Some (F at_ k true) in
      out_eqb (snd (step_retrying s (Sync f))) (OSync true) &&
      negb (same_db (cache (fst (step_retrying s (Sync f)))) (cache s)) &&
      negb (same_db (cache (fst (step_retrying s (Sync f)))) cnew) &&
      out_eqb (snd (step s (Sync f))) (OSync false) &&
      same_db (cache (fst (step s (Sync f)))) (cache s)) [9%nat; 17%nat]) [KBusy; KLocked] = true /\
  profiles (cache (fst (step_retrying s (Sync (Some (F 17 KBusy true)))))) = [] /\
  map fst (profiles (cache (fst (step_retrying s (Sync (Some (F 9 KBusy true))))))) = [1%N] /\
  snd (step_retrying s (Sync (Some (F 9 KBusy false)))) = OSync false.
Proof. exact retrying_refuted. Qed.
Print Assumptions c15_retry_reuses_cursors_refuted.

(* NOT the code: a start-up that begins with a new cache file (step_wiping).  After a completed copy,
   an outage of any kind and a restart, the load, the user list and the second-factor check that the
   previous process answered from the cache find nothing; the code answers them. *)
Theorem c15_restart_wipes_refuted : forall k w,
  let h := [Save 1 10; Upsert 1 1 5 1000%Z; Sync None; SetMode (Out k w); Restart]%N in
  snd (step_wiping (fst (run_gen step_wiping init h)) (Load 1%N)) = OLoad false true 0%N /\
  snd (step_wiping (fst (run_gen step_wiping init h)) Users) = OUsers true [] /\
  snd (step_wiping (fst (run_gen step_wiping init h)) (Handler HAuthSave 1%N 12%N)) = ORefused /\
  snd (step (fst (run init h)) (Load 1%N)) = OLoad true true 10%N /\
  snd (step (fst (run init h)) Users) = OUsers true [1%N] /\
  snd (step (fst (run init h)) (Handler HAuthSave 1%N 12%N)) = OServed.
Proof. exact wiping_refuted. Qed.
Print Assumptions c15_restart_wipes_refuted.

(* webauthnAuthFinish dropped fromCache: with a slow primary the cache's older profile (10)
   replaced the newer one (11) *)
Theorem c15_old_stale_writeback_refuted :
  let s := fst (run_old false init old_writeback_history) in
  aget ukey_eqb 1%N (profiles (primary s)) = Some 10%N.
Proof. exact old_stale_writeback_refuted. Qed.
Print Assumptions c15_old_stale_writeback_refuted.

(* before the repair of the read path (fix: a failed read of the primary no longer answers the
   caller) a primary that failed at query or row-fetch time made every read fail, and the
   second-factor check with it, although the cache held everything; the repaired machine answers
   from the cache *)
Theorem c15_old_outage_reported_refuted : forall k w, k = RQuery \/ k = RScan ->
  let s := fst (run init (old_outage_history k w)) in
  snd (step_reporting s (Load 1%N)) = OErr /\ snd (step_reporting s (GetS 1%N 1%N)) = OErr /\
  snd (step_reporting s Users) = OErr /\ snd (step_reporting s (Handler HAuthSave 1%N 12%N)) = OErr /\
  snd (step s (Load 1%N)) = OLoad true true 10%N /\ snd (step s (GetS 1%N 1%N)) = OSigned true 5%N /\
  snd (step s Users) = OUsers true [1%N] /\ snd (step s (Handler HAuthSave 1%N 12%N)) = OServed.
Proof. exact old_outage_reported_refuted. Qed.
Print Assumptions c15_old_outage_reported_refuted.

(* ---- non-vacuity *)
Local Open Scope N_scope.

(* add, change, delete, expire; then a completed copy and a read during an outage *)
Example c15_history :
  let ops := [Save 1 10; Save 2 20; Upsert 1 1 5 1000%Z; Upsert 2 1 6 50%Z; Sync None;
              Save 1 11; DelUser 2; DelSigned 1 1; Upsert 1 2 7 2000%Z; Tick 100%Z; Sync None;
              SetMode Dead; Load 1; Load 2; GetS 1 2; GetS 2 1; Save 1 99; Handler HMutate 1 98] in
  snd (run init ops) =
  [OOk; OOk; OOk; OOk; OSync true; OOk; OOk; OOk; OOk; OOk; OSync true;
   OOk; OLoad true true 11; OLoad false true 0; OSigned true 7; OSigned false 0; OErr; ORefused].
Proof. vm_compute. reflexivity. Qed.

(* the same copy interrupted at statement 7 keeps the old cache; at the commit too *)
Example c15_fault :
  let s := fst (run init [Save 1 10; Sync None; Save 1 11; Save 2 20]) in
  same_db (cache (fst (step s (Sync (Some (gen 7)))))) (cache s) = true /\
  snd (step s (Sync (Some (gen 7)))) = OSync false /\
  length (sync_script (primary s) (now s)) = 14%nat /\
  snd (step s (Sync (Some (gen 13)))) = OSync false /\
  snd (step s (Sync (Some (gen 14)))) = OSync true /\
  same_db (cache (fst (step s (Sync (Some (gen 14)))))) (primary s) = true.
Proof. vm_compute. repeat split; reflexivity. Qed.

(* kinds of faults: a transient bad connection on a call that database/sql repeats (the source queries 0 / 1,
   Begin 2, the prepared inserts 7 ...) is not seen by the copy, which completes; a standing one, or one on
   a call that is not repeated (the DELETE 3, a row fetch 6, the COMMIT 17) fails it; every other kind
   fails it wherever it strikes *)
Example c15_fault_kinds :
  let s := fst (run init retry_history) in
  map (fun f => snd (step s (Sync (Some f))))
      [F 0 KBadConn true; F 2 KBadConn true; F 7 KBadConn true; F 0 KBadConn false; F 3 KBadConn true; F 6 KBadConn true; F 17 KBadConn true;
       F 0 KBusy true; F 7 KLocked true; F 7 KDeadline false; F 17 KBusy true; F 18 KBusy false]
  = [OSync true; OSync true; OSync true; OSync false; OSync false; OSync false; OSync false;
     OSync false; OSync false; OSync false; OSync false; OSync true].
Proof. vm_compute. reflexivity. Qed.

(* a history with restarts: the cache keeps serving *)
Example c15_restart_history :
  let ops := [Save 1 10; Upsert 1 1 5 1000%Z; Sync None; Save 1 11; Restart; SetMode Dead; Load 1; Restart; Load 1; GetS 1 1; Users;
              SetMode Up; Restart; Load 1] in
  snd (run init ops) =
  [OOk; OOk; OSync true; OOk; OOk; OOk; OLoad true true 10; OOk; OLoad true true 10; OSigned true 5; OUsers true [1];
   OOk; OOk; OLoad true false 11].
Proof. vm_compute. reflexivity. Qed.

(* the copier over a history: two saves, a turn, a change, a faulted turn (old content stays, the ghost too),
   a clean turn; an expired record is purged by the turn *)
Example c15_copier_history :
  let ops := [Save 1 10; Upsert 1 1 5 50%Z; Copier None; Save 1 11; Save 2 20; Copier (Some (F 9 KBusy true)); Tick 100%Z] in
  let '(s, g) := run_ghost init [] ops in
  g = [(1, 10)] /\ profiles (cache s) = [(1, 10)] /\ signed (cache s) = [((1, 1), mk_srow 5 50%Z 0%Z)] /\
  let '(s', g') := run_ghost init [] (ops ++ [Copier None]) in
  same_map ukey_eqb N.eqb g' [(1, 11); (2, 20)] = true /\ same_db (cache s') (mk_db [(1, 11); (2, 20)] []) = true /\
  signed (primary s') = [].
Proof. vm_compute. repeat split; reflexivity. Qed.

(* every kind of outage: the reads come from the cache, the mutation is refused, the second-factor
   check is served and stores nothing *)
Example c15_outage_kinds :
  forallb (fun m =>
    let s := fst (run init [Save 1 10; Sync None; Save 1 11; SetMode m]) in
    out_eqb (snd (step s (Load 1))) (OLoad true true 10) &&
    out_eqb (snd (step s Users)) (OUsers true [1]) &&
    out_eqb (snd (step s (Handler HMutate 1 12))) ORefused &&
    out_eqb (snd (step s (Handler HAuthSave 1 12))) OServed &&
    same_db (primary (fst (step s (Handler HAuthSave 1 12)))) (primary s))
  [Out RHang true; Out RHang false; Out RPrepare true; Out RPrepare false;
   Out RQuery true; Out RQuery false; Out RScan true; Out RScan false] = true.
Proof. vm_compute. reflexivity. Qed.

(* ------------------------------------------------------------------ the journal of the cache connection
   c15_atomic (and with it every theorem above about [step]) rests on ONE fact about SQLite: the deferred
   tx.Rollback() of copyDBIntoSQLite — and the recovery a new process runs when it opens the file — puts the
   previous content back.  SQLite promises that for a connection that keeps a rollback journal in a file or
   a write-ahead log (`PRAGMA journal_mode` = delete | truncate | persist | wal), not for journal_mode =
   memory (gone with the process) and not for journal_mode = off ("ROLLBACK behaves in an undefined way").
   Model/StorageJournal.v carries the connection's journal mode [j], its synchronous level [sy] and the way the
   synchronisation ends early [i : IStmt | IKill | IPower] through the copy; what a roll-back leaves without
   a usable journal is chosen by the environment ([mix]: an arbitrary function of how many rows the
   transaction had written, the old and the pending content).  The journal mode and the synchronous level
   of the connections the REAL initDB opens are probed on every run (several fresh connections of
   state.cacheDB), and coq/obl/Obl_C15.v proves [transactional] / [power_safe] of the probed values. *)
From Coq Require Import String.
From KM Require Import Model.StorageJournal Proofs.StorageJournal.

(* with a file journal or a WAL the daemon is the daemon of Model/Storage.v — for a failed statement and for a
   killed process, whatever the synchronous level, whatever the environment would do without a journal *)
Theorem c15_journal_transparent : forall j sy i mix, transactional j = true -> i <> IPower ->
  forall s o, step_j j sy i mix s o = step s o.
Proof. exact journal_transparent. Qed.
Print Assumptions c15_journal_transparent.

(* c15_atomic with its precondition named: IF the cache connection is transactional (and, for a machine
   that goes down, its synchronous level is at least NORMAL) THEN for every state, every fault and every
   environment the cache afterwards is the old or the new content, the primary is untouched, reported
   success = the new content, reported failure = the old content *)
Theorem c15_atomic_journal : forall j sy i mix,
  transactional j = true -> (i <> IPower \/ power_safe j sy = true) ->
  forall s f,
  (cache (fst (step_j j sy i mix s (Sync f))) = cache s \/
   cache (fst (step_j j sy i mix s (Sync f))) = cache (fst (step_j j sy i mix s (Sync None)))) /\
  primary (fst (step_j j sy i mix s (Sync f))) = primary s /\
  (snd (step_j j sy i mix s (Sync f)) = OSync true ->
   cache (fst (step_j j sy i mix s (Sync f))) = cache (fst (step_j j sy i mix s (Sync None)))) /\
  (snd (step_j j sy i mix s (Sync f)) = OSync false -> cache (fst (step_j j sy i mix s (Sync f))) = cache s).
Proof. exact atomic_journal. Qed.
Print Assumptions c15_atomic_journal.

(* NOT the code (the kind of change seed C15-H makes): journal_mode = off.  Three users changed since the
   last copy; the third insert fails (statement 11), the process lives, the copy reports the failure.
   Once the transaction no longer fits the page cache ([spilled 3]: rows are written to the file as the
   transaction goes) the cache holds NEITHER the old NOR the new content (user 3 is gone, user 1 is new);
   while it fits ([spilled 100]) the roll-back happens to work — small databases show nothing; with a
   journal the old content stays for EVERY environment; un-faulted copies are the same in all modes *)
Theorem c15_no_journal_refuted :
  (let r := step_j JOff 2 IStmt (spilled 3) nj_state (Sync nj_fault) in
   snd r = OSync false /\ cache (fst r) <> cache nj_state /\
   cache (fst r) <> cache (fst (step nj_state (Sync None))) /\
   aget ukey_eqb 3%N (profiles (cache (fst r))) = None /\
   aget ukey_eqb 1%N (profiles (cache (fst r))) = Some 11%N) /\
  cache (fst (step_j JOff 2 IStmt (spilled 100) nj_state (Sync nj_fault))) = cache nj_state /\
  (forall mix, cache (fst (step_j JDelete 2 IStmt mix nj_state (Sync nj_fault))) = cache nj_state) /\
  step_j JOff 2 IStmt (spilled 3) nj_state (Sync None) = step nj_state (Sync None).
Proof. exact no_journal_refuted. Qed.
Print Assumptions c15_no_journal_refuted.

(* the two weaker settings: journal_mode = memory restores after a failed statement (any environment) but
   not after the process was killed; a file journal with synchronous = off restores after both but not
   after a power loss; with synchronous >= normal it restores always *)
Theorem c15_weak_journal_refuted :
  (forall mix, cache (fst (step_j JMemory 2 IStmt mix nj_state (Sync nj_fault))) = cache nj_state) /\
  (let r := step_j JMemory 2 IKill (spilled 3) nj_state (Sync nj_fault) in
   cache (fst r) <> cache nj_state /\ cache (fst r) <> cache (fst (step nj_state (Sync None)))) /\
  (forall mix i, i <> IPower -> cache (fst (step_j JDelete 0 i mix nj_state (Sync nj_fault))) = cache nj_state) /\
  (let r := step_j JDelete 0 IPower (spilled 3) nj_state (Sync nj_fault) in
   cache (fst r) <> cache nj_state /\ cache (fst r) <> cache (fst (step nj_state (Sync None)))) /\
  (forall mix i, cache (fst (step_j JDelete 1 i mix nj_state (Sync nj_fault))) = cache nj_state).
Proof. exact weak_journal_refuted. Qed.
Print Assumptions c15_weak_journal_refuted.

(* which journal modes are transactional *)
Example c15_journal_modes :
  map transactional [JDelete; JTruncate; JPersist; JWal; JMemory; JOff] = [true; true; true; true; false; false] /\
  map jmode_of_string ["delete"; "truncate"; "persist"; "wal"; "memory"; "off"; "OFF"]%string =
  [Some JDelete; Some JTruncate; Some JPersist; Some JWal; Some JMemory; Some JOff; None] /\
  power_safe JDelete 0 = false /\ power_safe JWal 1 = true /\ power_safe JOff 2 = false.
Proof. vm_compute. repeat split; reflexivity. Qed.
