(* C05 — a session gains a factor only when its own user proves that factor. *)
From Coq Require Import List NArith ZArith Bool.
From KM Require Import Model.Session Proofs.Session.
Import ListNotations.

(* For EVERY history (any length, any number of users and sessions, any enrolment `d`, any
   web-UI mask `w`, any NUMBER of auth_cookie values attached to a request in any order — own and
   foreign, valid, expired and junk —, any request made with a verified client certificate of any
   user and/or while profile writes fail), every cookie the server has issued and every factor bit
   in its level: that factor was verified for the cookie's own user, and not before the session
   began (the iat claim, which every re-signed cookie keeps): a session gains a factor only by a
   verification made during that session. *)
Theorem c05_inv : forall d w ops c f,
  let s := fst (run (fixed d w) init ops) in
  In c (issued s) -> has (clevel c) f = true ->
  exists t, (ciat c <= t)%Z /\ In (cuser c, f, t) (proved s).
Proof.
  intros d w ops c f s Hc Hf. destruct (run_Inv (fixed d w) ops eq_refl eq_refl eq_refl) as [I1 _].
  destruct (I1 c Hc) as [_ J]. exact (J f Hf).
Qed.

(* ... and an operation whose positive answer is about another user than the one the request is
   authenticated as (by client certificate, else by the last attached cookie) — a push approval,
   OTP, TOTP code, bootstrap OTP, hardware-token assertion or CLI token belonging to someone else —
   changes nothing but the ghost record of the presented certificate, and emits no cookie *)
Theorem c05_no_cross_user : forall d w ops cert fault o u u',
  let s := fst (run (fixed d w) init ops) in
  about (fixed d w) s o = Some u -> requester (fixed d w) s cert o = Some u' -> u <> u' ->
  step (fixed d w) s (Req cert fault o) = (present_cert s cert, None).
Proof.
  intros d w ops cert fault o u u' s Ha Hr Hne. cbn [step].
  destruct (present_cert_Inv s cert (run_Inv (fixed d w) ops eq_refl eq_refl eq_refl)) as [HI _].
  apply (cross_user_refused (fixed d w) cert fault (present_cert s cert) o u u' eq_refl HI); [| |exact Hne].
  - rewrite about_present. exact Ha.
  - rewrite requester_present. exact Hr.
Qed.

(* one-time values: acceptance records the value, a recorded value is never accepted again, so
   no TOTP code, bootstrap OTP or hardware-token challenge is accepted twice in any history *)
Theorem c05_onetime : forall d w ops o v,
  let s := fst (run (fixed d w) init ops) in
  presents o = Some v ->
  (snd (step (fixed d w) s o) <> None -> spent (fst (step (fixed d w) s o)) = v :: spent s) /\
  (In v (spent s) -> snd (step (fixed d w) s o) = None) /\
  NoDup (spent s).
Proof.
  intros d w ops o v s Hp. pose proof (run_Inv2 (fixed d w) ops eq_refl eq_refl) as HJ.
  split; [apply accepted_spent; exact Hp|]. split.
  - intros Hin. exact (spent_refused (fixed d w) s o v eq_refl eq_refl HJ Hp Hin).
  - destruct HJ as [J0 _]. exact J0.
Qed.

(* expired values never work, in any state, however the request is authenticated *)
Theorem c05_expired : forall d w cert fault s o,
  expired (fixed d w) s cert o = true -> step_req (fixed d w) cert fault s o = (s, None).
Proof. intros d w cert fault s o. apply expired_refused; reflexivity. Qed.

(* an expired session cookie never works: whatever else is attached, if the cookie checkAuth looks at
   (the last one) is past its exp claim, a request without client certificate changes nothing *)
Theorem c05_cookie_expired : forall d w fault s o cs c,
  cookies_of o = Some cs -> pick (fixed d w) (attached s cs) = Some c -> (cexp c <= now s)%Z ->
  step_req (fixed d w) None fault s o = (s, None).
Proof. intros d w fault s o cs c. apply expired_cookie_refused. Qed.

(* the statement is false of the handlers as they were *)
Theorem c05_old_poll_refuted :
  let s := fst (run (cfg_with false true true true) init w_poll) in
  exists c, In c (issued s) /\ cuser c = 2%N /\ has (clevel c) F_VIP = true /\ forall t, ~ In (2%N, F_VIP, t) (proved s).
Proof. exact old_poll_cross_user. Qed.

Theorem c05_old_totp_replay_refuted :
  ~ NoDup (spent (fst (run (cfg_with true false true true) init w_totp))) /\
  NoDup (spent (fst (run (cfg_with true true true true) init w_totp))).
Proof. exact old_totp_replay. Qed.

Theorem c05_old_challenge_refuted :
  nth 3 (snd (run (cfg_with true true false true) init w_chal_exp)) None <> None /\
  nth 3 (snd (run (cfg_with true true true true) init w_chal_exp)) None = None /\
  ~ NoDup (spent (fst (run (cfg_with true true true false) init w_chal_twice))) /\
  NoDup (spent (fst (run (cfg_with true true true true) init w_chal_twice))).
Proof. exact old_challenge. Qed.

(* a push transaction lives two minutes (ExpiresAt); only the cleanup sweep enforced that, so an
   approved push polled five minutes after its start still raised the level *)
Theorem c05_old_vip_expiry_refuted :
  nth 4 (snd (run (cfg_vip_expiry false) init w_vip_exp)) None <> None /\
  nth 4 (snd (run (cfg_vip_expiry true) init w_vip_exp)) None = None.
Proof. exact old_vip_expiry. Qed.

(* updateAuthCookieAuthlevel as it was: [Login bob; IssueOtp alice; Bootstrap authenticated by
   alice's client certificate with her own OTP and bob's cookie attached] gives bob's session the
   bootstrap and certificate factors alice proved; the repaired upgrade emits nothing *)
Theorem c05_old_cert_cookie_refuted :
  let s := fst (run cfg_old_upgrade init w_cert) in
  (exists c, In c (issued s) /\ cuser c = 2%N /\ has (clevel c) F_BOOT = true /\ has (clevel c) F_X509 = true /\
             (forall t, ~ In (2%N, F_BOOT, t) (proved s)) /\ (forall t, ~ In (2%N, F_X509, t) (proved s))) /\
  nth 2 (snd (run cfg_new_upgrade init w_cert)) None = None.
Proof. exact old_cert_cookie. Qed.

(* which of several auth_cookie values is authoritative matters: an upgrade that re-signs the FIRST
   one while checkAuth authenticates the LAST (same user, so the owner test passes) hands the factors
   of an old session to a newer one — [Login; Totp; an hour passes; Login; hardware token with
   (new cookie, old cookie) attached] yields a cookie with iat = the second login that carries the
   TOTP bit, verified only before that instant; re-signing the last one keeps iat = the first login *)
Theorem c05_first_cookie_refuted :
  (let s := fst (run (cfg_first_cookie false) init w_first) in
   exists c, In c (issued s) /\ cuser c = 1%N /\ has (clevel c) F_TOTP = true /\ ciat c = 6600%Z /\
             forall t, In (1%N, F_TOTP, t) (proved s) -> (t < ciat c)%Z) /\
  (let s := fst (run (cfg_first_cookie true) init w_first) in
   exists c, nth 6 (snd (run (cfg_first_cookie true) init w_first)) None = Some c /\ ciat c = 3000%Z).
Proof. exact old_first_cookie. Qed.

(* non-vacuity: a complete two-factor history; the TOTP value stops working; the other user's
   session attached FIRST is not the one that is upgraded; a certificate-authenticated upgrade of
   the own cookie replaces its level by certificate|factor *)
Example c05_history :
  let d := fun _ => {| has_totp := true; has_u2f := false; has_wa := false; has_profile := true |} in
  map (fun o => match o with Some c => Some (cuser c, clevel c) | None => None end)
      (snd (run (fixed d 64) init
        [Tick 3000; Login 1 true; Login 2 true; Totp [1%nat; 0%nat] (TCode 1 100); Totp [0%nat] (TCode 1 100);
         Totp [1%nat] (TCode 1 100); ShowTok [2%nat] 1000; SendDoc [2%nat] 0; SendDoc [1%nat] 0;
         Req (Some 1%N) false (Totp [1%nat] (TCode 1 101)); Req (Some 1%N) false (Totp [0%nat] (TCode 1 101));
         Tick 30; Req (Some 1%N) false (Totp [0%nat] (TCode 1 102))]))
  = [None; Some (1, 2); Some (2, 2); Some (1, 66); None; None; None; Some (1, 1024); None;
     None; None; None; Some (1, 576)]%N.
Proof. vm_compute. reflexivity. Qed.
