(* C05 — a session gains a factor only when its own user proves that factor. *)
From Coq Require Import List NArith ZArith Bool.
From KM Require Import Model.Session Proofs.Session.
Import ListNotations.

(* For EVERY history (any length, any number of users and sessions, any enrolment `d`, any
   web-UI mask `w`, any cookies attached in any order), every cookie the server has issued and
   every factor bit in its level: that factor was proved for the cookie's own user. *)
Theorem c05_inv : forall d w ops c f,
  In c (issued (fst (run (fixed d w) init ops))) -> has (clevel c) f = true ->
  In (cuser c, f) (proved (fst (run (fixed d w) init ops))).
Proof.
  intros d w ops c f Hc Hf. destruct (run_Inv (fixed d w) ops eq_refl) as [I1 _]. exact (I1 c Hc f Hf).
Qed.

(* ... and `proved` is not touched by an operation whose positive answer is about another user
   than the one whose session the request runs in: a push approval, OTP, TOTP code, bootstrap
   OTP, hardware-token assertion or CLI token belonging to someone else changes nothing and no
   cookie is emitted *)
Theorem c05_no_cross_user : forall d w ops o u u',
  let s := fst (run (fixed d w) init ops) in
  about s o = Some u -> requester (fixed d w) s o = Some u' -> u <> u' ->
  step (fixed d w) s o = (s, None).
Proof.
  intros d w ops o u u' s Ha Hr Hne.
  exact (cross_user_refused (fixed d w) s o u u' eq_refl (run_Inv (fixed d w) ops eq_refl) Ha Hr Hne).
Qed.

(* one-time values: acceptance records the value, a recorded value is never accepted again, so
   no TOTP code, bootstrap OTP or hardware-token challenge is accepted twice in any history *)
Theorem c05_onetime : forall d w ops o v,
  let s := fst (run (fixed d w) init ops) in
  presents o = Some v ->
  (snd (step (fixed d w) s o) <> None -> spent (fst (step (fixed d w) s o)) = v :: spent s) /\
  (In v (spent s) -> snd (step (fixed d w) s o) = None) /\
  NoDup (spent s).
Proof.
  intros d w ops o v s Hp. pose proof (run_Inv2 (fixed d w) ops eq_refl eq_refl) as HJ.
  split; [apply accepted_spent; exact Hp|]. split.
  - intros Hin. exact (spent_refused (fixed d w) s o v eq_refl eq_refl HJ Hp Hin).
  - destruct HJ as [J0 _]. exact J0.
Qed.

(* expired values never work, in any state *)
Theorem c05_expired : forall d w s o,
  expired (fixed d w) s o = true -> step (fixed d w) s o = (s, None).
Proof. intros d w s o. apply expired_refused. reflexivity. Qed.

(* the statement is false of the handlers as they were *)
Theorem c05_old_poll_refuted :
  let s := fst (run (cfg_with false true true true) init w_poll) in
  exists c, In c (issued s) /\ cuser c = 2%N /\ has (clevel c) F_VIP = true /\ ~ In (2%N, F_VIP) (proved s).
Proof. exact old_poll_cross_user. Qed.

Theorem c05_old_totp_replay_refuted :
  ~ NoDup (spent (fst (run (cfg_with true false true true) init w_totp))) /\
  NoDup (spent (fst (run (cfg_with true true true true) init w_totp))).
Proof. exact old_totp_replay. Qed.

Theorem c05_old_challenge_refuted :
  nth 3 (snd (run (cfg_with true true false true) init w_chal_exp)) None <> None /\
  nth 3 (snd (run (cfg_with true true true true) init w_chal_exp)) None = None /\
  ~ NoDup (spent (fst (run (cfg_with true true true false) init w_chal_twice))) /\
  NoDup (spent (fst (run (cfg_with true true true true) init w_chal_twice))).
Proof. exact old_challenge. Qed.

(* non-vacuity: a complete two-factor history; the TOTP value stops working; the other user's
   session attached FIRST is not the one that is upgraded *)
Example c05_history :
  let d := fun _ => {| has_totp := true; has_u2f := false; has_wa := false; has_profile := true |} in
  map (fun o => match o with Some c => Some (cuser c, clevel c) | None => None end)
      (snd (run (fixed d 64) init
        [Tick 3000; Login 1 true; Login 2 true; Totp [1%nat; 0%nat] (TCode 1 100); Totp [0%nat] (TCode 1 100);
         Totp [1%nat] (TCode 1 100); ShowTok [2%nat] 1000; SendDoc [2%nat] 0; SendDoc [1%nat] 0]))
  = [None; Some (1, 2); Some (2, 2); Some (1, 66); None; None; None; Some (1, 1024); None]%N.
Proof. vm_compute. reflexivity. Qed.
