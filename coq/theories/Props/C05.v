(* C05 — a session gains a factor only when its own user proves that factor. *)
From Coq Require Import List NArith ZArith Bool.
From KM Require Import Base.Bytes Model.Session Proofs.Session Model.Profiles Proofs.Profiles.
Import ListNotations.

(* For EVERY history (any length, any number of users and sessions, any enrolment `d`, any
   web-UI mask `w`, any NUMBER of auth_cookie values attached to a request in any order — own and
   foreign, valid, expired and junk —, any request made with a verified client certificate of any
   user and/or while profile writes fail), every cookie the server has issued and every factor bit
   in its level: that factor was verified for the cookie's own user, and not before the session
   began (the iat claim, which every re-signed cookie keeps): a session gains a factor only by a
   verification made during that session. *)
Theorem c05_inv : forall d w ok life ops c f,
  let s := fst (run (fixed_with d w ok life) init ops) in
  In c (issued s) -> has (clevel c) f = true ->
  exists t, (ciat c <= t)%Z /\ In (cuser c, f, t) (proved s).
Proof.
  intros d w ok life ops c f s Hc Hf. destruct (run_Inv (fixed_with d w ok life) ops eq_refl eq_refl eq_refl) as [I1 _].
  destruct (I1 c Hc) as [_ J]. exact (J f Hf).
Qed.

(* ... and an operation whose positive answer is about another user than the one the request is
   authenticated as (by client certificate, else by the last attached cookie) — a push approval,
   OTP, TOTP code, bootstrap OTP, hardware-token assertion or CLI token belonging to someone else —
   changes nothing but the ghost record of the presented certificate, and emits no cookie *)
Theorem c05_no_cross_user : forall d w ok life ops cert fault o u u',
  let s := fst (run (fixed_with d w ok life) init ops) in
  about (fixed_with d w ok life) s o = Some u -> requester (fixed_with d w ok life) s cert o = Some u' -> u <> u' ->
  step (fixed_with d w ok life) s (Req cert fault o) = (present_cert s cert, None).
Proof.
  intros d w ok life ops cert fault o u u' s Ha Hr Hne. cbn [step].
  destruct (present_cert_Inv s cert (run_Inv (fixed_with d w ok life) ops eq_refl eq_refl eq_refl)) as [HI _].
  apply (cross_user_refused (fixed_with d w ok life) cert fault (present_cert s cert) o u u' eq_refl HI); [| |exact Hne].
  - rewrite about_present. exact Ha.
  - rewrite requester_present. exact Hr.
Qed.

(* one-time values: acceptance records the value, a recorded value is never accepted again, so
   no TOTP code, bootstrap OTP or hardware-token challenge is accepted twice in any history *)
Theorem c05_onetime : forall d w ok life ops o v,
  let s := fst (run (fixed_with d w ok life) init ops) in
  presents o = Some v ->
  (snd (step (fixed_with d w ok life) s o) <> None -> spent (fst (step (fixed_with d w ok life) s o)) = v :: spent s) /\
  (In v (spent s) -> snd (step (fixed_with d w ok life) s o) = None) /\
  NoDup (spent s).
Proof.
  intros d w ok life ops o v s Hp. pose proof (run_Inv2 (fixed_with d w ok life) ops eq_refl eq_refl eq_refl) as HJ.
  split; [apply accepted_spent; exact Hp|]. split.
  - intros Hin. exact (spent_refused (fixed_with d w ok life) s o v eq_refl eq_refl eq_refl HJ Hp Hin).
  - destruct HJ as [J0 _]. exact J0.
Qed.

(* expired values never work, in any state, however the request is authenticated *)
Theorem c05_expired : forall d w ok life cert fault s o,
  expired (fixed_with d w ok life) s cert o = true -> step_req (fixed_with d w ok life) cert fault s o = (s, None).
Proof. intros d w ok life cert fault s o. apply expired_refused; reflexivity. Qed.

(* an expired session cookie never works: whatever else is attached, if the cookie checkAuth looks at
   (the last one) is past its exp claim, a request without client certificate changes nothing *)
Theorem c05_cookie_expired : forall d w ok life fault s o cs c,
  cookies_of o = Some cs -> pick (fixed_with d w ok life) (attached s cs) = Some c -> (cexp c <= now s)%Z ->
  step_req (fixed_with d w ok life) None fault s o = (s, None).
Proof. intros d w ok life fault s o cs c. apply expired_cookie_refused. Qed.

(* one-time values are FRESH.  `minted` is the ghost list of the ids of all one-time values ever handed
   out (hardware-token challenges of both begin handlers, bootstrap OTPs, push transactions); `handed`
   is what the correspondence observes per step (the harness numbers the distinct byte strings it is
   handed in order of first appearance).  In every history no value is handed out twice, and the
   value a step hands out was never handed out before, is nobody's pending challenge or stored OTP,
   and was never accepted: a begin never revives an old value *)
Theorem c05_fresh_values : forall d w ok life ops o i,
  let s := fst (run (fixed_with d w ok life) init ops) in
  let s' := fst (step (fixed_with d w ok life) s o) in
  NoDup (minted s) /\
  (handed s s' = Some i ->
     ~ In i (minted s) /\ minted s' = i :: minted s /\
     (forall u ch, chal s u = Some ch -> chid ch <> i) /\
     (forall u b, boot s u = Some b -> bserial b <> i) /\
     ~ In (OtChal i) (spent s) /\ (forall u, ~ In (OtBoot u i) (spent s))).
Proof.
  intros d w ok life ops o i s s'. pose proof (run_Inv3 (fixed_with d w ok life) ops) as HK. split.
  - destruct HK as [K0 _]. exact K0.
  - exact (handed_new (fixed_with d w ok life) s o i HK).
Qed.

(* ... and the expiry of a value is fixed when it is handed out: a challenge that is pending after a
   step under the id of one that was pending before it is that same challenge (same user, same
   ExpiresAt, same kind), likewise a stored bootstrap OTP — no operation re-stamps a pending value.
   With c05_expired: a value never works after its ORIGINAL expiry *)
Theorem c05_value_fixed : forall d w ok life ops o,
  let s := fst (run (fixed_with d w ok life) init ops) in
  let s' := fst (step (fixed_with d w ok life) s o) in
  (forall u ch u' ch', chal s u = Some ch -> chal s' u' = Some ch' -> chid ch' = chid ch -> u' = u /\ ch' = ch) /\
  (forall u b b', boot s u = Some b -> boot s' u = Some b' -> bserial b' = bserial b -> b' = b).
Proof.
  intros d w ok life ops o s s'. pose proof (run_Inv3 (fixed_with d w ok life) ops) as HK.
  pose proof (run_Inv2 (fixed_with d w ok life) ops eq_refl eq_refl eq_refl) as HJ. split.
  - intros u ch u' ch'. exact (chal_fixed (fixed_with d w ok life) s o u ch u' ch' HJ HK).
  - intros u b b'. exact (boot_fixed (fixed_with d w ok life) s o u b b' HK).
Qed.

(* WHOSE enrolment a handler works with.  User names are byte strings; the profile table is the list
   of its rows in scan order.  A name is served the row stored under EXACTLY that name (if any):
   whatever other names the table holds — names that are patterns of it or match it as a pattern
   under SQL LIKE, an LDAP filter, a regular expression, a path; names that differ in case or by
   trailing blanks — and whatever the order of the rows (which account was written more recently).
   The theorems above hold for every enrolment function `d`, in particular for
   `devs_of names table`; the correspondence instantiates them with the rows the harness wrote. *)
Theorem c05_profile_exact : forall n t d, lookup n t = Some d -> In (n, d) t.
Proof. exact lookup_exact. Qed.

Theorem c05_profile_save : forall n n' d t,
  lookup n' (save n d t) = if bs_eqb n' n then Some d else lookup n' t.
Proof. exact lookup_save. Qed.

Theorem c05_profile_order : forall n t t',
  wf t -> wf t' -> (forall r, In r t <-> In r t') -> lookup n t = lookup n t'.
Proof. exact lookup_order. Qed.

Theorem c05_profile_users : forall names t u d v,
  (forall a b, names a = names b -> a = b) ->
  devs_of names (save (names u) d t) v = if N.eqb v u then d else devs_of names t v.
Proof. exact devs_of_save. Qed.

(* the same table read with a pattern match (SQL LIKE) instead of equality: `j_doe` is served the row
   of `jadoe` when that row is older or when j_doe has no row, its own row otherwise *)
Theorem c05_like_lookup_refuted :
  let t := save n_j_doe d_key (save n_jadoe d_totp []) in
  let t' := save n_jadoe d_totp (save n_j_doe d_key []) in
  wf t /\ lookup_like n_j_doe t = Some d_totp /\ ~ In (n_j_doe, d_totp) t /\
  lookup_like n_j_doe t' = Some d_key /\
  lookup n_j_doe t = Some d_key /\ lookup n_j_doe t' = Some d_key /\
  lookup_like n_j_doe (save n_jadoe d_totp []) = Some d_totp /\ lookup n_j_doe (save n_jadoe d_totp []) = None.
Proof. exact like_lookup_foreign. Qed.

(* THE CACHE AS READ SOURCE.  `Cached o` is the request of o made while the primary database does not
   answer in time: every LoadUserProfile of the request is served from the cache copy and says so.
   The history theorems above (c05_inv, c05_onetime, c05_fresh_values, c05_value_fixed) quantify over
   all operations, `Cached` ones included: a second factor verified from the cache raises the session
   like any other, a one-time value accepted from the cache is spent.  In addition: a cached request
   writes nothing back (the persisted TOTP counter and the stored bootstrap OTPs are untouched — the
   accepted TOTP step is remembered in memory only), values of somebody else and expired values are
   refused exactly as with the primary *)
Theorem c05_cached_no_write : forall d w ok life s o,
  let s' := fst (step (fixed_with d w ok life) s (Cached o)) in
  saved_totp s' = saved_totp s /\ boot s' = boot s.
Proof. intros d w ok life s o. exact (cached_no_write (with_cache (fixed_with d w ok life)) None false s o eq_refl). Qed.

Theorem c05_cached_no_cross_user : forall d w ok life ops o u u',
  let k := fixed_with d w ok life in
  let s := fst (run k init ops) in
  about k s o = Some u -> requester k s None o = Some u' -> u <> u' -> step k s (Cached o) = (s, None).
Proof.
  intros d w ok life ops o u u' k s Ha Hr Hne. cbn [step].
  exact (cross_user_refused (with_cache k) None false s o u u' eq_refl
           (run_Inv k ops eq_refl eq_refl eq_refl) Ha Hr Hne).
Qed.

Theorem c05_cached_expired : forall d w ok life s o,
  let k := fixed_with d w ok life in
  expired k s None o = true -> step k s (Cached o) = (s, None).
Proof.
  intros d w ok life s o k He. cbn [step].
  exact (expired_refused (with_cache k) None false s o eq_refl eq_refl He).
Qed.

(* validateUserTOTP as it was: in cached mode an accepted step was neither persisted nor remembered,
   so the same code was accepted again (and once more after the primary came back); with the
   in-memory guard it is accepted once, and nothing is persisted by the cached requests *)
Theorem c05_old_cached_totp_refuted :
  ~ NoDup (spent (fst (run (cfg_mem_guard false) init w_cached_totp))) /\
  NoDup (spent (fst (run (cfg_mem_guard true) init w_cached_totp))) /\
  saved_totp (fst (run (cfg_mem_guard true) init w_cached_totp)) 1%N = 0%Z.
Proof. exact old_cached_totp. Qed.

(* the statement is false of the handlers as they were *)
Theorem c05_old_poll_refuted :
  let s := fst (run (cfg_with false true true true) init w_poll) in
  exists c, In c (issued s) /\ cuser c = 2%N /\ has (clevel c) F_VIP = true /\ forall t, ~ In (2%N, F_VIP, t) (proved s).
Proof. exact old_poll_cross_user. Qed.

Theorem c05_old_totp_replay_refuted :
  ~ NoDup (spent (fst (run (cfg_with true false true true) init w_totp))) /\
  NoDup (spent (fst (run (cfg_with true true true true) init w_totp))).
Proof. exact old_totp_replay. Qed.

Theorem c05_old_challenge_refuted :
  nth 3 (snd (run (cfg_with true true false true) init w_chal_exp)) None <> None /\
  nth 3 (snd (run (cfg_with true true true true) init w_chal_exp)) None = None /\
  ~ NoDup (spent (fst (run (cfg_with true true true false) init w_chal_twice))) /\
  NoDup (spent (fst (run (cfg_with true true true true) init w_chal_twice))).
Proof. exact old_challenge. Qed.

(* a push transaction lives two minutes (ExpiresAt); only the cleanup sweep enforced that, so an
   approved push polled five minutes after its start still raised the level *)
Theorem c05_old_vip_expiry_refuted :
  nth 4 (snd (run (cfg_vip_expiry false) init w_vip_exp)) None <> None /\
  nth 4 (snd (run (cfg_vip_expiry true) init w_vip_exp)) None = None.
Proof. exact old_vip_expiry. Qed.

(* updateAuthCookieAuthlevel as it was: [Login bob; IssueOtp alice; Bootstrap authenticated by
   alice's client certificate with her own OTP and bob's cookie attached] gives bob's session the
   bootstrap and certificate factors alice proved; the repaired upgrade emits nothing *)
Theorem c05_old_cert_cookie_refuted :
  let s := fst (run cfg_old_upgrade init w_cert) in
  (exists c, In c (issued s) /\ cuser c = 2%N /\ has (clevel c) F_BOOT = true /\ has (clevel c) F_X509 = true /\
             (forall t, ~ In (2%N, F_BOOT, t) (proved s)) /\ (forall t, ~ In (2%N, F_X509, t) (proved s))) /\
  nth 2 (snd (run cfg_new_upgrade init w_cert)) None = None.
Proof. exact old_cert_cookie. Qed.

(* which of several auth_cookie values is authoritative matters: an upgrade that re-signs the FIRST
   one while checkAuth authenticates the LAST (same user, so the owner test passes) hands the factors
   of an old session to a newer one — [Login; Totp; an hour passes; Login; hardware token with
   (new cookie, old cookie) attached] yields a cookie with iat = the second login that carries the
   TOTP bit, verified only before that instant; re-signing the last one keeps iat = the first login *)
Theorem c05_first_cookie_refuted :
  (let s := fst (run (cfg_first_cookie false) init w_first) in
   exists c, In c (issued s) /\ cuser c = 1%N /\ has (clevel c) F_TOTP = true /\ ciat c = 6600%Z /\
             forall t, In (1%N, F_TOTP, t) (proved s) -> (t < ciat c)%Z) /\
  (let s := fst (run (cfg_first_cookie true) init w_first) in
   exists c, nth 6 (snd (run (cfg_first_cookie true) init w_first)) None = Some c /\ ciat c = 3000%Z).
Proof. exact old_first_cookie. Qed.

(* LOGINS WITH SESSION COOKIES ATTACHED.  A login request may carry any auth_cookie values the server ever issued
   (`Login u pw_ok cs`): a session of the same user that holds second factors — still valid or long expired —,
   a session of another user, junk, several of them.  None of it is a credential of the login.  In EVERY state,
   with every certificate / write fault and whatever is attached: if the login answers with a session cookie then
   the password was right, and the cookie is exactly {the user who logged in, the password level, iat = now,
   exp = now + the cookie lifetime}; it is the newest issued cookie's claim and its one factor is on record as
   verified now.  So the level of a new session is the password level only (consistent with
   c06_login_mints_password_only on the gate side), and c05_inv — which quantifies over all histories, hence over
   all logins with attachments — holds with the verification instant of every factor >= the session's iat *)
Theorem c05_login_mints_password_only : forall d w okta life cert fault s u pw_ok cs s' c,
  step (fixed_with d w okta life) s (Req cert fault (Login u pw_ok cs)) = (s', Some c) ->
  pw_ok = true /\
  c = {| cuser := u; clevel := add 0 F_PW; ciat := now s; cexp := (now s + 57600)%Z |} /\
  In c (issued s') /\ In (u, F_PW, now s) (proved s') /\
  (forall f, has (clevel c) f = true -> f = F_PW).
Proof.
  intros d w okta life cert fault s u pw_ok cs s' c H. cbn [step] in H.
  destruct (login_mints_password_only _ _ _ _ _ _ _ _ _ H) as (H1 & H2 & H3 & H4).
  assert (Hn : now (present_cert s cert) = now s) by (destruct cert; reflexivity). rewrite Hn in H2, H4.
  split; [exact H1|]. split; [exact H2|]. split; [exact H3|]. split; [exact H4|].
  intros f Hf. rewrite H2 in Hf. exact (login_level_bits f Hf).
Qed.

(* ... stated for the bare operation and every configuration of the model (also the older handlers) *)
Theorem c05_login_mints_password_only_any : forall k cert fault s u pw_ok cs s' c,
  step_req k cert fault s (Login u pw_ok cs) = (s', Some c) ->
  pw_ok = true /\
  c = {| cuser := u; clevel := add 0 F_PW; ciat := now s; cexp := (now s + cookie_life k)%Z |} /\
  In c (issued s') /\ In (u, F_PW, now s) (proved s').
Proof. exact login_mints_password_only. Qed.

(* the attached cookies are no input of the login: same user and password => same answer and same state *)
Theorem c05_login_ignores_attached : forall k cert fault s u pw_ok cs cs',
  step_req k cert fault s (Login u pw_ok cs) = step_req k cert fault s (Login u pw_ok cs').
Proof. exact login_ignores_attached. Qed.

(* a loginHandler that lets the new session keep the second factors of the attached session cookie of the same
   user (Model.Session.login_carry; the old cookie's exp is not looked at): user 1 verifies a hardware token at
   3000; 60000 s later that session is expired and authenticates nothing; attached to a password login it gives
   the NEW session (iat 63000) the U2F bit although U2F was verified for user 1 only before that instant — the
   conclusion of c05_inv fails.  The login of the model mints the password level at iat 63000 *)
Theorem c05_login_carry_refuted :
  let k := cfg_with true true true true in
  let s := fst (run k init w_carry) in
  session k s [1%nat] any_mask = None /\
  (exists c, snd (login_carry k s 1 [1%nat]) = Some c /\ In c (issued (fst (login_carry k s 1 [1%nat]))) /\
             cuser c = 1%N /\ has (clevel c) F_U2F = true /\ ciat c = 63000%Z /\
             forall t, In (1%N, F_U2F, t) (proved (fst (login_carry k s 1 [1%nat]))) -> (t < ciat c)%Z) /\
  (exists c, snd (step k s (Login 1 true [1%nat])) = Some c /\ clevel c = add 0 F_PW /\ ciat c = 63000%Z).
Proof. exact login_carry_unjustified. Qed.

(* non-vacuity: a complete two-factor history; the TOTP value stops working; the other user's
   session attached FIRST is not the one that is upgraded; a certificate-authenticated upgrade of
   the own cookie replaces its level by certificate|factor *)
Example c05_history :
  let d := fun _ => {| has_totp := true; has_u2f := false; has_wa := false; has_profile := true |} in
  map (fun o => match o with Some c => Some (cuser c, clevel c) | None => None end)
      (snd (run (fixed d 64) init
        [Tick 3000; Login 1 true []; Login 2 true []; Totp [1%nat; 0%nat] (TCode 1 100); Totp [0%nat] (TCode 1 100);
         Totp [1%nat] (TCode 1 100); ShowTok [2%nat] 1000; SendDoc [2%nat] 0; SendDoc [1%nat] 0;
         Req (Some 1%N) false (Totp [1%nat] (TCode 1 101)); Req (Some 1%N) false (Totp [0%nat] (TCode 1 101));
         Tick 30; Req (Some 1%N) false (Totp [0%nat] (TCode 1 102))]))
  = [None; Some (1, 2); Some (2, 2); Some (1, 66); None; None; None; Some (1, 1024); None;
     None; None; None; Some (1, 576)]%N.
Proof. vm_compute. reflexivity. Qed.

(* non-vacuity of the freshness statements: a second sign request 31 s after the first hands out a NEW
   value (ids 0 and 1); the assertion over the first, expired, challenge is refused, the one over the
   second accepted — once *)
Example c05_begin_twice :
  let d := fun _ => {| has_totp := false; has_u2f := true; has_wa := false; has_profile := true |} in
  map (fun ob => match ob with (ok, c, i) => (ok, match c with Some c => Some (clevel c) | None => None end, i) end)
      (run_obs (fixed d 8) init
        [Login 1 true []; U2fBegin [0%nat]; Tick 31; U2fBegin [0%nat]; U2fFinish [0%nat] (asrt 1 0 false);
         U2fFinish [0%nat] (asrt 1 1 false); U2fFinish [0%nat] (asrt 1 1 false)])
  = [(true, Some 2, None); (true, None, Some 0); (true, None, None); (true, None, Some 1); (false, None, None);
     (true, Some 10, None); (false, None, None)]%N.
Proof. vm_compute. reflexivity. Qed.

(* non-vacuity of the Okta second factor (password backend = the Okta authenticator, cached answers live
   300 s): a pass code of user 1 in user 2's session is refused, in her own accepted; a push is
   started, polled (waiting), approved by its owner, polled by the other user (who thereby only starts
   her own push), polled by the owner: accepted once; 300 s after the login nothing Okta works until
   the next password check.  Without the Okta backend every Okta operation is refused *)
Example c05_okta_history :
  let d := fun _ : N => {| has_totp := false; has_u2f := false; has_wa := false; has_profile := true |} in
  map (fun ob => match ob with (ok, c, i) => (ok, match c with Some c => Some (cuser c, clevel c) | None => None end) end)
      (run_obs (fixed_okta d 128 300) init
        [Login 1 true []; Login 2 true []; OktaOtp [1%nat] (VGood 1); OktaOtp [0%nat] (VGood 1);
         OktaPushStart [1%nat]; OktaPoll [1%nat]; OktaApprove 2; OktaPoll [0%nat]; OktaPoll [1%nat]; OktaPoll [1%nat];
         Tick 300; OktaOtp [1%nat] (VGood 2); Login 2 true []; OktaOtp [4%nat] (VGood 2)])
  = [(true, Some (1, 2)); (true, Some (2, 2)); (false, None); (true, Some (1, 130)); (true, None); (false, None);
     (true, None); (false, None); (true, Some (2, 130)); (false, None); (true, None); (false, None);
     (true, Some (2, 2)); (true, Some (2, 130))]%N /\
  map (fun ob => match ob with (ok, c, i) => (ok, match c with Some c => Some (cuser c, clevel c) | None => None end) end)
      (run_obs (fixed d 128) init
        [Login 1 true []; OktaOtp [0%nat] (VGood 1); OktaPushStart [0%nat]; OktaApprove 1; OktaPoll [0%nat]])
  = [(true, Some (1, 2)); (false, None); (false, None); (true, None); (false, None)]%N.
Proof. split; vm_compute; reflexivity. Qed.

(* ---- a refused second-factor attempt is pure (round 5) ---- *)
From KM Require Import Model.SessionPure Proofs.SessionPure.

(* For EVERY configuration of the code (repaired or not), EVERY state (reachable or not) and every
   ATTEMPT — a request that presents something to be verified: a VIP / Okta pass code, a TOTP code, a
   bootstrap OTP, a hardware-token assertion, the poll of a push transaction, a CLI token; bare, with a
   client certificate, while profile writes fail, or served from the cache —: if the attempt is REFUSED
   (it verifies nothing and emits no cookie) then it leaves the state exactly as the request found it
   (`found`: the only difference to `s` is the ghost note of a presented certificate).  In particular
   the stored profile (TOTP counter, bootstrap OTP) and the pending one-time values (challenges, push
   transactions, CLI tokens) after a refused attempt equal those before: a failed attempt writes
   nothing.  The model has no throttling state (the TOTP pause / lock-out record is C14's subject):
   that is all a failed attempt may change in the code. *)
Theorem c05_failed_attempt_pure : forall k s o,
  attempt o = true -> refused k s o = true ->
  step k s o = (found s o, None) /\ durable (fst (step k s o)) = durable s.
Proof. intros k s o Ha Hr. split; [exact (refused_pure k s o Ha Hr) | exact (refused_durable k s o Ha Hr)]. Qed.

(* ... which is what makes every interleaving of a refused attempt `w` with another request `b` harmless:
   whichever of the two runs first, the final state and the answer of `b` are those of `b` alone.  At
   storage granularity a refused attempt consists of reads only, so every interleaving of its storage
   operations with those of `b` is one of these two orders (the harness enumerates the schedules of the
   real handlers and checks exactly this: C05:onetime:<kind>:after-overlap). *)
Theorem c05_failed_attempt_commutes : forall k s w b,
  attempt w = true -> plain w = true ->
  refused k s w = true -> refused k (fst (step k s b)) w = true ->
  both k s w b = (fst (step k s b), (None, snd (step k s b))) /\
  both k s b w = (fst (step k s b), (snd (step k s b), None)).
Proof. exact refused_commutes. Qed.

(* non-vacuity: a wrong bootstrap OTP / TOTP code is refused, the right one is not; right value || wrong
   value in either order, then the right value again on a fresh session: refused *)
Example c05_refused_examples :
  refused kx s_pending (Bootstrap [1%nat] BBad) = true /\
  refused kx s_pending (Bootstrap [1%nat] (BCode 2 0)) = false /\
  refused kx s_pending (Totp [0%nat] TBad) = true /\
  refused kx s_pending (Totp [0%nat] (TCode 1 100)) = false /\
  snd (both kx (fst (both kx s_pending (Bootstrap [1%nat] BBad) (Bootstrap [1%nat] (BCode 2 0)))) (Login 2 true []) (Bootstrap [3%nat] (BCode 2 0))) = (snd (step kx s_pending (Login 2 true [])), None).
Proof. exact refused_examples. Qed.

(* THE CLIENT ADDRESS.  A request reaches the handlers with an address (r.RemoteAddr, and whatever
   X-Forwarded-For / X-Real-IP / Forwarded say); a history is a list of (address, operation) pairs
   (Model.SessionAddr).  For every configuration, from every state: histories that agree on their
   operations give the same outputs, the same per-step observations and the same final state whatever
   addresses their requests come from — the address is no input of any second-factor decision.  By
   construction of `step_at`; the statement is what the correspondence holds the real handlers to (the
   harness sends the requests of a history from different addresses, the case file evaluates
   `run_obs_at` on the (address, operation) list) *)
From KM Require Import Model.SessionAddr Proofs.SessionAddr.

Theorem c05_address_irrelevant : forall k s (l l' : list areq),
  map snd l = map snd l' ->
  run_at k s l = run_at k s l' /\ run_obs_at k s l = run_obs_at k s l'.
Proof. exact address_irrelevant. Qed.

(* ... and evaluated on (address, operation) lists the machine is the one all theorems above are about *)
Theorem c05_address_run : forall k s (l : list areq),
  run_at k s l = run k s (map snd l) /\ run_obs_at k s l = run_obs k s (map snd l).
Proof. intros k s l. split; [exact (run_at_ops k l s)|exact (run_obs_at_ops k l s)]. Qed.

(* The contrast: the replay guard of validateUserTOTP written out with its two memories — the persisted
   counter of the profile (not written while profiles come from the cache) and the in-memory counter of
   totpLocalRateLimit[key] — for ANY key type with a correct boolean equality and ANY key function of
   (user, client address) that ignores the address: in every history, from any state, once a request
   presenting step c of user u was accepted, no later request presenting step c of user u is accepted,
   whatever addresses, `cached` flags and write faults the requests in between and the two requests
   themselves carry *)
Theorem c05_totp_guard_once : forall (K : Type) (keq : K -> K -> bool) (key : N -> addr -> K),
  (forall x y, keq x y = true <-> x = y) ->
  (forall u a a', key u a = key u a') ->
  forall s0 pre r post r',
  g_user r' = g_user r -> g_code r' = g_code r ->
  let s1 := fst (grun keq key s0 pre) in
  snd (gstep keq key s1 r) = true ->
  let s2 := fst (grun keq key (fst (gstep keq key s1 r)) post) in
  snd (gstep keq key s2 r') = false.
Proof. exact guard_once. Qed.

(* the same over the answers of a history: of two requests presenting the same step of the same user, if
   the earlier one is accepted the later one is refused *)
Theorem c05_totp_guard_once_nth : forall (K : Type) (keq : K -> K -> bool) (key : N -> addr -> K),
  (forall x y, keq x y = true <-> x = y) ->
  (forall u a a', key u a = key u a') ->
  forall l s0 i j r r',
  (i < j)%nat -> nth_error l i = Some r -> nth_error l j = Some r' ->
  g_user r' = g_user r -> g_code r' = g_code r ->
  nth_error (snd (grun keq key s0 l)) i = Some true ->
  nth_error (snd (grun keq key s0 l)) j = Some false.
Proof. exact guard_once_nth. Qed.

(* with the in-memory record keyed by (user, client address) — a correct equality on the keys, only the
   key function looks at the address — the statement is false: the code of user 1 for step 100 is accepted
   from address 0 and again from address 1 while profiles come from the cache; keyed by the user the second
   request is refused *)
Theorem c05_guard_by_address_refuted :
  (forall x y, pair_eqb x y = true <-> x = y) /\
  (exists pre r post r',
     g_user r' = g_user r /\ g_code r' = g_code r /\ g_code r <> None /\
     let s1 := fst (grun pair_eqb key_user_addr ginit pre) in
     snd (gstep pair_eqb key_user_addr s1 r) = true /\
     snd (gstep pair_eqb key_user_addr
            (fst (grun pair_eqb key_user_addr (fst (gstep pair_eqb key_user_addr s1 r)) post)) r') = true) /\
  snd (grun pair_eqb key_user_addr ginit w_guard_two_addresses) = [true; true] /\
  snd (grun N.eqb key_user ginit w_guard_two_addresses) = [true; false].
Proof. exact guard_by_address. Qed.

(* ... and under the user key this guard IS the one of Model.Session's Totp step: with `last_totp` = the value
   the guard compares with and `saved_totp` = the persisted counter (g_rel), a Totp request of user u presenting
   a code of her own secret for a step in the window — with any certificate, write fault and read source — and
   `gstep` on the corresponding request (from any address) keep the relation, accept together (the step is
   recorded as spent exactly then), and a refusal leaves the session state as it was *)
Theorem c05_totp_guard_is_session : forall k cert fault s cs u l stp g a,
  totp_monotone k = true -> totp_mem_guard k = true ->
  auth k s cert cs any_mask = Some (u, l) ->
  has_totp (devs k u) = true -> (totp_step (now s) - 1 <= stp <= totp_step (now s) + 1)%Z ->
  g_rel s g ->
  let r := {| g_user := u; g_addr := a; g_cached := from_cache k; g_fault := fault; g_code := Some stp |} in
  let s' := fst (step_req k cert fault s (Totp cs (TCode u stp))) in
  g_rel s' (fst (gstep N.eqb key_user g r)) /\
  (snd (gstep N.eqb key_user g r) = true <-> spent s' = OtTotp u stp :: spent s) /\
  (snd (gstep N.eqb key_user g r) = false -> s' = s).
Proof. exact totp_step_is_guard. Qed.
