(* C03 — every issued certificate is short-lived, whatever duration is requested. *)
From Coq Require Import ZArith List.
Import ListNotations.
From KM Require Import Model.Lifetime Proofs.Lifetime.
Open Scope Z_scope.

(* For every requested duration (any integer number of nanoseconds, i.e. a superset of what
   time.ParseDuration can return, or none), every authentication instant iat >= 0 and clock
   readings now1 <= now2: if the handler signs at all, the SSH validity does not wrap, does not
   start in the future, and ends no later than now+requested, now+maxc and iat+maxc (plus the
   handler's own latency now2-now1).  Stated for an arbitrary cap maxc > 0; Obl_C03 instantiates
   it with the regenerated constant and proves maxc = 24h. *)
Theorem c03_ssh_bound : forall maxc req iat now1 now2 d,
  0 < maxc < two64 * NS / 4 -> 0 <= iat -> 0 <= now1 <= now2 -> now2 < two64 * NS / 4 ->
  now1 < iat + two64 * NS / 4 ->
  handler_duration maxc req iat now1 = Some d ->
  let '(va, vb) := ssh_window now2 d in
  va = now2 / NS /\ vb = now2 / NS + Z.quot d NS /\ 0 <= vb < two64 /\
  va * NS <= now2 /\
  (0 <= d -> vb * NS <= now2 + d /\ vb * NS <= now2 + maxc /\
             vb * NS <= iat + maxc + (now2 - now1) /\
             match req with Some r => vb * NS <= now2 + r | None => True end) /\
  (d < 0 -> vb <= va).
Proof. exact ssh_bound. Qed.
Print Assumptions c03_ssh_bound.

Theorem c03_x509_bound : forall maxc req iat now1 now2 d,
  now1 <= now2 ->
  handler_duration maxc req iat now1 = Some d ->
  let '(nb, na) := x509_window now2 d in
  nb = now2 /\ na <= now2 + maxc /\ na <= iat + maxc + (now2 - now1) /\
  match req with Some r => na <= now2 + r | None => True end.
Proof. exact x509_bound. Qed.
Print Assumptions c03_x509_bound.

Theorem c03_too_long_refused : forall maxc r iat now1,
  maxc < r -> handler_duration maxc (Some r) iat now1 = None.
Proof. exact too_long_refused. Qed.
Print Assumptions c03_too_long_refused.

Theorem c03_nonpositive_refused : forall maxc r iat now1,
  r <= 0 -> handler_duration maxc (Some r) iat now1 = None.
Proof. exact nonpositive_refused. Qed.
Print Assumptions c03_nonpositive_refused.

(* the statement was false of the handler before the fix: ValidBefore more than a century ahead *)
Theorem c03_old_refuted : exists req iat now1 now2 d,
  handler_duration_old (86400 * NS) req iat now1 = Some d /\
  snd (ssh_window now2 d) > now2 / NS + 100 * 365 * 86400.
Proof. exact old_wraps. Qed.
Print Assumptions c03_old_refuted.

(* non-vacuity: a one-hour request on a fresh session is signed for one hour *)
Example c03_signs_something :
  handler_duration (86400 * NS) (Some (3600 * NS)) (1790000000 * NS) (1790000001 * NS) = Some (3600 * NS)
  /\ ssh_window (1790000001 * NS + 5) (3600 * NS) = (1790000001, 1790003601).
Proof. vm_compute. split; reflexivity. Qed.

(* "24 hours after the moment the presented session was authenticated": second factors added
   later (any number, at any time) re-sign the session's claims and do not move that moment, so
   the bound is counted from the first authentication *)
Theorem c03_upgrade_keeps_auth_instant : forall levels s, fst (upgrades s levels) = fst s.
Proof. exact upgrades_keep_iat. Qed.
Print Assumptions c03_upgrade_keeps_auth_instant.

Theorem c03_bound_after_upgrades : forall maxc req s levels now1 now2 d,
  0 < maxc < two64 * NS / 4 -> 0 <= fst s -> 0 <= now1 <= now2 -> now2 < two64 * NS / 4 ->
  now1 < fst s + two64 * NS / 4 ->
  handler_duration maxc req (fst (upgrades s levels)) now1 = Some d -> 0 <= d ->
  snd (ssh_window now2 d) * NS <= fst s + maxc + (now2 - now1).
Proof. exact ssh_bound_after_upgrades. Qed.
Print Assumptions c03_bound_after_upgrades.

(* EVERY issuing path under EVERY configuration.  [cfg] is the value of every numeric / duration knob of
   the configuration file (universally quantified: no lifetime depends on it), [L] the three compiled
   limits, [p] the path (/certgen/ ssh or x509, role-requesting, refresh, cloud-role), [req] the duration
   form field (absent: the default path), [c] the credential and how its authenticated-at instant is
   derived (cookie iat, client-certificate NotBefore, IP-certificate NotBefore, password = now).  If
   anything is signed, the window starts now (SSH: this second) and ends within the path's limit;
   on /certgen/ it also ends within the limit counted from the authenticated-at instant (or is born
   expired) and within the requested duration; on the other paths the length is the constant whatever
   the request carries.  Obl_C03 instantiates L with the regenerated values and proves the literal
   numbers of the property (24 h, 45 d, 24 h). *)
Theorem c03_effective_window : forall cfg L p req c now0 now1 now2 nb na,
  sane L -> 0 <= issued_at c now0 -> 0 <= now1 <= now2 -> now2 < two64 * NS / 4 ->
  now1 < issued_at c now0 + two64 * NS / 4 ->
  effective_window cfg L p req c now0 now1 now2 = Some (nb, na) ->
  nb <= now2 /\ now2 - NS < nb /\
  na <= now2 + path_limit L p /\
  (is_certgen p = true ->
     na <= Z.max nb (issued_at c now0 + maxc L + (now2 - now1)) /\
     match req with Some r => 0 < r <= maxc L /\ na <= now2 + r | None => True end) /\
  (is_certgen p = false -> na = nb + path_limit L p).
Proof. exact effective_window_bound. Qed.
Print Assumptions c03_effective_window.

Theorem c03_config_independent : forall cfg cfg' L p req c now0 now1 now2,
  effective_window cfg L p req c now0 now1 now2 = effective_window cfg' L p req c now0 now1 now2.
Proof. exact effective_window_cfg_independent. Qed.
Print Assumptions c03_config_independent.

Theorem c03_fixed_paths_ignore_request : forall cfg L p req req' c c' now0 now0' now1 now1' now2,
  is_certgen p = false ->
  effective_window cfg L p req c now0 now1 now2 = effective_window cfg L p req' c' now0' now1' now2.
Proof. exact fixed_paths_ignore_request. Qed.
Print Assumptions c03_fixed_paths_ignore_request.

(* non-vacuity: the default path on an 8 h old client certificate is clamped to 16 h; the cloud-role
   path signs for the literal under a configuration that sets two knobs to ~114 years *)
Example c03_effective_examples :
  let L := {| maxc := 86400 * NS; maxrole := 45 * 86400 * NS; awslife := 86400 * NS |} in
  effective_window nil L CertgenX509 None (KmCert (1790000000 * NS)) 0 ((1790000000 + 8 * 3600) * NS) ((1790000000 + 8 * 3600) * NS)
    = Some ((1790000000 + 8 * 3600) * NS, (1790000000 + 24 * 3600) * NS) /\
  effective_window [(0%N, 1000000 * 3600 * NS); (3%N, 1000000 * 3600 * NS)] L Aws (Some (1000 * 3600 * NS)) Basic 5 5 (1790000000 * NS)
    = Some (1790000000 * NS, (1790000000 + 86400) * NS).
Proof. vm_compute. split; reflexivity. Qed.

(* ---- the issuing CA certificate's own validity (a component of the server state) ----
   [ca_nb, ca_na] = NotBefore / NotAfter of the CA certificate the path signs under (made at unseal
   time from the wall clock of that moment: possibly in the future after a clock step, possibly about
   to expire).  For EVERY CA validity the bounds of c03_effective_window hold: the certificate starts
   now (never in the future, even under a CA that is not valid yet) and ends within the requested
   duration / the path's limit counted from the moment of issuance.  (A certificate outliving its CA
   is allowed by the statement.) *)
Theorem c03_effective_window_every_ca : forall ca_nb ca_na cfg L p req c now0 now1 now2 nb na,
  sane L -> 0 <= issued_at c now0 -> 0 <= now1 <= now2 -> now2 < two64 * NS / 4 ->
  now1 < issued_at c now0 + two64 * NS / 4 ->
  effective_window_ca (ca_nb, ca_na) cfg L p req c now0 now1 now2 = Some (nb, na) ->
  nb <= now2 /\ now2 - NS < nb /\
  na <= now2 + path_limit L p /\
  (is_certgen p = true ->
     na <= Z.max nb (issued_at c now0 + maxc L + (now2 - now1)) /\
     match req with Some r => 0 < r <= maxc L /\ na <= now2 + r | None => True end) /\
  (is_certgen p = false -> na = nb + path_limit L p).
Proof. exact effective_window_ca_bound. Qed.
Print Assumptions c03_effective_window_every_ca.

(* the CA's dates are not an input of the window *)
Theorem c03_window_independent_of_ca : forall ca ca' cfg L p req c now0 now1 now2,
  effective_window_ca ca cfg L p req c now0 now1 now2 = effective_window_ca ca' cfg L p req c now0 now1 now2.
Proof. exact effective_window_ca_independent. Qed.
Print Assumptions c03_window_independent_of_ca.

(* under a CA certificate that is not valid yet the issued certificate starts BEFORE its CA does, at
   the moment of issuance *)
Theorem c03_not_yet_valid_ca_starts_now : forall ca_nb ca_na cfg L p req c now0 now1 now2 nb na,
  sane L -> 0 <= issued_at c now0 -> 0 <= now1 <= now2 -> now2 < two64 * NS / 4 ->
  now1 < issued_at c now0 + two64 * NS / 4 -> now2 < ca_nb ->
  effective_window_ca (ca_nb, ca_na) cfg L p req c now0 now1 now2 = Some (nb, na) ->
  nb < ca_nb /\ nb <= now2.
Proof. exact not_yet_valid_ca_starts_now. Qed.
Print Assumptions c03_not_yet_valid_ca_starts_now.

(* NOT the code: a generator that nests the validity inside the issuer's (NotBefore raised to the CA's
   NotBefore, duration counted from there, end clamped to the CA's end).  With a CA certificate that
   becomes valid in 40 minutes and a 24 h duration the certificate starts in the future and ends after
   now2 + 24 h; with a CA that is valid and far from its end the variant is the code's window. *)
Theorem c03_nested_validity_refuted : exists ca_nb ca_na now2 d,
  0 < d /\ now2 + d < ca_na /\
  let '(nb, na) := x509_window_nested ca_nb ca_na now2 d in now2 < nb /\ now2 + d < na.
Proof. exact nested_validity_refuted. Qed.
Print Assumptions c03_nested_validity_refuted.

Theorem c03_nested_validity_agrees_when_ca_valid : forall ca_nb ca_na now2 d,
  ca_nb <= now2 -> now2 + d <= ca_na -> x509_window_nested ca_nb ca_na now2 d = x509_window now2 d.
Proof. exact nested_validity_agrees_when_ca_valid. Qed.
Print Assumptions c03_nested_validity_agrees_when_ca_valid.

(* the property predicate evaluated on observations (the model oracle of the case file) is sound for
   the correspondence: an observation the model accepts under any CA validity neither starts after the
   recorded clock nor ends beyond it plus the requested duration / the path's limit *)
Theorem c03_obs_ok_not_future : forall ca cfg L p req c t0 t1 va vb,
  window_obs_ok_ca ca cfg L p req c t0 t1 true va vb = true -> obs_starts_in_future t1 va = false.
Proof. exact obs_ok_not_future. Qed.
Print Assumptions c03_obs_ok_not_future.

Theorem c03_obs_ok_not_beyond_limit : forall ca cfg L p req c t0 t1 va vb,
  window_obs_ok_ca ca cfg L p req c t0 t1 true va vb = true ->
  (t1 + 1 + Z.quot (obs_limit L p req) NS + 1 <? vb) = false.
Proof. exact obs_ok_not_beyond_limit. Qed.
Print Assumptions c03_obs_ok_not_beyond_limit.

(* non-vacuity: a 1 h request under a CA that becomes valid in 40 minutes and expires in 10 is signed
   from now for one hour *)
Example c03_ca_example :
  let L := {| maxc := 86400 * NS; maxrole := 45 * 86400 * NS; awslife := 86400 * NS |} in
  effective_window_ca ((1790000000 + 2400) * NS, (1790000000 + 600) * NS) nil L CertgenX509 (Some (3600 * NS))
    (Cookie (1790000000 * NS)) (1790000000 * NS) (1790000000 * NS) (1790000000 * NS)
  = Some (1790000000 * NS, (1790000000 + 3600) * NS).
Proof. vm_compute. reflexivity. Qed.
