(* C03 — every issued certificate is short-lived, whatever duration is requested. *)
From Coq Require Import ZArith.
From KM Require Import Model.Lifetime Proofs.Lifetime.
Open Scope Z_scope.

(* For every requested duration (any integer number of nanoseconds, i.e. a superset of what
   time.ParseDuration can return, or none), every authentication instant iat >= 0 and clock
   readings now1 <= now2: if the handler signs at all, the SSH validity does not wrap, does not
   start in the future, and ends no later than now+requested, now+maxc and iat+maxc (plus the
   handler's own latency now2-now1).  Stated for an arbitrary cap maxc > 0; Obl_C03 instantiates
   it with the regenerated constant and proves maxc = 24h. *)
Theorem c03_ssh_bound : forall maxc req iat now1 now2 d,
  0 < maxc < two64 * NS / 4 -> 0 <= iat -> 0 <= now1 <= now2 -> now2 < two64 * NS / 4 ->
  now1 < iat + two64 * NS / 4 ->
  handler_duration maxc req iat now1 = Some d ->
  let '(va, vb) := ssh_window now2 d in
  va = now2 / NS /\ vb = now2 / NS + Z.quot d NS /\ 0 <= vb < two64 /\
  va * NS <= now2 /\
  (0 <= d -> vb * NS <= now2 + d /\ vb * NS <= now2 + maxc /\
             vb * NS <= iat + maxc + (now2 - now1) /\
             match req with Some r => vb * NS <= now2 + r | None => True end) /\
  (d < 0 -> vb <= va).
Proof. exact ssh_bound. Qed.
Print Assumptions c03_ssh_bound.

Theorem c03_x509_bound : forall maxc req iat now1 now2 d,
  now1 <= now2 ->
  handler_duration maxc req iat now1 = Some d ->
  let '(nb, na) := x509_window now2 d in
  nb = now2 /\ na <= now2 + maxc /\ na <= iat + maxc + (now2 - now1) /\
  match req with Some r => na <= now2 + r | None => True end.
Proof. exact x509_bound. Qed.
Print Assumptions c03_x509_bound.

Theorem c03_too_long_refused : forall maxc r iat now1,
  maxc < r -> handler_duration maxc (Some r) iat now1 = None.
Proof. exact too_long_refused. Qed.
Print Assumptions c03_too_long_refused.

Theorem c03_nonpositive_refused : forall maxc r iat now1,
  r <= 0 -> handler_duration maxc (Some r) iat now1 = None.
Proof. exact nonpositive_refused. Qed.
Print Assumptions c03_nonpositive_refused.

(* the statement was false of the handler before the fix: ValidBefore more than a century ahead *)
Theorem c03_old_refuted : exists req iat now1 now2 d,
  handler_duration_old (86400 * NS) req iat now1 = Some d /\
  snd (ssh_window now2 d) > now2 / NS + 100 * 365 * 86400.
Proof. exact old_wraps. Qed.
Print Assumptions c03_old_refuted.

(* non-vacuity: a one-hour request on a fresh session is signed for one hour *)
Example c03_signs_something :
  handler_duration (86400 * NS) (Some (3600 * NS)) (1790000000 * NS) (1790000001 * NS) = Some (3600 * NS)
  /\ ssh_window (1790000001 * NS + 5) (3600 * NS) = (1790000001, 1790003601).
Proof. vm_compute. split; reflexivity. Qed.

(* "24 hours after the moment the presented session was authenticated": second factors added
   later (any number, at any time) re-sign the session's claims and do not move that moment, so
   the bound is counted from the first authentication *)
Theorem c03_upgrade_keeps_auth_instant : forall levels s, fst (upgrades s levels) = fst s.
Proof. exact upgrades_keep_iat. Qed.
Print Assumptions c03_upgrade_keeps_auth_instant.

Theorem c03_bound_after_upgrades : forall maxc req s levels now1 now2 d,
  0 < maxc < two64 * NS / 4 -> 0 <= fst s -> 0 <= now1 <= now2 -> now2 < two64 * NS / 4 ->
  now1 < fst s + two64 * NS / 4 ->
  handler_duration maxc req (fst (upgrades s levels)) now1 = Some d -> 0 <= d ->
  snd (ssh_window now2 d) * NS <= fst s + maxc + (now2 - now1).
Proof. exact ssh_bound_after_upgrades. Qed.
Print Assumptions c03_bound_after_upgrades.
