(* C07 — the directory's verdict on passwords is final; the offline cache only fills outages.
   Model: Model/PwCache.v over the stores of Model/Storage.v. *)
From Coq Require Import List NArith ZArith Bool.
From KM Require Import Model.Storage Proofs.Storage Model.PwCache Proofs.PwCache.
From KM Require Import Base.Bytes Model.PwBackend Proofs.PwBackend.
Import ListNotations.
Open Scope Z_scope.

(* After ANY history (logins here and at another keymaster instance that shares the primary
   database, servers going down / erroring / up, password changes, clock,
   primary outages, copies, and tampering that may put any record that ever existed or any
   forged record into any slot of either store with any expiration column), a login of u with
   pw is accepted only if
     - some directory server answered and the directory's entry for u holds pw, or
     - no server answered and the store that answers holds, in u's slot, an unexpired row whose
       record is genuinely signed, has subject u, is the hash of pw, has a signed expiry in the
       future, and was written by an earlier directory-confirmed login of u with pw less than
       96 hours ago ([confirmed]: the history splits as pre ++ o :: post with o a login of (u, pw) -
       here or at the other instance - at which a replica was up, the directory accepted, and the
       clock read the record's not-before). *)
Theorem c07_accept_sound : forall n ops u pw,
  let s := prun n ops in
  snd (login s u pw) = true ->
  (In SUp (servers s) /\ dir_accepts s u pw = true) \/
  (~ In SUp (servers s) /\
   exists r j, get_signed (st s) u pw_type = Some r /\
               nth_error (jwss s) (N.to_nat (sr_data r)) = Some j /\
               j_genuine j = true /\ j_sub j = u /\ j_pw j = pw /\
               now (st s) < sr_exp r /\ now (st s) < j_exp j /\
               confirmed n ops j /\ 0 <= now (st s) - j_nbf j < 96 * 3600).
Proof. exact accept_sound. Qed.
Print Assumptions c07_accept_sound.

(* when at least one server answers, the verdict is the directory's — whatever the stores hold *)
Theorem c07_final : forall s u pw, In SUp (servers s) -> snd (login s u pw) = dir_accepts s u pw.
Proof. exact verdict_final. Qed.
Print Assumptions c07_final.

(* What counts as "a server answered": the reply to a bind is (result code, diagnostic text).
   Result code 49 (invalidCredentials) is the directory's refusal WHATEVER the diagnostic says —
   nothing, a plain sentence, or Active Directory's sub status (bad password 0x52e, no such user
   0x525, logon restriction, password expired 0x532, account disabled 0x533, expired 0x701, must
   reset 0x773, locked out 0x775, any other number); no other result code is a verdict. *)
Theorem c07_refusal_any_diagnostic : forall c d,
  verdict interp_code (RRefused c d) = if N.eqb c 49 then Some false else None.
Proof. exact interp_code_any_diag. Qed.
Print Assumptions c07_refusal_any_diagnostic.

(* ... and such a refusal is final: a replica answers the bind of (u, pw) with invalidCredentials
   and ANY diagnostic d — the login is refused, and if pw is the cached password its hash is
   evicted from both stores (while the primary can be written).  In particular every account the
   directory holds out of order is refused with its own diagnostic. *)
Theorem c07_refusal_final : forall s u pw d,
  In SUp (servers s) -> bind s SUp u pw = RRefused 49 d ->
  snd (login s u pw) = false /\
  forall j, get_pw true s u = GOk j -> j_pw j = pw -> writable (st s) = true ->
    aget skey_eqb (u, pw_type) (signed (primary (st (fst (login s u pw))))) = None /\
    aget skey_eqb (u, pw_type) (signed (cache (st (fst (login s u pw))))) = None.
Proof. exact refusal_final. Qed.
Print Assumptions c07_refusal_final.

Theorem c07_account_state_refused : forall s u pw d,
  aget N.eqb u (acct s) = Some d ->
  bind s SUp u pw = RRefused 49 (if Nat.eqb (home s u) 0 then d else style s) /\ dir_accepts s u pw = false.
Proof.
  intros s u pw d H. split; [exact (acct_refused s u pw d H)|].
  exact (proj2 (bind_refused_rejects _ _ _ _ _ (acct_refused s u pw d H))).
Qed.
Print Assumptions c07_account_state_refused.

(* Several bind patterns (passwordAuthenticate loops over URLs x patterns): however many patterns
   are configured beyond the first, verdict, stores and record table after a login are those of
   the one-pattern configuration - a replica that answers, answers the FIRST pattern's bind and
   that is final; a replica that does not answer, answers no pattern.  So every theorem of this
   file, stated with the first pattern's verdict [dir_accepts], holds for any number of patterns. *)
Theorem c07_first_pattern_decides : forall s e u pw,
  snd (login (with_extra s e) u pw) = snd (login s u pw) /\
  st (fst (login (with_extra s e) u pw)) = st (fst (login s u pw)) /\
  jwss (fst (login (with_extra s e) u pw)) = jwss (fst (login s u pw)).
Proof. exact login_patterns_irrelevant. Qed.
Print Assumptions c07_first_pattern_decides.

(* consequence (a false reject, outside the statement): a user whose entry lives under a later
   pattern is refused while any replica answers *)
Theorem c07_later_pattern_user_refused : forall s u pw,
  In SUp (servers s) -> home s u <> 0%nat -> snd (login s u pw) = false.
Proof. exact later_pattern_user_refused. Qed.
Print Assumptions c07_later_pattern_user_refused.

(* rejection of the cached password evicts the hash from both stores (while the primary can be
   written; with the primary unreachable nothing can be written: see ..._refuted below) *)
Theorem c07_evict : forall s u pw j,
  In SUp (servers s) -> dir_accepts s u pw = false ->
  get_pw true s u = GOk j -> j_pw j = pw ->
  let s' := fst (login s u pw) in
  (writable (st s) = true ->
     aget skey_eqb (u, pw_type) (signed (primary (st s'))) = None /\
     aget skey_eqb (u, pw_type) (signed (cache (st s'))) = None) /\
  (writable (st s) = false -> s' = s).
Proof. exact evicts. Qed.
Print Assumptions c07_evict.

(* rejection of some OTHER password leaves the cached hash alone *)
Theorem c07_reject_keeps_other : forall s u pw,
  In SUp (servers s) -> dir_accepts s u pw = false ->
  (forall j, get_pw true s u = GOk j -> j_pw j <> pw) ->
  fst (login s u pw) = s.
Proof. exact reject_keeps_other. Qed.
Print Assumptions c07_reject_keeps_other.

(* acceptance refreshes: a new record for (u, pw), valid 96 h from now, in both stores *)
Theorem c07_refresh : forall s u pw,
  In SUp (servers s) -> dir_accepts s u pw = true -> writable (st s) = true ->
  let s' := fst (login s u pw) in
  let id := N.of_nat (length (jwss s)) in
  let n := now (st s) in
  aget skey_eqb (u, pw_type) (signed (primary (st s'))) = Some (mk_srow id (n + 96 * 3600) n) /\
  aget skey_eqb (u, pw_type) (signed (cache (st s'))) = Some (mk_srow id (n + 96 * 3600) n) /\
  nth_error (jwss s') (N.to_nat id) = Some (mk_jws true u pw n (n + 96 * 3600)).
Proof. exact refreshes. Qed.
Print Assumptions c07_refresh.

(* ... WHATEVER was stored for the user before and however recently: in every state (so after every
   history), a login that a replica answers and the directory accepts (primary writable) is accepted,
   the record GetSigned yields for the user afterwards is the genuine hash of the password JUST
   accepted, signed now for 96 h, and if from then on no replica answers (any list of replicas none
   of which is up), a login of the user is accepted for exactly that password - not for the one a
   previous login had stored, a minute or a day ago. *)
Theorem c07_refresh_whatever_was_stored : forall s u pw,
  In SUp (servers s) -> dir_accepts s u pw = true -> writable (st s) = true ->
  let s' := fst (login s u pw) in
  snd (login s u pw) = true /\
  get_pw true s' u = GOk (mk_jws true u pw (now (st s)) (now (st s) + 96 * 3600)) /\
  forall svs pw', ~ In SUp svs -> snd (login (with_servers s' svs) u pw') = N.eqb pw pw'.
Proof. exact refresh_whatever_was_stored. Qed.
Print Assumptions c07_refresh_whatever_was_stored.

(* a login that no server answers writes nothing *)
Theorem c07_outage_login_pure : forall s u pw, ~ In SUp (servers s) -> fst (login s u pw) = s.
Proof. exact outage_login_pure. Qed.
Print Assumptions c07_outage_login_pure.

(* The cache database only fills outages OF THE PRIMARY: which store a read takes its row from is
   a function of the primary's CURRENT mode (Model.Storage.read_source) - no memory of earlier
   failures.  After every history, including those in which earlier reads of the primary timed out
   or failed, once the primary answers the local cache database has no say: replace its content by
   anything, the verdict of a login is the same ... *)
Theorem c07_cache_only_while_primary_silent : forall n ops c u pw,
  pmode (st (prun n ops)) = Up ->
  snd (login (with_cache_db (prun n ops) c) u pw) = snd (login (prun n ops) u pw).
Proof. exact cache_only_while_primary_silent. Qed.
Print Assumptions c07_cache_only_while_primary_silent.

(* ... (in any state, and what the login leaves in the primary is the same too) ... *)
Theorem c07_cache_silent_while_primary_answers : forall s c u pw, pmode (st s) = Up ->
  snd (login (with_cache_db s c) u pw) = snd (login s u pw) /\
  primary (st (fst (login (with_cache_db s c) u pw))) = primary (st (fst (login s u pw))).
Proof. exact cache_silent_while_primary_answers. Qed.
Print Assumptions c07_cache_silent_while_primary_answers.

(* ... and the verdict follows the primary's CURRENT row: no replica answers, the primary does - a
   login is accepted only if the primary holds, now, an unexpired row of this user whose record is
   genuine, inside its signed window, signed for this user and the hash of this password.  So a hash
   that another instance has evicted from the shared primary (the directory rejected it there) does
   not decide here, and a hash another instance has refreshed there does. *)
Theorem c07_primary_row_decides : forall s u pw,
  pmode (st s) = Up -> ~ In SUp (servers s) -> snd (login s u pw) = true ->
  exists r j, aget skey_eqb (u, pw_type) (signed (primary (st s))) = Some r /\ now (st s) < sr_exp r /\
    nth_error (jwss s) (N.to_nat (sr_data r)) = Some j /\
    j_genuine j = true /\ j_sub j = u /\ j_pw j = pw /\ j_nbf j <= now (st s) < j_exp j.
Proof. exact primary_row_decides. Qed.
Print Assumptions c07_primary_row_decides.

Theorem c07_evicted_in_primary_refused : forall s u pw,
  pmode (st s) = Up -> ~ In SUp (servers s) ->
  aget skey_eqb (u, pw_type) (signed (primary (st s))) = None -> snd (login s u pw) = false.
Proof. exact evicted_in_primary_refused. Qed.
Print Assumptions c07_evicted_in_primary_refused.

(* A variant that remembers a timed-out read and keeps reading the cache database for 30 s although
   the primary answers again (Proofs.PwCache.pstep_sticky, NOT the code) is refuted: after one
   hanging read, the other instance's eviction (resp. refresh) in the shared primary is ignored, and
   during the following directory outage the evicted password is accepted (resp. the password the
   directory confirmed last is refused) while the primary answers. *)
Theorem c07_sticky_fallback_refuted :
  let ops := removelast sticky_history in
  pmode (st (prun 1 ops)) = Up /\ ~ In SUp (servers (prun 1 ops)) /\
  aget skey_eqb (1%N, pw_type) (signed (primary (st (prun 1 ops)))) = None /\
  snd (pstep_sticky (prun_sticky 1 ops) (Login 1 7)) = Some true /\
  snd (pstep (prun 1 ops) (Login 1 7)) = Some false.
Proof. exact sticky_fallback_refuted. Qed.
Print Assumptions c07_sticky_fallback_refuted.

Theorem c07_sticky_fallback_refresh_refuted :
  snd (pstep (prun 1 sticky_history2) (Login 1 8)) = Some true /\
  snd (pstep (prun 1 sticky_history2) (Login 1 7)) = Some false /\
  snd (pstep_sticky (prun_sticky 1 sticky_history2) (Login 1 8)) = Some false /\
  snd (pstep_sticky (prun_sticky 1 sticky_history2) (Login 1 7)) = Some true.
Proof. exact sticky_fallback_refuted2. Qed.
Print Assumptions c07_sticky_fallback_refresh_refuted.

(* invariant: every genuinely signed record that exists was written by a directory-confirmed
   login of its subject, carries a 96 h signed lifetime, and is not from the future *)
Theorem c07_rows_confirmed : forall n ops id j,
  nth_error (jwss (prun n ops)) id = Some j -> j_genuine j = true ->
  confirmed n ops j /\ j_exp j = j_nbf j + 96 * 3600 /\ j_nbf j <= now (st (prun n ops)).
Proof. intros n ops id j. exact (inv_run n ops id j). Qed.
Print Assumptions c07_rows_confirmed.

(* the other backends (htpassword file, external command): accepted iff the backend accepts
   the normalised user name; normalisation is idempotent *)
Theorem c07_backend : forall backend raw pw,
  backend_login backend raw pw = backend (normalise raw) pw /\ normalise (normalise raw) = normalise raw.
Proof. intros. split; [apply backend_normalised|apply normalise_idem]. Qed.
Print Assumptions c07_backend.

(* ---- the htpassword / command backends over TIME (Model/PwBackend.v): the file the backend reads (the
   table the command consults) is edited between logins - a password changed, a user removed, a user
   added - in any WAY: rewritten in place or replaced by rename, leaving any size and any
   modification time (the old one restored, a fresh one, an earlier one).  For every history, the
   verdict of a login at time t is the backend's verdict on the content the file has at time t, where
   that content is the fold of the edits alone. *)
Theorem c07_backend_fresh : forall (f : content) (size : N) (mtime : Z) (pre : list bop) (raw : bs) (pw : N) (post : list bop),
  nth (length pre) (bouts (binit f size mtime) (pre ++ BLogin raw pw :: post)) None =
  Some (file_accepts (content_after f pre) (normalise raw) pw).
Proof. intros f size mtime pre raw pw post. exact (backend_fresh (binit f size mtime) pre raw pw post). Qed.
Print Assumptions c07_backend_fresh.

(* two histories that differ only in the ways the edits were made (and in the metadata the file
   started with) answer every login alike *)
Theorem c07_backend_how_irrelevant : forall (f : content) (size size' : N) (mtime mtime' : Z) (ops ops' : list bop),
  map erase ops = map erase ops' ->
  bouts (binit f size mtime) ops = bouts (binit f size' mtime') ops'.
Proof. intros f size size' mtime mtime' ops ops' M. exact (bouts_erase ops ops' (binit f size mtime) (binit f size' mtime') M eq_refl). Qed.
Print Assumptions c07_backend_how_irrelevant.

(* what the content says after an edit: a changed password is the only one accepted, a removed user
   is refused with every password, an added user is accepted with the password of the new line, and
   nobody else's verdict moves *)
Theorem c07_backend_edit_final : forall (f : content) (h : how) (u : bs) (p pw : N),
  (lookup u f <> None -> file_accepts (edit f (BChangePw h u p)) u pw = (p =? pw)%N) /\
  file_accepts (edit f (BRemoveUser h u)) u pw = false /\
  (lookup u f = None -> file_accepts (edit f (BAddUser h u p)) u pw = (p =? pw)%N) /\
  (forall o v, subject o <> Some v -> file_accepts (edit f o) v pw = file_accepts f v pw).
Proof. exact edit_final. Qed.
Print Assumptions c07_backend_edit_final.

(* NOT the code: a backend that keeps the parsed file and reads it again only when stat shows another
   size or modification time ([cstep]).  A password change that keeps both (bcrypt lines have a fixed
   length; mtime restored) leaves the old password accepted and the new one refused, while the
   machine of the code follows the file; an edit that moves either is seen by the variant too. *)
Theorem c07_backend_stat_cache_refuted :
  let f0 := [(alice, 1%N)] in
  couts (cinit f0 300 1000%Z) stat_cache_history = [Some true; None; Some true; Some false] /\
  bouts (binit f0 300 1000%Z) stat_cache_history = [Some true; None; Some false; Some true] /\
  file_accepts (content_after f0 (firstn 2 stat_cache_history)) alice 1 = false /\
  file_accepts (content_after f0 (firstn 2 stat_cache_history)) alice 2 = true.
Proof. exact stat_cache_refuted. Qed.
Print Assumptions c07_backend_stat_cache_refuted.

(* ---- false of the code before the repairs *)
Theorem c07_old_expired_record_refuted :
  snd (pstep_old (prun_old 1 (removelast old_expired_history)) (Login 1 7)) = Some true /\
  snd (pstep (prun 1 (removelast old_expired_history)) (Login 1 7)) = Some false.
Proof. exact old_expired_record_refuted. Qed.
Print Assumptions c07_old_expired_record_refuted.

Theorem c07_old_evict_cache_refuted :
  snd (pstep_old (prun_old 1 (removelast old_evict_history)) (Login 1 7)) = Some true /\
  snd (pstep (prun 1 (removelast old_evict_history)) (Login 1 7)) = Some false.
Proof. exact old_evict_cache_refuted. Qed.
Print Assumptions c07_old_evict_cache_refuted.

(* ---- what a diagnostic-sensitive reading of the refusal would do (Model.PwCache.interp_ad: only
   the AD sub statuses "bad password" / "no such user" count as the directory's answer): with a
   replica up and refusing the disabled account, the cache accepts its cached password; the
   machine of the code refuses and evicts *)
Theorem c07_diag_sensitive_refuted :
  let ops := removelast ad_disabled_history in
  In SUp (servers (prun_ad 1 ops)) /\ dir_accepts (prun_ad 1 ops) 1 7 = false /\
  snd (pstep_ad (prun_ad 1 ops) (Login 1 7)) = Some true /\
  snd (pstep (prun 1 ops) (Login 1 7)) = Some false /\
  aget skey_eqb (1%N, pw_type) (signed (cache (st (fst (pstep (prun 1 ops) (Login 1 7)))))) = None.
Proof. exact diag_sensitive_refuted. Qed.
Print Assumptions c07_diag_sensitive_refuted.

(* with a second pattern configured that reading is masked (the second pattern's "no such entry"
   is a refusal it does accept as the directory's answer): the one-pattern configuration, which is
   what keymasterd builds, is the one that exposes it *)
Theorem c07_diag_sensitive_masked_by_second_pattern :
  let ops := removelast ad_disabled_history in
  snd (pstep_ad (prun_ad2 1 0 ops) (Login 1 7)) = Some true /\
  snd (pstep_ad (prun_ad2 1 1 ops) (Login 1 7)) = Some false.
Proof. exact ad_masked_by_second_pattern. Qed.
Print Assumptions c07_diag_sensitive_masked_by_second_pattern.

(* ---- the code before the repair (fixed: CheckLDAPUserPassword tested the error TEXT for the words
   "Invalid Credentials" instead of the result code).  A replica that answers binds with another
   result code and a diagnostic mentioning those words was taken for a refusing directory: with a
   healthy second replica that accepts, the right (cached) password is rejected and its hash evicted -
   the verdict is not the directory's although a server answers; with no healthy replica the hash that
   should fill the outage is evicted.  The repaired machine ([pstep], result code only) accepts in
   both situations. *)
Theorem c07_old_text_test_refuted :
  let ops := removelast misleading_history in
  In SUp (servers (prun 2 ops)) /\ dir_accepts (prun 2 ops) 1 7 = true /\
  snd (pstep_text (prun_text 2 ops) (Login 1 7)) = Some false /\
  aget skey_eqb (1%N, pw_type) (signed (primary (st (fst (pstep_text (prun_text 2 ops) (Login 1 7)))))) = None /\
  snd (pstep (prun 2 ops) (Login 1 7)) = Some true /\
  snd (pstep (prun 1 ops) (Login 1 7)) = Some true /\
  snd (pstep_text (prun_text 1 ops) (Login 1 7)) = Some false /\
  aget skey_eqb (1%N, pw_type) (signed (cache (st (fst (pstep_text (prun_text 1 ops) (Login 1 7)))))) = None.
Proof. exact old_text_test_refuted. Qed.
Print Assumptions c07_old_text_test_refuted.

(* a replica answering with any result code other than invalidCredentials - whatever its diagnostic
   text says - has not answered: the loop goes on to the next replica *)
Theorem c07_other_code_no_verdict : forall c d, c <> 49%N -> verdict interp_code (RRefused c d) = None.
Proof. exact other_code_no_verdict. Qed.
Print Assumptions c07_other_code_no_verdict.

(* ---- still false (known finding C07:evicted-password-accepted:primary-outage-at-eviction):
   "rejection of the cached password evicts the hash" cannot be carried out while the primary
   store is unreachable; the hash comes back with the next copy *)
Theorem c07_evict_primary_outage_refuted :
  let s := prun 1 (removelast evict_outage_history) in
  nth 6 (map snd (prun_outs (pinit 1) evict_outage_history)) None = Some false /\
  snd (pstep s (Login 1 7)) = Some true.
Proof. exact evict_primary_outage_refuted. Qed.
Print Assumptions c07_evict_primary_outage_refuted.

(* ---- non-vacuity *)
Local Open Scope N_scope.
(* accept refreshes; the cache fills a directory outage; the wrong password does not; after a
   password change the old one is rejected and evicted, so the next outage refuses it *)
Example c07_history :
  map snd (prun_outs (pinit 2)
    [ChangePw 1 7; ChangePw 2 9; PTick 5000%Z; Login 1 7; Login 1 8; PSync;
     SetServer 0 SDown; Login 1 7; SetServer 1 SErroring; Login 1 7; Login 1 8; Login 2 9;
     SetServer 1 SUp; ChangePw 1 8; Login 1 7; SetServer 1 SDown; Login 1 7; Login 1 8]) =
  [None; None; None; Some true; Some false; None;
   None; Some true; None; Some true; Some false; Some false;
   None; None; Some false; None; Some false; Some false].
Proof. vm_compute. reflexivity. Qed.

(* two bind patterns, carol (3) lives under the second: the first pattern's refusal is final while a
   replica answers (with one pattern or two), and nothing was cached for the outage either *)
Example c07_patterns :
  map snd (prun_outs (pinit2 1 1) [SetHome 3 1%nat; ChangePw 3 3; ChangePw 1 7; Login 3 3; Login 1 7;
                                   SetServer 0 SDown; Login 3 3; Login 1 7]) =
  [None; None; None; Some false; Some true; None; Some false; Some true] /\
  map snd (prun_outs (pinit2 1 0) [SetHome 3 1%nat; ChangePw 3 3; Login 3 3]) = [None; None; Some false].
Proof. vm_compute. split; reflexivity. Qed.

(* the file edited between logins: in place with size and mtime kept, by rename with a fresh mtime,
   a user removed, a user added under a name typed in capitals *)
Example c07_backend_history :
  bouts (binit [(alice, 1%N)] 300 1000%Z)
    [BLogin alice 1; BChangePw (mkHow false 300 1000%Z) alice 2; BLogin alice 1; BLogin alice 2;
     BRemoveUser (mkHow true 240 2000%Z) alice; BLogin alice 2;
     BAddUser (mkHow false 300 900%Z) alice 3; BLogin [65; 76; 73; 67; 69]%N 3; BLogin alice 2] =
  [Some true; None; Some false; Some true; None; Some false; None; Some true; Some false].
Proof. vm_compute. reflexivity. Qed.

(* ------------------------------------------------------------------ logins that OVERLAP in time
   (Model/PwFlight.v): an interleaving of arrivals, backend answers and edits of the backend's table.
   Whatever happened before login id arrived, whatever happens between its arrival and its answer (other
   logins of the SAME user with other passwords arrive, are in flight, are answered; other users; edits),
   the verdict of login id is the backend's verdict on its OWN (normalised name, password) on the table
   the backend holds at the moment of that answer; and over any history the backend is asked exactly the
   logins' own pairs, one question per login. *)
From KM Require Model.PwFlight Proofs.PwFlight.

Theorem c07_verdict_per_password :
  (forall f0 pre mid id raw pw,
     forallb (fun o => negb (Proofs.PwFlight.starts_id id o)) pre = true ->
     forallb (fun o => negb (Proofs.PwFlight.mentions id o)) mid = true ->
     let h := pre ++ PwFlight.FStart id raw pw :: mid in
     snd (PwFlight.fstep (PwFlight.frun (PwFlight.finit f0) h) (PwFlight.FAnswer id)) =
       [(id, file_accepts (PwFlight.table_after f0 h) (normalise raw) pw)]) /\
  (forall f0 ops, PwFlight.f_asked (PwFlight.frun (PwFlight.finit f0) ops) = PwFlight.questions ops).
Proof. exact Proofs.PwFlight.verdict_per_password. Qed.

(* the same read off the collected outputs of a whole history (what the case files compare) *)
Theorem c07_verdict_in_outputs : forall f0 pre mid post id raw pw,
  forallb (fun o => negb (Proofs.PwFlight.starts_id id o)) pre = true ->
  forallb (fun o => negb (Proofs.PwFlight.mentions id o)) mid = true ->
  let h := pre ++ PwFlight.FStart id raw pw :: mid in
  PwFlight.fouts (PwFlight.finit f0) (h ++ PwFlight.FAnswer id :: post) =
    PwFlight.fouts (PwFlight.finit f0) h ++
    (id, file_accepts (PwFlight.table_after f0 h) (normalise raw) pw)
      :: PwFlight.fouts (PwFlight.frun (PwFlight.finit f0) (h ++ [PwFlight.FAnswer id])) post.
Proof. exact Proofs.PwFlight.verdict_in_outputs. Qed.

(* NOT the code: one question per USER NAME at a time (a login that arrives while a question about its
   user waits for the answer takes that answer).  The right password in flight: a wrong one is accepted
   and the backend is never asked about it; a wrong one in flight: the right one is refused. *)
Theorem c07_single_flight_refuted :
  let a := Proofs.PwFlight.fl_alice in
  let f := [(a, 1%N)] in
  let h1 := [PwFlight.FStart 0 a 1; PwFlight.FStart 1 a 2; PwFlight.FAnswer 1; PwFlight.FAnswer 0] in
  let h2 := [PwFlight.FStart 0 a 2; PwFlight.FStart 1 a 1; PwFlight.FAnswer 1; PwFlight.FAnswer 0] in
  PwFlight.gouts (PwFlight.ginit f) h1 = [(0%N, true); (1%N, true)] /\
  PwFlight.f_asked (PwFlight.g_base (PwFlight.grun (PwFlight.ginit f) h1)) = [(a, 1%N)] /\
  PwFlight.fouts (PwFlight.finit f) h1 = [(1%N, false); (0%N, true)] /\
  PwFlight.gouts (PwFlight.ginit f) h2 = [(0%N, false); (1%N, false)] /\
  PwFlight.fouts (PwFlight.finit f) h2 = [(1%N, true); (0%N, false)].
Proof. exact Proofs.PwFlight.single_flight_refuted. Qed.
