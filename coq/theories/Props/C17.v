(* C17 — post-login redirects never leave the keymaster origin.  Property theorems only. *)
From KM Require Import Base.Bytes Model.Dest Proofs.Dest.

(* For every byte string submitted as login_destination, and whether or not url.Parse accepts
   it, the Location that http.Redirect emits is same-origin under WHATWG resolution. *)
Theorem c17_location : forall (parse_fails : bool) (form_value : bs),
  same_origin (location parse_fails form_value) = true.
Proof. exact location_same_origin. Qed.
Print Assumptions c17_location.

(* anything the filter does not accept falls back to the profile page *)
Theorem c17_filter : forall s,
  get_login_destination s = profile \/
  (get_login_destination s = s /\ starts_slash s = true /\ second_slash s = false /\
   has is_bad s = false).
Proof. exact filter_contract. Qed.
Print Assumptions c17_filter.

(* the statement is false of the filter the tree had before the fix *)
Theorem c17_old_filter_refuted : exists pf s, same_origin (location_old pf s) = false.
Proof. exact location_old_refuted. Qed.
Print Assumptions c17_old_filter_refuted.

(* non-vacuity: a destination that is accepted and really redirected to *)
Example c17_accepts_something :
  location false [47;97;47;46;46;47;98;63;120;61;49] = [47;98;63;120;61;49].
Proof. vm_compute. reflexivity. Qed.
