(* C17 — post-login redirects never leave the keymaster origin.  Property theorems only. *)
From KM Require Import Base.Bytes Model.Dest Model.DestReq Model.DestExt Proofs.Dest Proofs.DestReq Proofs.DestExt.

(* For every byte string submitted as login_destination, and whether or not url.Parse accepts
   it, the Location that http.Redirect emits is same-origin under WHATWG resolution. *)
Theorem c17_location : forall (parse_fails : bool) (form_value : bs),
  same_origin (location parse_fails form_value) = true.
Proof. exact location_same_origin. Qed.
Print Assumptions c17_location.

(* anything the filter does not accept falls back to the profile page *)
Theorem c17_filter : forall s,
  get_login_destination s = profile \/
  (get_login_destination s = s /\ starts_slash s = true /\ second_slash s = false /\
   has is_bad s = false).
Proof. exact filter_contract. Qed.
Print Assumptions c17_filter.

(* the statement is false of the filter the tree had before the fix *)
Theorem c17_old_filter_refuted : exists pf s, same_origin (location_old pf s) = false.
Proof. exact location_old_refuted. Qed.
Print Assumptions c17_old_filter_refuted.

(* non-vacuity: a destination that is accepted and really redirected to *)
Example c17_accepts_something :
  location false [47;97;47;46;46;47;98;63;120;61;49] = [47;98;63;120;61;49].
Proof. vm_compute. reflexivity. Qed.

(* Federated login: whatever is posted to /auth/oauth2/login, the callback's Location is same-origin. *)
Theorem c17_federated : forall (parse_fails : bool) (form_value : bs),
  same_origin (federated_location parse_fails form_value) = true.
Proof. exact federated_same_origin. Qed.
Print Assumptions c17_federated.

(* An unauthenticated request for a protected page, for every request URL (origin-form or
   absolute-form request line), every configuration of oauth2.enabled / oauth2.force_redirect and
   whatever the browser posts back: the redirect that ends the provider round trip is same-origin. *)
Theorem c17_prompt_flow : forall (oauth2_enabled force_redirect parse_fails : bool) (q : prompt_req) (posted : bs),
  same_origin (prompt_flow_location oauth2_enabled force_redirect parse_fails q posted) = true.
Proof. exact prompt_flow_same_origin. Qed.
Print Assumptions c17_prompt_flow.

(* why the filter has to sit between the page destination and the parked value: parking
   r.URL.String() itself is refuted by an absolute-form request line *)
Theorem c17_unfiltered_prompt_refuted : exists q,
  same_origin (hex_escape (redirect_emit false true (callback_target (page_destination q)))) = false.
Proof. exact unfiltered_prompt_refuted. Qed.
Print Assumptions c17_unfiltered_prompt_refuted.

(* logoutHandler: Location "/?user=<name of the session>" is same-origin for every user name
   without control bytes (tab, CR, LF are dropped by the browser) ... *)
Theorem c17_logout : forall (parse_fails : bool) (user : bs),
  has is_ctl (strip user) = false -> same_origin (logout_location parse_fails user) = true.
Proof. exact logout_same_origin. Qed.
Print Assumptions c17_logout.
(* ... and the hypothesis is needed: the name is copied verbatim *)
Theorem c17_logout_ctl_refuted : exists pf user, same_origin (logout_location pf user) = false.
Proof. exact logout_ctl_refuted. Qed.
Print Assumptions c17_logout_ctl_refuted.

(* non-vacuity: an absolute URL naming the server's own host is not an accepted destination *)
Example c17_own_host_url_falls_back :
  get_login_destination [104;116;116;112;115;58;47;47;107;46;101;47;47;101;46;120;47;97] = profile.
Proof. vm_compute. reflexivity. Qed.
Example c17_logout_example : logout_location false [97;38;98] = [47;63;117;115;101;114;61;97;38;98].
Proof. vm_compute. reflexivity. Qed.

(* The request as a record of channels (Model/DestReq.v): the form/query value (option), cookies, headers, a
   non-form body, a path suffix.  Two requests that agree on the form/query channel get the same Location, from
   loginHandler / every second-factor success path and from the provider callback of a federated login alike ... *)
Theorem c17_other_channels_ignored : forall (parse_fails : bool) (r r' : login_req),
  lr_form r = lr_form r' ->
  req_location parse_fails r = req_location parse_fails r' /\
  req_federated_location parse_fails r = req_federated_location parse_fails r'.
Proof. exact req_location_channels. Qed.
Print Assumptions c17_other_channels_ignored.
(* ... that Location is same-origin whatever any channel carries ... *)
Theorem c17_channels_same_origin : forall (parse_fails : bool) (r : login_req),
  same_origin (req_location parse_fails r) = true /\
  same_origin (req_federated_location parse_fails r) = true.
Proof. exact req_location_same_origin. Qed.
Print Assumptions c17_channels_same_origin.
(* ... and without a form/query value it is the profile page, whatever the cookies, headers, body and path say *)
Theorem c17_no_form_value_profile : forall (parse_fails : bool) (r : login_req),
  form_value r = [] ->
  req_location parse_fails r = profile /\ req_federated_location parse_fails r = profile.
Proof. exact req_no_form_value. Qed.
Print Assumptions c17_no_form_value_profile.
(* a variant that falls back to a cookie named like the parameter, without the filter, is refuted *)
Theorem c17_cookie_fallback_refuted : exists pf authority r,
  lr_form r = None /\ same_origin (req_location_cookie_fallback pf authority r) = false.
Proof. exact cookie_fallback_refuted. Qed.
Print Assumptions c17_cookie_fallback_refuted.
(* non-vacuity: a request whose only destination-like content is a hostile cookie goes to the profile page *)
Example c17_hostile_cookie_example :
  req_location false {| lr_form := None; lr_cookies := [(param_name, [47;47;101;46;120;47])]; lr_headers := [];
                        lr_body := []; lr_path_suffix := [] |} = profile.
Proof. vm_compute. reflexivity. Qed.

(* ---- an external base URL as a configuration component (Model/DestExt.v) ----
   With a configured external URL the statement reads: the Location resolves to the page's own origin OR lies
   under the configured URL ([allowed]); the tree the model follows has no such setting, so its Location does
   not depend on the component ([forall ext]) ... *)
Theorem c17_external : forall (ext : option bs) (parse_fails : bool) (form_value : bs),
  allowed ext (location_ext ext parse_fails form_value) = true /\
  allowed ext (federated_location_ext ext parse_fails form_value) = true.
Proof. exact location_ext_allowed. Qed.
Print Assumptions c17_external.
Theorem c17_external_ignored : forall (ext ext' : option bs) (parse_fails : bool) (form_value : bs),
  location_ext ext parse_fails form_value = location_ext ext' parse_fails form_value /\
  federated_location_ext ext parse_fails form_value = federated_location_ext ext' parse_fails form_value.
Proof. exact location_ext_independent. Qed.
Print Assumptions c17_external_ignored.
(* ... without an external URL "allowed" IS "same origin" ... *)
Theorem c17_no_external : forall loc : bs, allowed None loc = same_origin loc.
Proof. exact allowed_none. Qed.
Print Assumptions c17_no_external.
(* ... and a resolution step behind the filter that drops the leading slash and resolves the rest against the
   external URL (RFC 3986: a reference with a scheme is returned as it is) is refuted: "/https://e.x/" *)
Theorem c17_strip_resolve_refuted : exists e pf s, allowed (Some e) (location_strip_resolve (Some e) pf s) = false.
Proof. exact strip_resolve_refuted. Qed.
Print Assumptions c17_strip_resolve_refuted.

(* Non-vacuity for the leading slash-run and scheme-in-first-segment families (c17_location / c17_federated
   quantify over ALL byte strings, so both families are covered by the existing statements). *)
(* "///e.x" -> profile page; same for "/\/e.x" and "////e.x/a" *)
Example c17_triple_slash_falls_back :
  location false [47;47;47;101;46;120] = profile /\ federated_location false [47;47;47;101;46;120] = profile /\
  location false [47;92;47;101;46;120] = profile /\ federated_location false [47;47;47;47;101;46;120;47;97] = profile.
Proof. vm_compute. repeat split; reflexivity. Qed.
(* the predicate itself refuses a Location "///e.x" and "/\\e.x" (what a sink without path cleaning would emit) *)
Example c17_slash_run_not_same_origin :
  same_origin [47;47;47;101;46;120] = false /\ same_origin [47;92;92;101;46;120] = false.
Proof. vm_compute. split; reflexivity. Qed.
(* "/https://e.x/" is accepted and redirected to as "/https:/e.x/" (path.Clean), same origin *)
Example c17_scheme_segment_stays :
  location false [47;104;116;116;112;115;58;47;47;101;46;120;47] = [47;104;116;116;112;115;58;47;101;46;120;47] /\
  same_origin (location false [47;104;116;116;112;115;58;47;47;101;46;120;47]) = true.
Proof. vm_compute. split; reflexivity. Qed.
(* under the external URL "https://sso.example.org/km": ".../km/profile/" is, "https://e.x/", ".../kmx" and
   ".../km/../x" are not *)
Example c17_under_ext_examples :
  under_ext ext_example (ext_example ++ profile) = true /\
  under_ext ext_example [104;116;116;112;115;58;47;47;101;46;120;47] = false /\
  under_ext ext_example (ext_example ++ [120]) = false /\
  under_ext ext_example (ext_example ++ [47;46;46;47;120]) = false.
Proof. vm_compute. repeat split; reflexivity. Qed.
