(* C11 — IP-restricted automation certificates work only from their netblocks. *)
From KM Require Import Base.Bytes Model.IPExt Model.IPExtConn Proofs.IPExt Proofs.IPExtConn.

(* the netblocks read back from a minted extension are the ones it was minted with:
   every prefix length 0..32, every (masked) address *)
Theorem c11_roundtrip : forall b, wf_block b = true -> decode (encode b) = Some b.
Proof. exact roundtrip. Qed.
Print Assumptions c11_roundtrip.

Theorem c11_extract_minted : forall blocks,
  forallb wf_block blocks = true -> extract (ext_of blocks) = Some blocks.
Proof. exact extract_minted. Qed.
Print Assumptions c11_extract_minted.

(* a minted certificate authenticates a peer iff the peer lies in one of its blocks *)
Theorem c11_iff : forall blocks p,
  forallb wf_block blocks = true ->
  (verify_ip (ext_of blocks) p = true <-> exists b, In b blocks /\ contains b p = true).
Proof. exact minted_iff. Qed.
Print Assumptions c11_iff.

(* only IPv4 / IPv4-mapped peers can ever match *)
Theorem c11_only_v4 : forall b p, contains b p = true -> exists a0 a1 a2 a3, p = V4 a0 a1 a2 a3.
Proof. exact contains_v4. Qed.
Print Assumptions c11_only_v4.

(* ANY extension content (arbitrary families, arbitrary bit strings, over-long ones included):
   the verdict is a boolean (the model is total: no panic branch), and acceptance is always
   witnessed by an IPv4 block literally present in the extension, of at most 32 bits, that
   contains the peer — corruption never widens access *)
Theorem c11_malformed_never_widens : forall ext p,
  verify_ip ext p = true ->
  exists blocks e b, In (ipv4_family, blocks) ext /\ In e blocks /\ decode e = Some b /\
                     plen b <= 32 /\ contains b p = true.
Proof. exact verify_ip_sound. Qed.
Print Assumptions c11_malformed_never_widens.

(* the octet-wise mask comparison of the code is the numeric statement "same leading plen bits":
   for byte-valued octets and every prefix length 0..32 *)
Theorem c11_numeric_prefix : forall b a0 a1 a2 a3,
  plen b <= 32 -> o0 b < 256 -> o1 b < 256 -> o2 b < 256 -> o3 b < 256 ->
  a0 < 256 -> a1 < 256 -> a2 < 256 -> a3 < 256 ->
  (contains b (V4 a0 a1 a2 a3) = true <->
   bnum b / 2 ^ (32 - plen b) = num a0 a1 a2 a3 / 2 ^ (32 - plen b)).
Proof. exact contains_numeric. Qed.
Print Assumptions c11_numeric_prefix.

(* refresh carries the blocks over unchanged *)
Theorem c11_refresh_same_blocks : forall blocks bl',
  forallb wf_block blocks = true ->
  extract (ext_of blocks) = Some bl' -> ext_of bl' = ext_of blocks.
Proof. exact refresh_same_blocks. Qed.
Print Assumptions c11_refresh_same_blocks.

(* the decoder as it was before the bounds fix: an over-long bit string panics *)
Theorem c11_old_decoder_panics : exists e, decode_old e = DPanic.
Proof. exact decode_old_panics. Qed.
Print Assumptions c11_old_decoder_panics.

Example c11_nonvacuous :
  wf_block (mk 10 1 4 0 22) = true /\ contains (mk 10 1 4 0 22) (V4 10 1 7 255) = true /\
  contains (mk 10 1 4 0 22) (V4 10 1 8 0) = false /\ encode (mk 10 1 4 0 22) = ([10; 1; 4], 22).
Proof. vm_compute. repeat split; reflexivity. Qed.

(* The refresh endpoint with everything a request can carry.  [f] is the submitted form (any names,
   any values - identity, requestor_netblock, target_netblock, duration, unknown parameters); [k] says
   whether the submitted public key is acceptable.  A refresh of a minted certificate succeeds only
   from inside its blocks and hands back exactly the identity and the blocks of the certificate
   presented; it succeeds from every peer inside; and this stays so over any number of refreshes:
   whatever certificate the chain ends with, it is the minted one and is accepted only from inside
   the blocks it was FIRST minted for. *)
Theorem c11_refresh_sound : forall cn blocks p f k id bl,
  forallb wf_block blocks = true ->
  refresh (minted cn blocks) p f k = Some (id, bl) ->
  id = cn /\ bl = blocks /\ k = true /\ exists b, In b blocks /\ contains b p = true.
Proof. exact refresh_sound. Qed.
Print Assumptions c11_refresh_sound.

Theorem c11_refresh_complete : forall cn blocks p f,
  forallb wf_block blocks = true ->
  (exists b, In b blocks /\ contains b p = true) ->
  refresh (minted cn blocks) p f true = Some (cn, blocks).
Proof. exact refresh_complete. Qed.
Print Assumptions c11_refresh_complete.

Theorem c11_refresh_chain_same : forall steps cn blocks c',
  forallb wf_block blocks = true ->
  refresh_chain (minted cn blocks) steps = Some c' -> c' = minted cn blocks.
Proof. exact refresh_chain_same. Qed.
Print Assumptions c11_refresh_chain_same.

Theorem c11_refresh_chain_reach : forall steps cn blocks c' q,
  forallb wf_block blocks = true ->
  refresh_chain (minted cn blocks) steps = Some c' ->
  verify_ip (rc_ext c') q = true -> exists b, In b blocks /\ contains b q = true.
Proof. exact refresh_chain_reach. Qed.
Print Assumptions c11_refresh_chain_reach.

(* a refresh that lets the request "narrow" the blocks with a test on base addresses only is not
   this function: it turns a /24 into a /8 *)
Theorem c11_narrowing_by_base_refuted :
  exists cn blocks p req id bl q,
    forallb wf_block blocks = true /\
    refresh_narrowing_by_base (minted cn blocks) p req = Some (id, bl) /\
    verify_ip (ext_of bl) q = true /\ verify_ip (ext_of blocks) q = false.
Proof. exact refresh_narrowing_by_base_refuted. Qed.
Print Assumptions c11_narrowing_by_base_refuted.

(* The request side: the minting endpoint receives CIDR texts; net.ParseCIDR masks the address
   ([canon]).  For every list of CIDRs a text can denote (byte-valued octets, prefix at most 32 -
   the address need NOT be the network address) the minted certificate authenticates a peer iff the
   peer lies in one of the CIDRs as written, i.e. iff its leading p bits are those of a.b.c.d; and
   the netblocks read back are the canonical forms.  This discharges the well-formedness hypothesis of
   c11_iff / c11_extract_minted for everything the endpoint can mint. *)
Theorem c11_canon_wf : forall b, cidr_ok b = true -> wf_block (canon b) = true.
Proof. exact canon_wf. Qed.
Print Assumptions c11_canon_wf.

Theorem c11_mint_parse_exact : forall cn req p,
  forallb cidr_ok req = true ->
  (verify_ip (rc_ext (mint_request cn req)) p = true <-> exists b, In b req /\ contains b p = true).
Proof. exact mint_parse_exact. Qed.
Print Assumptions c11_mint_parse_exact.

Theorem c11_mint_parse_numeric : forall cn req a0 a1 a2 a3,
  forallb cidr_ok req = true -> a0 < 256 -> a1 < 256 -> a2 < 256 -> a3 < 256 ->
  (verify_ip (rc_ext (mint_request cn req)) (V4 a0 a1 a2 a3) = true <->
   exists b, In b req /\ bnum b / 2 ^ (32 - plen b) = num a0 a1 a2 a3 / 2 ^ (32 - plen b)).
Proof. exact mint_parse_numeric. Qed.
Print Assumptions c11_mint_parse_numeric.

Theorem c11_mint_parse_readback : forall cn req,
  forallb cidr_ok req = true -> extract (rc_ext (mint_request cn req)) = Some (map canon req).
Proof. exact mint_parse_readback. Qed.
Print Assumptions c11_mint_parse_readback.

Example c11_canon_example :
  canon (mk 10 1 7 255 22) = mk 10 1 4 0 22 /\ cidr_ok (mk 10 1 7 255 22) = true /\ wf_block (mk 10 1 7 255 22) = false.
Proof. vm_compute. repeat split; reflexivity. Qed.

(* The connection a request arrives on.  [conn] is r.TLS as the handler sees it: does it carry a chain
   the TLS layer verified, and was the handshake a RESUMPTION of an earlier session (DidResume); [h] is
   everything the same server answered before (any requests: from inside, from outside, resumed or not,
   with this certificate or others).  For EVERY value of the flag and EVERY history the certificate
   authenticates iff the connection carries a verified chain and the TCP peer of THIS connection lies in
   one of its netblocks: there is no verdict that outlives the request it was computed for. *)
Theorem c11_iff_conn : forall h conn cn blocks p,
  forallb wf_block blocks = true ->
  (auth_ip h conn (minted cn blocks) p = true <->
   cs_verified conn = true /\ exists b, In b blocks /\ contains b p = true).
Proof. exact iff_conn. Qed.
Print Assumptions c11_iff_conn.

(* the same for everything the minting endpoint can mint from CIDR texts *)
Theorem c11_iff_conn_mint : forall h conn cn req p,
  forallb cidr_ok req = true ->
  (auth_ip h conn (mint_request cn req) p = true <->
   cs_verified conn = true /\ exists b, In b req /\ contains b p = true).
Proof. exact iff_conn_mint. Qed.
Print Assumptions c11_iff_conn_mint.

(* two requests with the same certificate from the same peer get the same verdict whatever their
   resumption flags and whatever each server has seen before *)
Theorem c11_resumed_history_independent : forall h h' conn conn' c p,
  cs_verified conn = cs_verified conn' -> auth_ip h conn c p = auth_ip h' conn' c p.
Proof. exact auth_ip_independent. Qed.
Print Assumptions c11_resumed_history_independent.

(* over a whole sequence of requests on one server (each seeing all earlier ones): a request that is let in
   presenting a minted certificate comes from inside that certificate's blocks on a verified connection *)
Theorem c11_sequence_sound : forall rs h r cn blocks,
  forallb wf_block blocks = true ->
  In (r, true) (combine rs (run h rs)) -> rq_cert r = minted cn blocks ->
  cs_verified (rq_conn r) = true /\ exists b, In b blocks /\ contains b (rq_peer r) = true.
Proof. exact run_sound. Qed.
Print Assumptions c11_sequence_sound.

Theorem c11_sequence_history_independent : forall rs h h', run h rs = run h' rs.
Proof. exact run_history_independent. Qed.
Print Assumptions c11_sequence_history_independent.

(* sharpness: a server that remembers "this certificate was found good" and consults that on resumed
   sessions is not this function - after one use from inside (full handshake) the certificate is let in
   from outside on a resumed session; without the earlier use it is not *)
Theorem c11_resume_cache_refuted :
  exists cn blocks inside outside full resumed,
    forallb wf_block blocks = true /\
    verify_ip (ext_of blocks) outside = false /\
    did_resume full = false /\ did_resume resumed = true /\
    let first := {| rq_conn := full; rq_peer := inside; rq_cert := minted cn blocks |} in
    auth_ip_cached [] full (minted cn blocks) inside = true /\
    auth_ip_cached [first] resumed (minted cn blocks) outside = true /\
    auth_ip [first] resumed (minted cn blocks) outside = false /\
    auth_ip_cached [] resumed (minted cn blocks) outside = false.
Proof. exact resume_cache_refuted. Qed.
Print Assumptions c11_resume_cache_refuted.
