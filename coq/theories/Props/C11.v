(* C11 — IP-restricted automation certificates work only from their netblocks. *)
From KM Require Import Base.Bytes Model.IPExt Proofs.IPExt.

(* the netblocks read back from a minted extension are the ones it was minted with:
   every prefix length 0..32, every (masked) address *)
Theorem c11_roundtrip : forall b, wf_block b = true -> decode (encode b) = Some b.
Proof. exact roundtrip. Qed.
Print Assumptions c11_roundtrip.

Theorem c11_extract_minted : forall blocks,
  forallb wf_block blocks = true -> extract (ext_of blocks) = Some blocks.
Proof. exact extract_minted. Qed.
Print Assumptions c11_extract_minted.

(* a minted certificate authenticates a peer iff the peer lies in one of its blocks *)
Theorem c11_iff : forall blocks p,
  forallb wf_block blocks = true ->
  (verify_ip (ext_of blocks) p = true <-> exists b, In b blocks /\ contains b p = true).
Proof. exact minted_iff. Qed.
Print Assumptions c11_iff.

(* only IPv4 / IPv4-mapped peers can ever match *)
Theorem c11_only_v4 : forall b p, contains b p = true -> exists a0 a1 a2 a3, p = V4 a0 a1 a2 a3.
Proof. exact contains_v4. Qed.
Print Assumptions c11_only_v4.

(* ANY extension content (arbitrary families, arbitrary bit strings, over-long ones included):
   the verdict is a boolean (the model is total: no panic branch), and acceptance is always
   witnessed by an IPv4 block literally present in the extension, of at most 32 bits, that
   contains the peer — corruption never widens access *)
Theorem c11_malformed_never_widens : forall ext p,
  verify_ip ext p = true ->
  exists blocks e b, In (ipv4_family, blocks) ext /\ In e blocks /\ decode e = Some b /\
                     plen b <= 32 /\ contains b p = true.
Proof. exact verify_ip_sound. Qed.
Print Assumptions c11_malformed_never_widens.

(* the octet-wise mask comparison of the code is the numeric statement "same leading plen bits":
   for byte-valued octets and every prefix length 0..32 *)
Theorem c11_numeric_prefix : forall b a0 a1 a2 a3,
  plen b <= 32 -> o0 b < 256 -> o1 b < 256 -> o2 b < 256 -> o3 b < 256 ->
  a0 < 256 -> a1 < 256 -> a2 < 256 -> a3 < 256 ->
  (contains b (V4 a0 a1 a2 a3) = true <->
   bnum b / 2 ^ (32 - plen b) = num a0 a1 a2 a3 / 2 ^ (32 - plen b)).
Proof. exact contains_numeric. Qed.
Print Assumptions c11_numeric_prefix.

(* refresh carries the blocks over unchanged *)
Theorem c11_refresh_same_blocks : forall blocks bl',
  forallb wf_block blocks = true ->
  extract (ext_of blocks) = Some bl' -> ext_of bl' = ext_of blocks.
Proof. exact refresh_same_blocks. Qed.
Print Assumptions c11_refresh_same_blocks.

(* the decoder as it was before the bounds fix: an over-long bit string panics *)
Theorem c11_old_decoder_panics : exists e, decode_old e = DPanic.
Proof. exact decode_old_panics. Qed.
Print Assumptions c11_old_decoder_panics.

Example c11_nonvacuous :
  wf_block (mk 10 1 4 0 22) = true /\ contains (mk 10 1 4 0 22) (V4 10 1 7 255) = true /\
  contains (mk 10 1 4 0 22) (V4 10 1 8 0) = false /\ encode (mk 10 1 4 0 22) = ([10; 1; 4], 22).
Proof. vm_compute. repeat split; reflexivity. Qed.

(* The refresh endpoint with everything a request can carry.  [f] is the submitted form (any names,
   any values - identity, requestor_netblock, target_netblock, duration, unknown parameters); [k] says
   whether the submitted public key is acceptable.  A refresh of a minted certificate succeeds only
   from inside its blocks and hands back exactly the identity and the blocks of the certificate
   presented; it succeeds from every peer inside; and this stays so over any number of refreshes:
   whatever certificate the chain ends with, it is the minted one and is accepted only from inside
   the blocks it was FIRST minted for. *)
Theorem c11_refresh_sound : forall cn blocks p f k id bl,
  forallb wf_block blocks = true ->
  refresh (minted cn blocks) p f k = Some (id, bl) ->
  id = cn /\ bl = blocks /\ k = true /\ exists b, In b blocks /\ contains b p = true.
Proof. exact refresh_sound. Qed.
Print Assumptions c11_refresh_sound.

Theorem c11_refresh_complete : forall cn blocks p f,
  forallb wf_block blocks = true ->
  (exists b, In b blocks /\ contains b p = true) ->
  refresh (minted cn blocks) p f true = Some (cn, blocks).
Proof. exact refresh_complete. Qed.
Print Assumptions c11_refresh_complete.

Theorem c11_refresh_chain_same : forall steps cn blocks c',
  forallb wf_block blocks = true ->
  refresh_chain (minted cn blocks) steps = Some c' -> c' = minted cn blocks.
Proof. exact refresh_chain_same. Qed.
Print Assumptions c11_refresh_chain_same.

Theorem c11_refresh_chain_reach : forall steps cn blocks c' q,
  forallb wf_block blocks = true ->
  refresh_chain (minted cn blocks) steps = Some c' ->
  verify_ip (rc_ext c') q = true -> exists b, In b blocks /\ contains b q = true.
Proof. exact refresh_chain_reach. Qed.
Print Assumptions c11_refresh_chain_reach.

(* a refresh that lets the request "narrow" the blocks with a test on base addresses only is not
   this function: it turns a /24 into a /8 *)
Theorem c11_narrowing_by_base_refuted :
  exists cn blocks p req id bl q,
    forallb wf_block blocks = true /\
    refresh_narrowing_by_base (minted cn blocks) p req = Some (id, bl) /\
    verify_ip (ext_of bl) q = true /\ verify_ip (ext_of blocks) q = false.
Proof. exact refresh_narrowing_by_base_refuted. Qed.
Print Assumptions c11_narrowing_by_base_refuted.

(* The request side: the minting endpoint receives CIDR texts; net.ParseCIDR masks the address
   ([canon]).  For every list of CIDRs a text can denote (byte-valued octets, prefix at most 32 -
   the address need NOT be the network address) the minted certificate authenticates a peer iff the
   peer lies in one of the CIDRs as written, i.e. iff its leading p bits are those of a.b.c.d; and
   the netblocks read back are the canonical forms.  This discharges the well-formedness hypothesis of
   c11_iff / c11_extract_minted for everything the endpoint can mint. *)
Theorem c11_canon_wf : forall b, cidr_ok b = true -> wf_block (canon b) = true.
Proof. exact canon_wf. Qed.
Print Assumptions c11_canon_wf.

Theorem c11_mint_parse_exact : forall cn req p,
  forallb cidr_ok req = true ->
  (verify_ip (rc_ext (mint_request cn req)) p = true <-> exists b, In b req /\ contains b p = true).
Proof. exact mint_parse_exact. Qed.
Print Assumptions c11_mint_parse_exact.

Theorem c11_mint_parse_numeric : forall cn req a0 a1 a2 a3,
  forallb cidr_ok req = true -> a0 < 256 -> a1 < 256 -> a2 < 256 -> a3 < 256 ->
  (verify_ip (rc_ext (mint_request cn req)) (V4 a0 a1 a2 a3) = true <->
   exists b, In b req /\ bnum b / 2 ^ (32 - plen b) = num a0 a1 a2 a3 / 2 ^ (32 - plen b)).
Proof. exact mint_parse_numeric. Qed.
Print Assumptions c11_mint_parse_numeric.

Theorem c11_mint_parse_readback : forall cn req,
  forallb cidr_ok req = true -> extract (rc_ext (mint_request cn req)) = Some (map canon req).
Proof. exact mint_parse_readback. Qed.
Print Assumptions c11_mint_parse_readback.

Example c11_canon_example :
  canon (mk 10 1 7 255 22) = mk 10 1 4 0 22 /\ cidr_ok (mk 10 1 7 255 22) = true /\ wf_block (mk 10 1 7 255 22) = false.
Proof. vm_compute. repeat split; reflexivity. Qed.
