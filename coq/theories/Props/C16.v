(* C16 — concurrent requests are race-free and do not undo or double-spend. *)
From KM Require Import Base.Bytes Model.Conc Proofs.Conc.
Open Scope N_scope.

(* Lock discipline gives freedom from data races on the shared maps: for ANY pool of programs in
   which every map access sits inside the critical section of the map's mutex, under ANY schedule,
   no two different threads are ever about to access the same map with one of them writing.
   (Obl_C16 proves over the regenerated access table that the code has that shape.) *)
Theorem c16_lock_discipline : forall (d : db) (s : maps) (progs : list (list act)) (sched : list nat),
  Forall (fun p => disciplined p = true) progs -> ~ data_race (run (init_world d s progs) sched).
Proof. exact lock_discipline. Qed.

(* every modelled handler of the current tree has that shape *)
Theorem c16_handlers_disciplined : forall h,
  (forall u v, h <> HU2fSignRespOld u v) -> h <> HUnsealSplit -> h <> HReadKeys -> disciplined (handler h) = true.
Proof. exact handlers_disciplined. Qed.

(* ... and u2fSignResponse as it was (delete(state.localAuthData, ..) after the Unlock) did race *)
Theorem c16_old_unlocked_delete_refuted :
  exists sched, data_race (run (init_world ex_db [(M_localAuth, 1, 3)] [handler (HU2fSignRespOld 1 3); handler (HU2fSignReq 1 5)]) sched).
Proof. exact old_unlocked_delete. Qed.

(* No torn profile: under any schedule of any programs a loaded profile is one of the initial rows
   or exactly a value some Save wrote. *)
Theorem c16_no_torn_profile : forall d0 s progs sched i t u p,
  let w := run (init_world d0 s progs) sched in
  nth_error (threads w) i = Some t -> reg t = Some (u, Some p) ->
  In (u, p) d0 \/ In (u, p) (saved w).
Proof. exact no_torn_profile. Qed.

(* The TOTP spacing test-and-set: any number of attempts for one user whose clock readings lie
   within one spacing window, any schedule, any earlier limiter state: at most one gets through. *)
Theorem c16_spacing_atomic : forall (u : N) (nows : list N),
  (forall a b, In a nows -> In b nows -> a < b + 2) ->
  forall d s sched i j ti tj,
  let w := run (init_world d s (map (fun now => handler (HSpacing u now)) nows)) sched in
  nth_error (threads w) i = Some ti -> nth_error (threads w) j = Some tj ->
  resp ti = Some 200 -> resp tj = Some 200 -> i = j.
Proof. exact spacing_atomic. Qed.

(* the schedules the harness replays (one entry = from one parking point to the next) are schedules of `run` *)
Theorem c16_segments_are_runs : forall w sched, exists s, run_seg w sched = run w s.
Proof. exact segments_are_runs. Qed.

(* The full statement — every schedule's answers and final profiles equal those of some sequential
   order — is FALSE of load-modify-save without a version check. *)
Theorem c16_lost_update_refuted :
  exists sched, let w := run lost_w0 sched in
    map resp (threads w) = [Some 200; Some 200] /\
    get 1 (store w) = Some {| toks := [{| t_idx := 1; t_enabled := true; t_name := 21 |}; tk 2 12]; botp := None; last_totp := 0 |} /\
    serializable_outcome [1; 2] lost_w0 w = false.
Proof. exact lost_update. Qed.

Theorem c16_double_spend_refuted :
  exists sched, let w := run spend_w0 sched in
    map resp (threads w) = [Some 200; Some 200] /\
    serializable_outcome [1; 2] spend_w0 w = false /\
    forallb (fun o => let '(r, _, _) := o in negb (list_eqb oN_eq r [Some 200; Some 200])) (serial_outcomes [1; 2] spend_w0) = true.
Proof. exact double_spend. Qed.

Theorem c16_delete_undone_refuted :
  exists sched, let w := run undo_w0 sched in
    map resp (threads w) = [Some 200; Some 200] /\ is_some (get 1 (store w)) = true /\
    serializable_outcome [1; 2] undo_w0 w = false.
Proof. exact delete_undone. Qed.
