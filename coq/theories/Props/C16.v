(* C16 — concurrent requests are race-free and do not undo or double-spend. *)
From KM Require Import Base.Bytes Model.Conc Proofs.Conc Proofs.ConcExplore Proofs.ConcAnswer Proofs.ConcProgress.
Open Scope N_scope.

(* Lock discipline gives freedom from data races on the shared maps: for ANY pool of programs in
   which every map access sits inside the critical section of the map's mutex, under ANY schedule,
   no two different threads are ever about to access the same map with one of them writing.
   (Obl_C16 proves over the regenerated access table that the code has that shape.) *)
Theorem c16_lock_discipline : forall (d : db) (s : maps) (progs : list (list act)) (sched : list nat),
  Forall (fun p => disciplined p = true) progs -> ~ data_race (run (init_world d s progs) sched).
Proof. exact lock_discipline. Qed.

(* every modelled handler of the current tree has that shape *)
Theorem c16_handlers_disciplined : forall h,
  (forall u v, h <> HU2fSignRespOld u v) -> h <> HUnsealSplit -> h <> HReadKeys -> disciplined (handler h) = true.
Proof. exact handlers_disciplined. Qed.

(* ... and u2fSignResponse as it was (delete(state.localAuthData, ..) after the Unlock) did race *)
Theorem c16_old_unlocked_delete_refuted :
  exists sched, data_race (run (init_world ex_db [(M_localAuth, 1, 3)] [handler (HU2fSignRespOld 1 3); handler (HU2fSignReq 1 5)]) sched).
Proof. exact old_unlocked_delete. Qed.

(* No torn profile: under any schedule of any programs a loaded profile is one of the initial rows
   or exactly a value some Save wrote. *)
Theorem c16_no_torn_profile : forall d0 s progs sched i t u p,
  let w := run (init_world d0 s progs) sched in
  nth_error (threads w) i = Some t -> reg t = Some (u, Some p) ->
  In (u, p) d0 \/ In (u, p) (saved w).
Proof. exact no_torn_profile. Qed.

(* The TOTP spacing test-and-set: any number of attempts for one user whose clock readings lie
   within one spacing window, any schedule, any earlier limiter state: at most one gets through. *)
Theorem c16_spacing_atomic : forall (u : N) (nows : list N),
  (forall a b, In a nows -> In b nows -> a < b + 2) ->
  forall d s sched i j ti tj,
  let w := run (init_world d s (map (fun now => handler (HSpacing u now)) nows)) sched in
  nth_error (threads w) i = Some ti -> nth_error (threads w) j = Some tj ->
  resp ti = Some 200 -> resp tj = Some 200 -> i = j.
Proof. exact spacing_atomic. Qed.

(* the schedules the harness replays (one entry = from one parking point to the next) are schedules of `run` *)
Theorem c16_segments_are_runs : forall w sched, exists s, run_seg w sched = run w s.
Proof. exact segments_are_runs. Qed.

(* The full statement — every schedule's answers and final profiles equal those of some sequential
   order — is FALSE of load-modify-save without a version check. *)
Theorem c16_lost_update_refuted :
  exists sched, let w := run lost_w0 sched in
    map resp (threads w) = [Some 200; Some 200] /\
    get 1 (store w) = Some {| toks := [{| t_idx := 1; t_enabled := true; t_name := 21 |}; tk 2 12]; botp := None; last_totp := 0 |} /\
    serializable_outcome [1; 2] lost_w0 w = false.
Proof. exact lost_update. Qed.

Theorem c16_double_spend_refuted :
  exists sched, let w := run spend_w0 sched in
    map resp (threads w) = [Some 200; Some 200] /\
    serializable_outcome [1; 2] spend_w0 w = false /\
    forallb (fun o => let '(r, _, _) := o in negb (list_eqb oN_eq r [Some 200; Some 200])) (serial_outcomes [1; 2] spend_w0) = true.
Proof. exact double_spend. Qed.

Theorem c16_delete_undone_refuted :
  exists sched, let w := run undo_w0 sched in
    map resp (threads w) = [Some 200; Some 200] /\ is_some (get 1 (store w)) = true /\
    serializable_outcome [1; 2] undo_w0 w = false.
Proof. exact delete_undone. Qed.

(* The unseal request among other requests.  The signer and the list of published keys are written
   by the unseal path while requests are being served; handlers test "unsealed?" under the mutex and
   then read the key list WITHOUT it.  That is safe because the list is completed before the mutex
   is released: for two unseal requests and a key-serving request, under ANY schedule, there is no
   data race, no request is answered as unsealed with an incomplete key set (299), and at most one
   unseal request is acknowledged.  (All schedules: the reachable worlds form a finite set closed
   under `step`, Proofs/ConcExplore.v.) *)
Theorem c16_publication_safe : forall sched,
  let w := run (init_world [] [] [handler HUnseal; handler HUnseal; handler HReadKeys]) sched in
  ~ data_race w /\
  (forall i t, nth_error (threads w) i = Some t -> resp t <> Some 299) /\
  ~ (resp_at w 0 = Some 200 /\ resp_at w 1 = Some 200).
Proof. exact publication_safe. Qed.

(* ... and it is what breaks when the key list is appended after the mutex was released *)
Theorem c16_split_unseal_refuted :
  (exists sched, data_race (run (init_world [] [] [handler HUnsealSplit; handler HReadKeys]) sched)) /\
  (exists sched, resp_at (run (init_world [] [] [handler HUnsealSplit; handler HReadKeys]) sched) 1 = Some 299).
Proof. split; [exact split_unseal_races | exact split_unseal_no_keys]. Qed.

(* One signed U2F answer presented twice: at the granularity the statement names (a request is
   pre-empted at storage operations only) it is honoured at most once under ANY schedule — lookup,
   verification and deletion of the pending challenge contain no storage operation. *)
Theorem c16_u2f_once_at_storage_granularity : forall sched,
  let w := run_sseg (init_world ex_db [(M_localAuth, 1, 3)] [handler (HU2fSignResp 1 3); handler (HU2fSignResp 1 3)]) sched in
  ~ (resp_at w 0 = Some 200 /\ resp_at w 1 = Some 200).
Proof. exact u2f_once_at_storage_granularity. Qed.

(* FALSE when a request may be pre-empted between its two critical sections (known finding) *)
Theorem c16_u2f_double_spend_refuted : exists sched,
  map resp (threads (run_seg (init_world ex_db [(M_localAuth, 1, 3)] [handler (HU2fSignResp 1 3); handler (HU2fSignResp 1 3)]) sched)) = [Some 200; Some 200] /\
  forallb (fun o => let '(r, _, _) := o in negb (list_eqb oN_eq r [Some 200; Some 200]))
          (serial_outcomes [1; 2] (init_world ex_db [(M_localAuth, 1, 3)] [handler (HU2fSignResp 1 3); handler (HU2fSignResp 1 3)])) = true.
Proof. exact u2f_double_spend. Qed.

Theorem c16_ssegments_are_runs : forall w sched, exists s, run_sseg w sched = run w s.
Proof. exact ssegments_are_runs. Qed.

(* ---- the answer ends the request ------------------------------------------------------------------
   A request has been ANSWERED when no Respond is left in its program.  For any pool of programs in which
   every storage write (Save, Del) still has the Respond ahead of it (`wa_ok`), any initial state and ANY
   schedule: the next action of an answered request — at whatever later moment it is scheduled — changes
   neither the stored profiles nor the log of saves.  So a request that is started after that answer can
   never be undone by the answered one.  (The harness holds storage operations of the real handlers for
   longer than every time-out of the storage layer and watches for writes after the answer:
   C16:write-after-answer:<handler>.) *)
Theorem c16_no_write_after_answer : forall d s progs sched i t,
  Forall (fun p => wa_ok p = true) progs ->
  let w := run (init_world d s progs) sched in
  nth_error (threads w) i = Some t -> has_respond (prog t) = false ->
  store (step w i) = store w /\ saved (step w i) = saved w.
Proof. exact no_write_after_answer. Qed.

(* every modelled request handler has that shape, and its list of actions ends with the Respond *)
Theorem c16_respond_is_last : forall h, wa_ok (handler h) = true /\ ends_in_respond (handler h) = true.
Proof. exact respond_is_last. Qed.

(* FALSE for a handler that hands its profile write to a goroutine and answers when a time-out fires
   first (NOT the code): request 0 is answered 500; THEN a disable of the same token runs from start to its
   acknowledgement; THEN the abandoned write lands: the token is enabled again — no sequential order gives that *)
Theorem c16_abandoned_write_refuted :
  wa_ok (tok_handler_abandoned 1 1 (fun p => p)) = false /\
  let w1 := run abandoned_w0 [0; 0; 0]%nat in
  let w2 := run w1 [1; 1; 1; 1]%nat in
  let w3 := run w2 [0]%nat in
  (resp_at w1 0 = Some 500 /\ resp_at w1 1 = None /\
   match nth_error (threads w1) 0 with Some t => has_respond (prog t) | None => true end = false) /\
  (resp_at w2 1 = Some 200 /\
   get 1 (store w2) = Some {| toks := [{| t_idx := 1; t_enabled := false; t_name := 11 |}; tk 2 12]; botp := None; last_totp := 0 |}) /\
  get 1 (store w3) = Some {| toks := [{| t_idx := 1; t_enabled := true; t_name := 21 |}; tk 2 12]; botp := None; last_totp := 0 |} /\
  serializable_outcome [1; 2] abandoned_w0 w3 = false.
Proof. exact abandoned_write. Qed.

(* ---- the federated login among the requests ---------------------------------------------------------
   login start, provider callback and one pass of the periodic sweep are disciplined programs (so
   c16_lock_discipline applies to any pool of them, under any schedule) ... *)
Theorem c16_oauth_pool_disciplined : forall k st k' st' ks,
  Forall (fun p => disciplined p = true)
         [handler (HOauthBegin k st); handler (HOauthCallback k' st'); sweep (map (fun x => (M_pendingOauth2, x)) ks)].
Proof. exact oauth_pool_disciplined. Qed.

(* ... and what a critical section on a private COPY of the mutex (method with a value receiver) does: not
   disciplined; it races with a login start on the shared map; and a copy taken while the mutex was held
   is born locked — the request never gets any further, however often it is scheduled *)
Theorem c16_lock_copy_refuted :
  (forall k st, disciplined (oauth_callback_copied k st) = false) /\
  (exists sched, data_race (run copy_w0 sched)) /\
  (forall n, run copy_born_locked (repeat 0%nat n) = copy_born_locked).
Proof. exact lock_copy. Qed.

(* ---- nobody waits for ever --------------------------------------------------------------------------
   Any pool of disciplined programs, any initial state, ANY schedule: whenever a request stands at `Lock l`
   and finds the mutex taken, the owner is ANOTHER request of the pool that is inside its critical section:
   it holds l, its next action is not a Lock (it waits for nobody: no nesting), and the Unlock l is still
   ahead of it.  (c16_lock_copy_refuted shows the opposite for a lock that is a private copy; the harness
   holds each mutex of the real state as "the other request" and expects every request to be served after
   the release: C16:hang:<handler>.) *)
Theorem c16_blocked_only_by_running_request : forall d s progs sched i t l r,
  Forall (fun p => disciplined p = true) progs ->
  let w := run (init_world d s progs) sched in
  nth_error (threads w) i = Some t -> prog t = Lock l :: r ->
  forall j, owner_of l (owner w) = Some j ->
  j <> i /\ exists tj, nth_error (threads w) j = Some tj /\ held tj = Some l /\
    In (Unlock l) (prog tj) /\ (forall l' r', prog tj <> Lock l' :: r').
Proof. exact blocked_by_runnable. Qed.

(* ---- a one-time value is not honoured again after an overlapping pair has been answered ---------------
   Three requests of one user: request 0 = a U2F sign request (a new challenge is stored), request 1 = the
   sign response that answers the pending challenge, request 2 = the SAME signed answer presented again.
   Requests 0 and 1 overlap under ANY schedule at single-action granularity (every interleaving of their
   actions, critical sections included); request 2 is given any number of steps only after both have been
   answered.  Then the two presentations are never both honoured.  (All schedules: the worlds reachable
   without scheduling request 2 form a finite set closed under `step`; the continuation of request 2 is
   computed on every member, Proofs/ConcReplay.v.) *)
From KM Require Import Proofs.ConcReplay.

Theorem c16_u2f_no_replay_after_overlap : forall (s1 : list nat) (n : nat),
  Forall (fun i => (i < 2)%nat) s1 ->
  let w1 := run (init_world ex_db [(M_localAuth, 1, 3)]
                   [handler (HU2fSignReq 1 4); handler (HU2fSignResp 1 3); handler (HU2fSignResp 1 3)]) s1 in
  answered w1 0 = true -> answered w1 1 = true ->
  let w2 := run w1 (repeat 2%nat n) in
  ~ (resp_at w2 1 = Some 200 /\ resp_at w2 2 = Some 200).
Proof. exact u2f_no_replay_after_overlap. Qed.

(* the same for the schedules the harness replays (one entry = from one parking point — storage operation
   or Lock — to the next) *)
Theorem c16_u2f_no_replay_after_overlap_seg : forall (s1 : list nat) (n : nat),
  Forall (fun i => (i < 2)%nat) s1 ->
  let w1 := run_seg (init_world ex_db [(M_localAuth, 1, 3)]
                       [handler (HU2fSignReq 1 4); handler (HU2fSignResp 1 3); handler (HU2fSignResp 1 3)]) s1 in
  answered w1 0 = true -> answered w1 1 = true ->
  let w2 := run w1 (repeat 2%nat n) in
  ~ (resp_at w2 1 = Some 200 /\ resp_at w2 2 = Some 200).
Proof. exact u2f_no_replay_after_overlap_seg. Qed.

(* ... in the form of one replayed schedule: entries of requests 0 and 1, then entries of request 2 only *)
Theorem c16_u2f_no_replay_replayed_schedule : forall (s1 : list nat) (k : nat),
  Forall (fun i => (i < 2)%nat) s1 ->
  let w0 := init_world ex_db [(M_localAuth, 1, 3)]
              [handler (HU2fSignReq 1 4); handler (HU2fSignResp 1 3); handler (HU2fSignResp 1 3)] in
  let w1 := run_seg w0 s1 in
  answered w1 0 = true -> answered w1 1 = true ->
  let w2 := run_seg w0 (s1 ++ repeat 2%nat k) in
  ~ (resp_at w2 1 = Some 200 /\ resp_at w2 2 = Some 200).
Proof. exact u2f_no_replay_replayed_schedule. Qed.

(* FALSE for a sign request that hands the pending challenge out again, looked up in one critical section
   and stored in a second one (NOT the code): the lookup finds the pending challenge, the sign response
   verifies the answer and deletes the challenge, the request writes the consumed challenge back; the same
   answer presented after both were answered is honoured again — at single-action granularity and for a
   schedule the harness can replay — while in NO sequential order of the three are both presentations honoured *)
Theorem c16_u2f_reissue_replay_refuted :
  let w0 := init_world ex_db [(M_localAuth, 1, 3)]
              [u2f_signreq_reissue 1 4; handler (HU2fSignResp 1 3); handler (HU2fSignResp 1 3)] in
  (exists s1 n, Forall (fun i => (i < 2)%nat) s1 /\
     let w1 := run w0 s1 in
     answered w1 0 = true /\ answered w1 1 = true /\ resp_at w1 2 = None /\
     let w2 := run w1 (repeat 2%nat n) in
     resp_at w2 1 = Some 200 /\ resp_at w2 2 = Some 200) /\
  (exists s1 s2, Forall (fun i => (i < 2)%nat) s1 /\ Forall (fun i => i = 2%nat) s2 /\
     let w1 := run_seg w0 s1 in
     answered w1 0 = true /\ answered w1 1 = true /\ resp_at w1 2 = None /\
     let w2 := fold_left seg s2 w1 in
     resp_at w2 1 = Some 200 /\ resp_at w2 2 = Some 200) /\
  forallb (fun o => let '(r, _, _) := o in negb (oN_eq (nth 1 r None) (Some 200) && oN_eq (nth 2 r None) (Some 200)))
          (serial_outcomes [1; 2] w0) = true.
Proof. exact reissue_replay. Qed.

(* that variant respects the lock discipline (c16_lock_discipline applies to it: no data race) — what it
   breaks is atomicity of lookup-and-store ... *)
Theorem c16_reissue_disciplined : forall u chal, disciplined (u2f_signreq_reissue u chal) = true.
Proof. exact reissue_disciplined. Qed.

(* ... and it cannot be told from the code when requests are pre-empted at storage operations only: there is
   no storage operation between the lookup and the store *)
Theorem c16_reissue_invisible_at_storage_granularity : forall (s1 : list nat) (n : nat),
  Forall (fun i => (i < 2)%nat) s1 ->
  let w1 := run_sseg (init_world ex_db [(M_localAuth, 1, 3)]
                        [u2f_signreq_reissue 1 4; handler (HU2fSignResp 1 3); handler (HU2fSignResp 1 3)]) s1 in
  answered w1 0 = true -> answered w1 1 = true ->
  let w2 := run w1 (repeat 2%nat n) in
  ~ (resp_at w2 1 = Some 200 /\ resp_at w2 2 = Some 200).
Proof. exact reissue_invisible_at_storage_granularity. Qed.

(* the other one-time values, same shape: a bootstrap OTP presented while a new one is generated for the
   user, then presented again; an OAuth2 state parameter whose callback runs while another login is parked,
   then the callback again *)
Theorem c16_boot_no_replay_after_overlap : forall (s1 : list nat) (n : nat),
  Forall (fun i => (i < 2)%nat) s1 ->
  let w1 := run (init_world ex_db [] [handler (HGenBoot 2 9); handler (HBootAuth 2 7); handler (HBootAuth 2 7)]) s1 in
  answered w1 0 = true -> answered w1 1 = true ->
  let w2 := run w1 (repeat 2%nat n) in
  ~ (resp_at w2 1 = Some 200 /\ resp_at w2 2 = Some 200).
Proof. exact boot_no_replay_after_overlap. Qed.

Theorem c16_oauth_no_replay_after_overlap : forall (s1 : list nat) (n : nat),
  Forall (fun i => (i < 2)%nat) s1 ->
  let w1 := run (init_world [] [(M_pendingOauth2, 9, 5)]
                   [handler (HOauthBegin 8 6); handler (HOauthCallback 9 5); handler (HOauthCallback 9 5)]) s1 in
  answered w1 0 = true -> answered w1 1 = true ->
  let w2 := run w1 (repeat 2%nat n) in
  ~ (resp_at w2 1 = Some 200 /\ resp_at w2 2 = Some 200).
Proof. exact oauth_no_replay_after_overlap. Qed.

(* ------------------------------------------------------------------ readers (round 4) *)
From KM Require Import Proofs.ConcReader.

(* A load returns the value the store holds at one instant between its call and its return - the instant of its
   single step - and touches nothing else: store, maps, mutexes, the log of saves and every other request are
   unchanged; of the loading request only the register (and the program counter) changes. *)
Theorem c16_load_linearizable : forall w i t u p,
  nth_error (threads w) i = Some t -> prog t = Load u :: p ->
  let w' := step w i in
  store w' = store w /\ mem w' = mem w /\ owner w' = owner w /\ saved w' = saved w /\
  (forall j, j <> i -> nth_error (threads w') j = nth_error (threads w) j) /\
  exists t', nth_error (threads w') i = Some t' /\ reg t' = Some (u, get u (store w)) /\ prog t' = p /\
             resp t' = resp t /\ held t' = held t /\ mreg t' = mreg t /\ alive t' = alive t.
Proof. exact load_linearizable. Qed.

(* Nothing of a pure reader outlives it: for ANY pool, ANY initial world and ANY schedule, if request r only
   loads, tests and answers (`reader`), then the store, the maps, the mutex table, the log of saves and the
   state of every other request (its answer included) are exactly those of the same schedule with r's steps
   erased.  In particular a reader cannot undo an acknowledged write, and no later request sees anything of it. *)
Theorem c16_reader_leaves_no_trace : forall w r t s,
  nth_error (threads w) r = Some t -> reader (prog t) = true -> held t = None ->
  let w1 := run w s in let w2 := run w (erase r s) in
  store w1 = store w2 /\ mem w1 = mem w2 /\ owner w1 = owner w2 /\ saved w1 = saved w2 /\
  forall j, j <> r -> nth_error (threads w1) j = nth_error (threads w2) j.
Proof. exact reader_leaves_no_trace. Qed.

(* the profile page and the password login (for a user with tokens) are such readers *)
Theorem c16_view_login_are_readers : forall u,
  reader (handler (HView u)) = true /\ reader (handler (HLogin u)) = true.
Proof. exact view_login_readers. Qed.

(* FALSE of a reader that keeps the fetched row where later requests answer from (NOT the code): the reader
   fetches, a disable of token 1 runs from start to acknowledgement, the reader returns and plants the row it
   fetched; a later rename of token 2 is acknowledged - and token 1 is enabled again; no sequential order of the
   three gives this.  Such a request is not a `reader`. *)
Theorem c16_planting_reader_refuted :
  exists sched, let w := run plant_w0 sched in
    map resp (threads w) = [Some 200; Some 200; Some 200] /\
    get 1 (store w) = Some {| toks := [tk 1 11; {| t_idx := 2; t_enabled := true; t_name := 22 |}]; botp := None; last_totp := 0 |} /\
    serializable_outcome [1; 2] plant_w0 w = false /\
    reader (view_planting 1) = false.
Proof. exact planting_reader_undoes_disable. Qed.
