(* C10 — only strong public keys are certified (the panic-freedom half is tested, not proved,
   except for keymaster's own address-extension decoder, see C11). *)
From KM Require Import Base.Bytes Model.KeyStrength Proofs.KeyStrength Model.IPExt Proofs.IPExt Model.ClaimAccess Proofs.ClaimAccess Model.PemWalk Proofs.PemWalk Model.KeyFraming Proofs.KeyFraming.
Import ListNotations.

Theorem c10_strong : forall k, validate k = true ->
  match k with
  | RSA bits e => 2048 <= bits /\ 65537 <= e
  | ECDSA c => 256 <= curve_bits c
  | Ed25519 => True
  | OtherKey => False
  end.
Proof. exact validate_strong. Qed.
Print Assumptions c10_strong.

Theorem c10_strong_complete : forall k,
  match k with
  | RSA bits e => 2048 <= bits /\ 65537 <= e
  | ECDSA c => 256 <= curve_bits c
  | Ed25519 => True
  | OtherKey => False
  end -> validate k = true.
Proof. exact validate_complete. Qed.
Print Assumptions c10_strong_complete.

Theorem c10_pipeline : forall parsed k, pipeline parsed = Signed k -> validate k = true.
Proof. exact pipeline_signs_only_strong. Qed.
Print Assumptions c10_pipeline.

Theorem c10_weak_is_client_error : forall parsed,
  (forall k, parsed = Some k -> validate k = false) -> pipeline parsed = ClientError.
Proof. exact pipeline_weak_is_client_error. Qed.
Print Assumptions c10_weak_is_client_error.

(* keymaster's own decoder is total on every bit string (the model has no panic outcome and
   rejects what the code before the fix indexed out of range) *)
Theorem c10_decoder_total : forall e, (exists b, decode e = Some b /\ plen b <= 32) \/ decode e = None.
Proof.
  intros e. destruct (decode e) as [b|] eqn:D; [left|right; reflexivity].
  exists b. split; [reflexivity|]. apply (decode_plen _ _ D).
Qed.
Print Assumptions c10_decoder_total.

Theorem c10_old_rsa_refuted : exists k, validate_old k = true /\ validate k = false.
Proof. exact validate_old_refuted. Qed.
Print Assumptions c10_old_rsa_refuted.

(* The parse step explicit: on every path, for every pair of parser outputs, a certificate is only
   issued for a key that passes the strength predicate - PROVIDED that on a path that parses the
   input twice (SSH: validator and signer) the two parsers deliver the same key.  That equality is
   not a fact about the model: it is checked on every run against the real validator and the real
   signer (correspondence c10_agree), on files of the authorized_keys grammar built from pairs of a
   strong and a weak key. *)
Theorem c10_pipeline_parse_explicit : forall path v s k,
  (parses_twice path = true -> s = v) -> pipeline_of path v s = Signed k -> validate k = true.
Proof. exact pipeline_of_strong. Qed.
Print Assumptions c10_pipeline_parse_explicit.

Theorem c10_single_parse_paths : forall path v s k,
  parses_twice path = false -> pipeline_of path v s = Signed k -> validate k = true.
Proof. exact pipeline_of_single_parse. Qed.
Print Assumptions c10_single_parse_paths.

(* and the hypothesis is needed: two parsers that disagree certify a weak key *)
Theorem c10_disagreeing_parsers_refuted : exists p k, pipeline2 p = Signed k /\ validate k = false.
Proof. exact pipeline2_disagree_refuted. Qed.
Print Assumptions c10_disagreeing_parsers_refuted.

(* A weak, unknown or unparsable key is refused with a client-error status on every path UNDER EVERY
   CONFIGURATION: whatever the operator's key deny list holds, whether or not the path consults it when
   it issues, whatever the fingerprint of the key is or whether it has one at all (keys without an SSH
   wire form - P-224, X25519, unknown types - have none).  The deny look-up of the model runs after the
   strength check; c10_deny_before_strength_refuted is the other order. *)
Theorem c10_weak_is_client_error_every_path : forall consults cfg path v s fp,
  (forall k, v = Some k -> validate (snd k) = false) -> pipeline_cfg consults cfg path v s fp = ClientError.
Proof. exact pipeline_cfg_weak_is_client_error. Qed.
Print Assumptions c10_weak_is_client_error_every_path.

(* the statement of the earlier rounds (one configuration) is the instance "not consulted" *)
Theorem c10_weak_is_client_error_one_configuration : forall path v s,
  (forall k, v = Some k -> validate (snd k) = false) -> pipeline_of path v s = ClientError.
Proof. exact pipeline_of_weak_is_client_error. Qed.
Print Assumptions c10_weak_is_client_error_one_configuration.

(* issued under a configuration => strong, and - where the path consults the list - not on it *)
Theorem c10_pipeline_every_configuration : forall consults cfg path v s fp k,
  (parses_twice path = true -> s = v) -> pipeline_cfg consults cfg path v s fp = Signed k ->
  validate k = true /\ (consults = true -> deny_lookup cfg fp = NotDenied).
Proof. exact pipeline_cfg_strong. Qed.
Print Assumptions c10_pipeline_every_configuration.

(* The look-up placed BEFORE the strength check, its failure answered as an internal error: a weak key
   that has no SSH form gets a server error as soon as the list is not empty - and with the default
   (empty) list that pipeline is indistinguishable from the right one, which is why the configuration
   has to be a dimension of the check. *)
Theorem c10_deny_before_strength_refuted :
  (exists cfg path v s fp, (forall k, v = Some k -> validate (snd k) = false) /\
                           pipeline_deny_first cfg path v s fp = ServerError) /\
  (forall cfg path v s fp, deny_list cfg = [] -> pipeline_deny_first cfg path v s fp = pipeline_of path v s).
Proof. split; [exact pipeline_deny_first_refuted|exact pipeline_deny_first_empty_list]. Qed.
Print Assumptions c10_deny_before_strength_refuted.

(* Which block of a submitted PEM text is the key (cloud-role body, the pubkeyfile of the X.509 paths):
   keymaster's code on top of pem.Decode never panics and answers every text whose selected key is weak,
   unparsable or absent - no block, first block of another type, bytes after the last block - with a
   client error; a certificate is only issued for the FIRST block, of type PUBLIC KEY, holding a strong
   key.  A walk that skips blocks of other types is total only if the nil test is repeated inside the
   loop (c10_pem_skip_unguarded_refuted: it panics exactly on a block of another type followed by bytes
   that are not a complete block). *)
Theorem c10_pem_walk_total : forall path t,
  pem_pipeline path t <> Panic /\
  ((forall x k, select_first t = Ok x -> blk_key x = Some k -> validate (snd k) = false) ->
   pem_pipeline path t = Ok ClientError).
Proof. intros path t. split; [exact (pem_pipeline_total path t)|exact (pem_pipeline_weak_is_client_error path t)]. Qed.
Print Assumptions c10_pem_walk_total.

Theorem c10_pem_walk_sound : forall path t k, pem_pipeline path t = Ok (Signed k) ->
  validate k = true /\ exists x r, blocks t = x :: r /\ is_pubkey x = true /\ option_map snd (blk_key x) = Some k.
Proof. exact pem_pipeline_signed. Qed.
Print Assumptions c10_pem_walk_sound.

Theorem c10_pem_skip_unguarded_refuted :
  (forall t, select_skip true t <> Panic) /\
  (exists t, select_skip false t = Panic) /\
  (forall t, select_skip false t = Panic -> trailing t = true /\ exists x, In x (blocks t) /\ is_pubkey x = false).
Proof. split; [exact select_skip_guarded_total|split; [exact select_skip_unguarded_panics|exact select_skip_unguarded_needs_both]]. Qed.
Print Assumptions c10_pem_skip_unguarded_refuted.

(* The pubkey form parameter of the two role paths (first value of a repeated parameter, empty = missing,
   base64url without padding, PKIX DER): every list of values whose first value is empty, not base64url,
   not a key or a weak key is a client error; a certificate is issued only for the key of the FIRST value. *)
Theorem c10_role_parameter : forall path values,
  ((forall kv r, values = PDer (Some kv) :: r -> validate (snd kv) = false) -> param_pipeline path values = ClientError) /\
  (forall k, param_pipeline path values = Signed k ->
             validate k = true /\ exists kv r, values = PDer (Some kv) :: r /\ snd kv = k).
Proof. intros path values. split; [exact (param_pipeline_weak_is_client_error path values)|exact (param_pipeline_signed path values)]. Qed.
Print Assumptions c10_role_parameter.

(* Keymaster's own code on the structure of a (signature-verified) token never panics: for EVERY JSON
   value as payload - claims absent, null, of any other JSON type, arrays empty or nested - the claim
   extraction of getAuthInfoFromJWT returns a value or an error.  The model has an explicit Panic
   outcome for Audience[0]; the length test in front of it is what the theorem rests on
   (c10_unguarded_index_refuted).  Likewise a header test written with an unchecked type assertion
   panics on a non-string member, the comma-ok form does not. *)
Theorem c10_claim_access_total : forall issuer kind now payload,
  get_auth_info issuer kind now payload <> Panic.
Proof. exact get_auth_info_total. Qed.
Print Assumptions c10_claim_access_total.

Theorem c10_claim_access_sound : forall issuer kind now payload u l e i,
  get_auth_info issuer kind now payload = Ok (u, l, e, i) ->
  exists c, dec_authclaims payload = Some c /\ c_iss c = issuer /\ c_tt c = kind /\
            (exists r, c_aud c = issuer :: r) /\ (c_nbf c <= now)%Z /\ u = c_sub c /\ l = c_level c /\ e = c_exp c /\ i = c_iat c.
Proof. exact get_auth_info_ok. Qed.
Print Assumptions c10_claim_access_sound.

Theorem c10_unguarded_index_refuted : exists issuer kind now payload,
  get_auth_info_unguarded issuer kind now payload = Panic.
Proof. exact get_auth_info_unguarded_panics. Qed.
Print Assumptions c10_unguarded_index_refuted.

Theorem c10_header_assertion : (forall header, check_typ_checked header <> Panic) /\
                               (exists header, check_typ_unchecked header = Panic).
Proof. split; [exact check_typ_checked_total|exact check_typ_unchecked_panics]. Qed.
Print Assumptions c10_header_assertion.

(* The byte-level FRAMING of an uploaded key (byte order marks, NUL bytes, a gzip magic in front; stray bytes
   behind; the text cut to an odd / even length; the text transcoded to UTF-16).  An issuing path is
   normalise ; parse ; validate ; sign, where the normaliser ([normcfg]: strips a UTF-8 mark / transcodes
   UTF-16LE / UTF-16BE recognised by its mark - which of these a path does is observed on every run, today
   none) is keymaster's own code on the raw bytes and the parsers are ANY functions of the normalised text.
   For every configuration of a normaliser that tests the length before it reads a code unit, every pair of
   parsers (that agree where the path parses twice), every path and EVERY byte string - in particular every
   framing [pre ++ body cut by n bytes ++ suf] of every key file - the answer is a client error, or a
   certificate for the key the parser reads out of the normalised text, and that key passes the strength
   predicate; never a panic.  A transcoder without the length test panics, and exactly on a UTF-16 mark
   followed by an odd number of bytes (c10_unguarded_transcoder_refuted). *)
Theorem c10_upload_refused_or_admissible : forall c pv ps p up,
  guarded16 c = true ->
  (parses_twice p = true -> forall t, ps t = pv t) ->
  upload_pipeline c pv ps p up = Ok ClientError \/
  exists t k, normalize c up = Ok t /\ pv t = Some k /\ validate (snd k) = true /\
              upload_pipeline c pv ps p up = Ok (Signed (snd k)).
Proof. exact upload_refused_or_admissible. Qed.
Print Assumptions c10_upload_refused_or_admissible.

Theorem c10_framed_upload_refused_or_admissible : forall c pv ps p pre suf cut body,
  guarded16 c = true ->
  (parses_twice p = true -> forall t, ps t = pv t) ->
  upload_pipeline c pv ps p (frame pre suf cut body) = Ok ClientError \/
  exists t k, normalize c (frame pre suf cut body) = Ok t /\ pv t = Some k /\ validate (snd k) = true /\
              upload_pipeline c pv ps p (frame pre suf cut body) = Ok (Signed (snd k)).
Proof. exact framed_upload_refused_or_admissible. Qed.
Print Assumptions c10_framed_upload_refused_or_admissible.

Theorem c10_framed_upload_total : forall c pv ps p pre suf cut body,
  guarded16 c = true -> upload_pipeline c pv ps p (frame pre suf cut body) <> Panic.
Proof. intros c pv ps p pre suf cut body. exact (upload_pipeline_total c pv ps p (frame pre suf cut body)). Qed.
Print Assumptions c10_framed_upload_total.

Theorem c10_unguarded_transcoder_refuted :
  (exists c up, strip8 c = true /\ le16 c = true /\ be16 c = true /\ normalize c up = Panic) /\
  (forall c up, normalize c up = Panic ->
     guarded16 c = false /\
     exists m r, (m = utf16le_mark \/ m = utf16be_mark) /\ up = m ++ r /\ Nat.odd (length r) = true).
Proof. exact unguarded_transcoder_refuted. Qed.
Print Assumptions c10_unguarded_transcoder_refuted.

(* non-vacuity: a well-formed UTF-16LE upload of a strong key is certified by a transcoding path, the same
   bytes cut by one are refused; today's path refuses both *)
Example c10_framing_nonvacuous :
  let c := {| strip8 := true; le16 := true; be16 := true; guarded16 := true |} in
  let parse := fun t : bs => if bs_eqb t [107; 10] then Some (1, Ed25519) else None in
  upload_pipeline c parse parse KSsh [255; 254; 107; 0; 10; 0] = Ok (Signed Ed25519) /\
  upload_pipeline c parse parse KSsh [255; 254; 107; 0; 10] = Ok ClientError /\
  upload_pipeline norm_today parse parse KSsh [255; 254; 107; 0; 10; 0] = Ok ClientError /\
  upload_pipeline norm_today parse parse KSsh (frame [] [] 0 [107; 10]) = Ok (Signed Ed25519).
Proof. vm_compute. repeat split. Qed.
