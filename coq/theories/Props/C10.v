(* C10 — only strong public keys are certified (the panic-freedom half is tested, not proved,
   except for keymaster's own address-extension decoder, see C11). *)
From KM Require Import Base.Bytes Model.KeyStrength Proofs.KeyStrength Model.IPExt Proofs.IPExt Model.ClaimAccess Proofs.ClaimAccess Model.PemWalk Proofs.PemWalk.
Import ListNotations.

Theorem c10_strong : forall k, validate k = true ->
  match k with
  | RSA bits e => 2048 <= bits /\ 65537 <= e
  | ECDSA c => 256 <= curve_bits c
  | Ed25519 => True
  | OtherKey => False
  end.
Proof. exact validate_strong. Qed.
Print Assumptions c10_strong.

Theorem c10_strong_complete : forall k,
  match k with
  | RSA bits e => 2048 <= bits /\ 65537 <= e
  | ECDSA c => 256 <= curve_bits c
  | Ed25519 => True
  | OtherKey => False
  end -> validate k = true.
Proof. exact validate_complete. Qed.
Print Assumptions c10_strong_complete.

Theorem c10_pipeline : forall parsed k, pipeline parsed = Signed k -> validate k = true.
Proof. exact pipeline_signs_only_strong. Qed.
Print Assumptions c10_pipeline.

Theorem c10_weak_is_client_error : forall parsed,
  (forall k, parsed = Some k -> validate k = false) -> pipeline parsed = ClientError.
Proof. exact pipeline_weak_is_client_error. Qed.
Print Assumptions c10_weak_is_client_error.

(* keymaster's own decoder is total on every bit string (the model has no panic outcome and
   rejects what the code before the fix indexed out of range) *)
Theorem c10_decoder_total : forall e, (exists b, decode e = Some b /\ plen b <= 32) \/ decode e = None.
Proof.
  intros e. destruct (decode e) as [b|] eqn:D; [left|right; reflexivity].
  exists b. split; [reflexivity|]. apply (decode_plen _ _ D).
Qed.
Print Assumptions c10_decoder_total.

Theorem c10_old_rsa_refuted : exists k, validate_old k = true /\ validate k = false.
Proof. exact validate_old_refuted. Qed.
Print Assumptions c10_old_rsa_refuted.

(* The parse step explicit: on every path, for every pair of parser outputs, a certificate is only
   issued for a key that passes the strength predicate - PROVIDED that on a path that parses the
   input twice (SSH: validator and signer) the two parsers deliver the same key.  That equality is
   not a fact about the model: it is checked on every run against the real validator and the real
   signer (correspondence c10_agree), on files of the authorized_keys grammar built from pairs of a
   strong and a weak key. *)
Theorem c10_pipeline_parse_explicit : forall path v s k,
  (parses_twice path = true -> s = v) -> pipeline_of path v s = Signed k -> validate k = true.
Proof. exact pipeline_of_strong. Qed.
Print Assumptions c10_pipeline_parse_explicit.

Theorem c10_single_parse_paths : forall path v s k,
  parses_twice path = false -> pipeline_of path v s = Signed k -> validate k = true.
Proof. exact pipeline_of_single_parse. Qed.
Print Assumptions c10_single_parse_paths.

(* and the hypothesis is needed: two parsers that disagree certify a weak key *)
Theorem c10_disagreeing_parsers_refuted : exists p k, pipeline2 p = Signed k /\ validate k = false.
Proof. exact pipeline2_disagree_refuted. Qed.
Print Assumptions c10_disagreeing_parsers_refuted.

(* A weak, unknown or unparsable key is refused with a client-error status on every path UNDER EVERY
   CONFIGURATION: whatever the operator's key deny list holds, whether or not the path consults it when
   it issues, whatever the fingerprint of the key is or whether it has one at all (keys without an SSH
   wire form - P-224, X25519, unknown types - have none).  The deny look-up of the model runs after the
   strength check; c10_deny_before_strength_refuted is the other order. *)
Theorem c10_weak_is_client_error_every_path : forall consults cfg path v s fp,
  (forall k, v = Some k -> validate (snd k) = false) -> pipeline_cfg consults cfg path v s fp = ClientError.
Proof. exact pipeline_cfg_weak_is_client_error. Qed.
Print Assumptions c10_weak_is_client_error_every_path.

(* the statement of the earlier rounds (one configuration) is the instance "not consulted" *)
Theorem c10_weak_is_client_error_one_configuration : forall path v s,
  (forall k, v = Some k -> validate (snd k) = false) -> pipeline_of path v s = ClientError.
Proof. exact pipeline_of_weak_is_client_error. Qed.
Print Assumptions c10_weak_is_client_error_one_configuration.

(* issued under a configuration => strong, and - where the path consults the list - not on it *)
Theorem c10_pipeline_every_configuration : forall consults cfg path v s fp k,
  (parses_twice path = true -> s = v) -> pipeline_cfg consults cfg path v s fp = Signed k ->
  validate k = true /\ (consults = true -> deny_lookup cfg fp = NotDenied).
Proof. exact pipeline_cfg_strong. Qed.
Print Assumptions c10_pipeline_every_configuration.

(* The look-up placed BEFORE the strength check, its failure answered as an internal error: a weak key
   that has no SSH form gets a server error as soon as the list is not empty - and with the default
   (empty) list that pipeline is indistinguishable from the right one, which is why the configuration
   has to be a dimension of the check. *)
Theorem c10_deny_before_strength_refuted :
  (exists cfg path v s fp, (forall k, v = Some k -> validate (snd k) = false) /\
                           pipeline_deny_first cfg path v s fp = ServerError) /\
  (forall cfg path v s fp, deny_list cfg = [] -> pipeline_deny_first cfg path v s fp = pipeline_of path v s).
Proof. split; [exact pipeline_deny_first_refuted|exact pipeline_deny_first_empty_list]. Qed.
Print Assumptions c10_deny_before_strength_refuted.

(* Which block of a submitted PEM text is the key (cloud-role body, the pubkeyfile of the X.509 paths):
   keymaster's code on top of pem.Decode never panics and answers every text whose selected key is weak,
   unparsable or absent - no block, first block of another type, bytes after the last block - with a
   client error; a certificate is only issued for the FIRST block, of type PUBLIC KEY, holding a strong
   key.  A walk that skips blocks of other types is total only if the nil test is repeated inside the
   loop (c10_pem_skip_unguarded_refuted: it panics exactly on a block of another type followed by bytes
   that are not a complete block). *)
Theorem c10_pem_walk_total : forall path t,
  pem_pipeline path t <> Panic /\
  ((forall x k, select_first t = Ok x -> blk_key x = Some k -> validate (snd k) = false) ->
   pem_pipeline path t = Ok ClientError).
Proof. intros path t. split; [exact (pem_pipeline_total path t)|exact (pem_pipeline_weak_is_client_error path t)]. Qed.
Print Assumptions c10_pem_walk_total.

Theorem c10_pem_walk_sound : forall path t k, pem_pipeline path t = Ok (Signed k) ->
  validate k = true /\ exists x r, blocks t = x :: r /\ is_pubkey x = true /\ option_map snd (blk_key x) = Some k.
Proof. exact pem_pipeline_signed. Qed.
Print Assumptions c10_pem_walk_sound.

Theorem c10_pem_skip_unguarded_refuted :
  (forall t, select_skip true t <> Panic) /\
  (exists t, select_skip false t = Panic) /\
  (forall t, select_skip false t = Panic -> trailing t = true /\ exists x, In x (blocks t) /\ is_pubkey x = false).
Proof. split; [exact select_skip_guarded_total|split; [exact select_skip_unguarded_panics|exact select_skip_unguarded_needs_both]]. Qed.
Print Assumptions c10_pem_skip_unguarded_refuted.

(* The pubkey form parameter of the two role paths (first value of a repeated parameter, empty = missing,
   base64url without padding, PKIX DER): every list of values whose first value is empty, not base64url,
   not a key or a weak key is a client error; a certificate is issued only for the key of the FIRST value. *)
Theorem c10_role_parameter : forall path values,
  ((forall kv r, values = PDer (Some kv) :: r -> validate (snd kv) = false) -> param_pipeline path values = ClientError) /\
  (forall k, param_pipeline path values = Signed k ->
             validate k = true /\ exists kv r, values = PDer (Some kv) :: r /\ snd kv = k).
Proof. intros path values. split; [exact (param_pipeline_weak_is_client_error path values)|exact (param_pipeline_signed path values)]. Qed.
Print Assumptions c10_role_parameter.

(* Keymaster's own code on the structure of a (signature-verified) token never panics: for EVERY JSON
   value as payload - claims absent, null, of any other JSON type, arrays empty or nested - the claim
   extraction of getAuthInfoFromJWT returns a value or an error.  The model has an explicit Panic
   outcome for Audience[0]; the length test in front of it is what the theorem rests on
   (c10_unguarded_index_refuted).  Likewise a header test written with an unchecked type assertion
   panics on a non-string member, the comma-ok form does not. *)
Theorem c10_claim_access_total : forall issuer kind now payload,
  get_auth_info issuer kind now payload <> Panic.
Proof. exact get_auth_info_total. Qed.
Print Assumptions c10_claim_access_total.

Theorem c10_claim_access_sound : forall issuer kind now payload u l e i,
  get_auth_info issuer kind now payload = Ok (u, l, e, i) ->
  exists c, dec_authclaims payload = Some c /\ c_iss c = issuer /\ c_tt c = kind /\
            (exists r, c_aud c = issuer :: r) /\ (c_nbf c <= now)%Z /\ u = c_sub c /\ l = c_level c /\ e = c_exp c /\ i = c_iat c.
Proof. exact get_auth_info_ok. Qed.
Print Assumptions c10_claim_access_sound.

Theorem c10_unguarded_index_refuted : exists issuer kind now payload,
  get_auth_info_unguarded issuer kind now payload = Panic.
Proof. exact get_auth_info_unguarded_panics. Qed.
Print Assumptions c10_unguarded_index_refuted.

Theorem c10_header_assertion : (forall header, check_typ_checked header <> Panic) /\
                               (exists header, check_typ_unchecked header = Panic).
Proof. split; [exact check_typ_checked_total|exact check_typ_unchecked_panics]. Qed.
Print Assumptions c10_header_assertion.
