(* C18 — request-controlled text is never rendered as markup: the part keymasterd builds by
   hand.  (Ordinary template fields rely on html/template auto-escaping: tested with canaries.) *)
From KM Require Import Base.Bytes Model.Html Proofs.Html.

(* for every byte string and every behaviour of the URL normaliser in front of it *)
Theorem c18_escape_safe : forall s, attr_safe (html_escape s) = true.
Proof. exact escape_safe. Qed.
Print Assumptions c18_escape_safe.

Theorem c18_hidden_input : forall (ensure : bs -> bs) dest,
  exists v, hidden_input ensure dest = input_prefix ++ v ++ input_suffix /\
            until_quote (v ++ input_suffix) = v /\ v = html_escape (ensure dest) /\ attr_safe v = true.
Proof. exact value_is_escaped_text. Qed.
Print Assumptions c18_hidden_input.

Theorem c18_old_input_refuted : exists dest,
  attr_safe (until_quote ((fun x => x) dest ++ input_suffix)) = true /\
  until_quote ((fun x => x) dest ++ input_suffix) <> dest.
Proof. exact old_input_refuted. Qed.
Print Assumptions c18_old_input_refuted.

(* ---- responses as (declared type, body segments Trusted | Escaped | Raw) ---- *)

(* whatever fields a Raw-free body carries, the sequence of its markup bytes (the quotes and angle brackets any
   HTML tokenizer keys on) is that of the trusted template text alone *)
Theorem c18_escaped_fields_inert : forall l, raw_free l = true ->
  skeleton (render l) = skeleton (render (strip l)).
Proof. exact raw_free_skeleton. Qed.
Print Assumptions c18_escaped_fields_inert.

(* every failure response of keymasterd that a browser renders as a document (declared text/html, or sniffed)
   contains no Raw request-controlled segment: the detail line is never a document, for all details, status
   texts and codes; the 401 page for browsers is a template page *)
Theorem c18_document_no_raw : forall admin_port accept_html code status msg tpl tail,
  let r := failure_response admin_port accept_html code status msg (page tpl tail) in
  rendered_as_document r = true ->
  raw_free (r_body r) = true /\
  skeleton (render (r_body r)) = skeleton (render (strip (r_body r))).
Proof. exact document_fields_inert. Qed.
Print Assumptions c18_document_no_raw.

Theorem c18_page_fields_inert : forall ct tpl tail,
  skeleton (render (r_body (mkResp ct (page tpl tail)))) =
  skeleton (render (strip (r_body (mkResp ct (page tpl tail))))).
Proof. exact page_fields_inert. Qed.
Print Assumptions c18_page_fields_inert.

(* not vacuous: declare the failure line text/html for browsers and the detail becomes markup *)
Theorem c18_typed_failure_refuted : exists status msg,
  let r := failure_response_typed false true 400 status msg (page [] []) in
  rendered_as_document r = true /\
  skeleton (render (r_body r)) <> skeleton (render (strip (r_body r))).
Proof. exact typed_failure_refuted. Qed.
Print Assumptions c18_typed_failure_refuted.

Theorem c18_raw_field_refuted : exists s,
  skeleton (render [Trusted [60;98;62]; Raw s; Trusted [60;47;98;62]]) <>
  skeleton (render (strip [Trusted [60;98;62]; Raw s; Trusted [60;47;98;62]])).
Proof. exact raw_field_refuted. Qed.
Print Assumptions c18_raw_field_refuted.

(* ---- html/template's field escapers by context (text / quoted attribute / unquoted attribute / quoted URL
   attribute behind an arbitrary URL stage) ---- *)
Theorem c18_field_contexts_safe : forall c s,
  attr_safe (render_field c s) = true /\
  (c = CtxAttrUnquoted -> unq_safe (render_field c s) = true).
Proof. exact field_contexts_safe. Qed.
Print Assumptions c18_field_contexts_safe.

(* the value an HTML tokenizer reads from a double-quoted attribute is exactly the escaped field *)
Theorem c18_quoted_value : forall s rest, until_quote (tmpl_escape s ++ 34 :: rest) = tmpl_escape s.
Proof. exact quoted_value_is_field. Qed.
Print Assumptions c18_quoted_value.

(* ... and from an unquoted attribute (VALUE={{.DefaultUsername}} of the login form): the whole escaped field,
   never empty, whatever blank or '>' follows *)
Theorem c18_unquoted_value : forall s c rest, unq_end c = true ->
  until_unq_end (nospace_escape s ++ c :: rest) = nospace_escape s /\ nospace_escape s <> [].
Proof. exact unquoted_value_is_field. Qed.
Print Assumptions c18_unquoted_value.

(* not vacuous: the quoted-attribute escaper in an unquoted position lets a blank end the value *)
Example c18_quoted_escaper_unquoted_refuted :
  unq_safe (tmpl_escape [120; 32; 111; 110; 120; 61; 49]) = false.
Proof. reflexivity. Qed.


(* ---- hand-built attributes (NAME= + value concatenated by keymasterd from text escaped with HTMLEscapeString), by
   quoting mode ---- *)
(* quoted (double or single): for EVERY string the value an HTML tokenizer reads is exactly the escaped text,
   whatever follows the closing quote *)
Theorem c18_hand_attr_quoted_inert : forall s rest,
  attr_read (hand_attr QDouble s ++ rest) = html_escape s /\
  attr_read (hand_attr QSingle s ++ rest) = html_escape s.
Proof. exact hand_attr_quoted_inert. Qed.
Print Assumptions c18_hand_attr_quoted_inert.

(* unquoted: read whole only for text without a blank or '>' ... *)
Theorem c18_hand_attr_unquoted_blankfree : forall s c rest, has unq_end s = false -> unq_end c = true ->
  attr_read (hand_attr QUnquoted s ++ c :: rest) = html_escape s.
Proof. exact hand_attr_unquoted_blankfree. Qed.
Print Assumptions c18_hand_attr_unquoted_blankfree.

(* ... and refuted in general: HTMLEscapeString does not escape blanks, so in an UNQUOTED position a blank ends the
   value and the rest of the request text becomes attributes (the same text double-quoted is read whole) *)
Theorem c18_hand_attr_unquoted_refuted : exists s,
  attr_read (hand_attr QUnquoted s ++ [62]) <> html_escape s /\
  unq_safe (html_escape s) = false /\
  attr_read (hand_attr QDouble s ++ [62]) = html_escape s.
Proof. exact hand_attr_unquoted_refuted. Qed.
Print Assumptions c18_hand_attr_unquoted_refuted.


(* ---- stored (second-order) text: whatever a history of requests stored in a profile (binary registration answers
   decoded by ANY parser), a page that shows the stored texts in template fields has the markup bytes of its own
   template text alone: one `row` per stored text, then the tail *)
Theorem c18_stored_fields_inert : forall (decode : bs -> list bs) history row c tail ct,
  let st := store_of decode history in
  skeleton (render (r_body (mkResp ct (stored_page row c st tail)))) =
  skeleton (flat_map (fun _ => row) st ++ tail).
Proof. exact stored_fields_inert. Qed.
Print Assumptions c18_stored_fields_inert.

(* not vacuous: a stored text shown through a field typed template.HTML (Raw) changes the markup of the page *)
Theorem c18_stored_raw_refuted : exists decode history,
  let st := store_of decode history in
  skeleton (render (stored_page_raw [60;116;100;62] st [])) <>
  skeleton (render (strip (stored_page_raw [60;116;100;62] st []))).
Proof. exact stored_raw_refuted. Qed.
Print Assumptions c18_stored_raw_refuted.

(* ---- parts of a field: whatever a handler cuts out of the request text (part: any function), a quoted hand-built
   attribute is read whole ... *)
Theorem c18_part_quoted_inert : forall (part : bs -> bs) s rest,
  attr_read (hand_attr QDouble (part s) ++ rest) = html_escape (part s) /\
  attr_read (hand_attr QSingle (part s) ++ rest) = html_escape (part s).
Proof. exact part_quoted_inert. Qed.
Print Assumptions c18_part_quoted_inert.

(* ... while the text in front of the `@` of a request text that no HTML escaper changes at all ends an UNQUOTED
   hand-built attribute early; and the e-mail wrapper of the generator delivers any @-free payload to such a part *)
Theorem c18_part_unquoted_refuted : exists s,
  let p := before_at s in
  attr_read (hand_attr QUnquoted p ++ [62]) <> html_escape p /\
  unq_safe (html_escape p) = false /\
  html_escape s = s /\
  attr_read (hand_attr QDouble p ++ [62]) = html_escape p.
Proof. exact part_unquoted_refuted. Qed.
Print Assumptions c18_part_unquoted_refuted.

Theorem c18_email_wrapper_reaches_part : forall p d,
  has (fun c => c =? 64) p = false -> before_at (p ++ 64 :: d) = p.
Proof. exact before_at_wrap. Qed.
Print Assumptions c18_email_wrapper_reaches_part.
