(* C18 — request-controlled text is never rendered as markup: the part keymasterd builds by
   hand.  (Ordinary template fields rely on html/template auto-escaping: tested with canaries.) *)
From KM Require Import Base.Bytes Model.Html Proofs.Html.

(* for every byte string and every behaviour of the URL normaliser in front of it *)
Theorem c18_escape_safe : forall s, attr_safe (html_escape s) = true.
Proof. exact escape_safe. Qed.
Print Assumptions c18_escape_safe.

Theorem c18_hidden_input : forall (ensure : bs -> bs) dest,
  exists v, hidden_input ensure dest = input_prefix ++ v ++ input_suffix /\
            until_quote (v ++ input_suffix) = v /\ v = html_escape (ensure dest) /\ attr_safe v = true.
Proof. exact value_is_escaped_text. Qed.
Print Assumptions c18_hidden_input.

Theorem c18_old_input_refuted : exists dest,
  attr_safe (until_quote ((fun x => x) dest ++ input_suffix)) = true /\
  until_quote ((fun x => x) dest ++ input_suffix) <> dest.
Proof. exact old_input_refuted. Qed.
Print Assumptions c18_old_input_refuted.
