(* C08 — users manage only themselves; administration needs admin rights (+ U2F).

   Statement (properties.jsonl): an authenticated user can view and change only their own
   profile and second-factor tokens.  Listing, adding and deleting users, viewing another user's
   profile and issuing bootstrap OTPs require an administrator (by configured name or group,
   re-evaluated at least every five minutes while the directory answers); changing or registering
   another user's tokens additionally requires the administrator's own session to carry a
   hardware-token factor.  Automation certificates can be minted only by an administrator or
   automation administrator and only for configured automation identities. *)
From KM Require Import Base.Bytes Base.Tactics Model.Auth Model.AuthGate Model.Routes Model.Authz Model.AdminCache Proofs.Authz Proofs.AdminCache Proofs.AuthzGate Proofs.AuthzObs Proofs.AuthzIdentity Proofs.AuthzRefresh.
Import ListNotations.

(* every authorization test: allowed means own data, or administrator (and a U2F session
   unless the operation is plain user administration / viewing).  Names are byte strings:
   "own" is byte equality of the effective target with the authenticated name as stored —
   whatever the normalisation setting; two names that differ only in letter case are two users *)
Theorem c08_self_or_admin : forall c adm actor level target o,
  o <> RoleCert ->
  authorize c adm actor level target o = Allow ->
  may_act adm actor level (effective_target actor target o) o.
Proof. exact authorize_sound. Qed.

Theorem c08_admin_only : forall c adm actor level target o,
  user_admin_op o = true \/ (o = ViewProfile /\ target <> []) ->
  authorize c adm actor level target o = Allow -> adm = true.
Proof. exact admin_only. Qed.

Theorem c08_other_tokens_need_u2f : forall c adm actor level target o,
  token_op o = true ->
  effective_target actor target o <> actor ->
  authorize c adm actor level target o = Allow ->
  adm = true /\ hasb level bU2F = true.
Proof. exact other_tokens_need_u2f. Qed.

(* what "administrator" means for a fresh evaluation: configured name, or member of a
   configured group according to the directory's answer *)
Theorem c08_admin_by_config : forall c u dir,
  raw_is_admin c u dir = Some true <-> is_admin_by_config c u dir.
Proof. exact raw_is_admin_true. Qed.

Theorem c08_rolecert : forall c s r,
  r_op r = RoleCert -> snd (step c s r) = ROk ->
  exists actor level,
    authenticate (required_for c RoleCert) (resolve c (r_cred r)) = Some (actor, level) /\
    (r_adm r = true \/ In actor (automation_admins c)) /\
    is_automation_identity c (r_target r) (r_dir_target r) /\
    fst (step c s r) = s.
Proof. exact rolecert_sound. Qed.

(* "only for configured automation identities", taken literally.  Names are byte strings and an entry of
   automation_users is a name, never a pattern: for every configuration, every requester (any credential,
   any administrator verdict), every requested identity and every parameter, a role certificate is only
   issued for an identity that IS an element of the configured list — byte for byte; no character of an
   entry ('.', '*', '_', '%', a blank ...) stands for anything but itself, letter case counts, a prefix or
   an extension of an entry is another name — unless the directory's answer about the identity (an input)
   names a configured automation group, the statement's other way of being an automation identity. *)
Theorem c08_rolecert_exact_identity : forall c s r,
  r_op r = RoleCert -> snd (step c s r) = ROk ->
  (forall gs g, r_dir_target r = Some gs -> In g gs -> ~ In g (automation_user_groups c)) ->
  In (r_target r) (automation_users c).
Proof. exact rolecert_exact_identity. Qed.

(* read the other way: an identity that is not literally configured is refused whoever asks, and
   nothing is stored; and the empty identity is never served, even if "" is an entry of the list *)
Theorem c08_rolecert_unconfigured_refused : forall c s r,
  r_op r = RoleCert ->
  ~ In (r_target r) (automation_users c) ->
  (forall gs g, r_dir_target r = Some gs -> In g gs -> ~ In g (automation_user_groups c)) ->
  snd (step c s r) <> ROk /\ fst (step c s r) = s.
Proof. exact rolecert_unconfigured_refused. Qed.

Theorem c08_rolecert_identity_nonempty : forall c s r,
  r_op r = RoleCert -> snd (step c s r) = ROk -> r_target r <> [].
Proof. exact rolecert_identity_nonempty. Qed.

(* a success response (the page with somebody's profile, the user list, a changed token) is
   only ever produced for an authenticated request that passed its handler's test *)
Theorem c08_ok_authorized : forall c s r,
  snd (step c s r) = ROk ->
  exists actor level,
    authenticate (required_for c (r_op r)) (resolve c (r_cred r)) = Some (actor, level) /\
    authorize c (r_adm r) actor level (r_target r) (r_op r) = Allow.
Proof. exact ok_authorized. Qed.

(* a request that is not authenticated, or that its handler's test refuses, leaves every stored
   profile unchanged and is not answered with a success *)
Theorem c08_profile_untouched : forall c s r,
  authenticate (required_for c (r_op r)) (resolve c (r_cred r)) = None \/
  (exists actor level,
     authenticate (required_for c (r_op r)) (resolve c (r_cred r)) = Some (actor, level) /\
     authorize c (r_adm r) actor level (r_target r) (r_op r) = Deny) ->
  fst (step c s r) = s /\ snd (step c s r) <> ROk.
Proof.
  intros c s r [H|[actor [level [Ha Hd]]]].
  - rewrite (unauthenticated_denied c s r H). split; [reflexivity|discriminate].
  - exact (deny_untouched c s r actor level Ha Hd).
Qed.

Theorem c08_failure_untouched : forall c s r,
  snd (step c s r) <> ROk -> fst (step c s r) = s.
Proof. exact not_ok_untouched. Qed.

(* an allowed request touches the row of its effective target only *)
Theorem c08_only_target_changes : forall c s r actor level u,
  authenticate (required_for c (r_op r)) (resolve c (r_cred r)) = Some (actor, level) ->
  u <> effective_target actor (r_target r) (r_op r) ->
  find (fst (step c s r)) u = find s u.
Proof. exact only_target_changes. Qed.

(* over histories of any length: if v's stored profile differs afterwards, one of the requests
   was v's own, or an administrator's (with the U2F factor for token operations) *)
Theorem c08_history : forall c reqs s v,
  find (run c s reqs) v <> find s v ->
  exists r actor level,
    In r reqs /\
    authenticate (required_for c (r_op r)) (resolve c (r_cred r)) = Some (actor, level) /\
    may_act (r_adm r) actor level v (r_op r).
Proof. exact history_sound. Qed.

(* ---- the five-minute memo of the admin verdict ---- *)

(* one query of a trace: the clock readings, the user, and what the directory would answer *)
Definition trace_query (c : cfg) (x : Z * Z * name * answer) : query :=
  let '(t, tp, u, ans) := x in
  {| q_t := t; q_tp := tp; q_user := u; q_raw := raw_is_admin c u ans |}.

Lemma five_minutes_in_range : (min_dur < five_minutes <= max_dur)%Z.
Proof. unfold min_dur, max_dur, five_minutes. lia. Qed.

(* every verdict of every trace is justified: the directory says so now; or less than five
   minutes ago the same verdict was given while the directory said so, or while it was failing;
   or it fails now and the previous verdict (or a refusal) is repeated *)
Theorem c08_cache : forall c c0 trace,
  c0 = None \/ c0 = Some [] ->
  all_justified five_minutes (snd (hrun five_minutes c0 (map (trace_query c) trace))).
Proof.
  intros c c0 trace H0. apply cache_justified; [exact five_minutes_in_range|exact H0].
Qed.

(* "re-evaluated at least every five minutes while the directory answers": if all queries about
   the user during the last five minutes (this one included) found the directory answering a,
   the verdict is a *)
Theorem c08_cache_window : forall c c0 trace pre o post a,
  c0 = None \/ c0 = Some [] ->
  snd (hrun five_minutes c0 (map (trace_query c) trace)) = pre ++ o :: post ->
  q_raw (o_q o) = Some a ->
  (forall o', In o' post -> q_user (o_q o') = q_user (o_q o) ->
              (q_t (o_q o) - q_tp (o_q o') < five_minutes)%Z -> q_raw (o_q o') = Some a) ->
  o_v o = a.
Proof.
  intros c c0 trace pre o post a H0 Hsplit Hnow Hall.
  pose proof (c08_cache c c0 trace H0) as Hj.
  apply (justified_window five_minutes post (o_q o) (o_v o) a); try assumption.
  apply (all_justified_in five_minutes _ Hj pre o post Hsplit).
Qed.

(* nobody is ever treated as administrator without the configuration / directory having said so
   at this or an earlier query about the same user *)
Theorem c08_cache_granted_has_source : forall c c0 trace o,
  c0 = None \/ c0 = Some [] ->
  In o (snd (hrun five_minutes c0 (map (trace_query c) trace))) -> o_v o = true ->
  exists o2, In o2 (snd (hrun five_minutes c0 (map (trace_query c) trace))) /\
             q_user (o_q o2) = q_user (o_q o) /\ q_raw (o_q o2) = Some true.
Proof.
  intros c c0 trace o H0 Hin Hv.
  exact (granted_has_source five_minutes _ (c08_cache c c0 trace H0) o Hin Hv).
Qed.

(* ---- spelling of names ---- *)

(* the session somebody obtains by logging in under some spelling: with normalisation on its
   subject is the lower-case form, with normalisation off it is the spelling as typed *)
Theorem c08_login_subject : forall c typed l required actor level,
  authenticate required (resolve c (Login typed l)) = Some (actor, level) ->
  level = l /\ actor = (if disable_normalisation c then typed else map lower_byte typed).
Proof.
  intros c typed l required actor level. simpl. unfold normalise.
  destruct (hasb l required); [|discriminate]. intros H. inversion H. auto.
Qed.

(* the token handlers never treat two different stored names as the same user: acting on the
   tokens of ANY name that is not byte-equal to the authenticated one — a case variant included,
   whether or not such an account exists — needs an administrator with a hardware-token session *)
Theorem c08_case_variant_is_other_user : forall c adm actor level target o,
  token_op o = true -> o <> TOTPGenerate -> o <> TOTPValidate ->
  target <> actor ->
  authorize c adm actor level target o = Allow ->
  adm = true /\ hasb level bU2F = true.
Proof.
  intros c adm actor level target o Ho H1 H2 Hne H.
  apply (other_tokens_need_u2f c adm actor level target o Ho); [|exact H].
  destruct o; simpl in *; try discriminate; try exact Hne; congruence.
Qed.

(* ---- the role questions over the shared memo (IsAdminUser and isAutomationAdmin) ---- *)

Definition role_query (c : cfg) (x : rkind * Z * Z * name * answer) : rquery :=
  let '(k, t, tp, u, ans) := x in
  {| rq_kind := k; rq_q := trace_query c (t, tp, u, ans); rq_listed := memn u (automation_admins c) |}.

(* for every history of role lookups of both kinds (clock readings, users, directory answers and
   failures as inputs): an "administrator" answer is justified by administrator evaluations
   alone — the configured names / the directory say so now, or an administrator evaluation about
   the same user less than five minutes ago gave that verdict (while the directory said so, or
   while it was failing), or the directory fails now and the previous administrator verdict is
   repeated.  "Automation administrator?" lookups contribute their administrator evaluation
   and nothing else. *)
Theorem c08_roles_admin_justified : forall c c0 trace pre o post,
  c0 = None \/ c0 = Some [] ->
  snd (rrun five_minutes c0 (map (role_query c) trace)) = pre ++ o :: post ->
  rq_kind (ro_q o) = KAdmin ->
  justified five_minutes (map admin_obs post) (rq_q (ro_q o)) (ro_ans o).
Proof.
  intros c c0 trace pre o post H0 Hs Hk.
  exact (roles_admin_justified five_minutes c0 _ pre o post five_minutes_in_range H0 Hs Hk).
Qed.

(* an "administrator" answer `true` always has a real administrator evaluation behind it: the
   history contains a lookup (of either kind, this one or an earlier one) about the same user at
   which the configuration / the directory's answer made that user an administrator — by
   configured name or by membership of a configured group.  Being on the automation
   administrators' list, or having been answered "automation administrator: yes", is never a source. *)
Theorem c08_roles_admin_has_source : forall c c0 trace o,
  c0 = None \/ c0 = Some [] ->
  In o (snd (rrun five_minutes c0 (map (role_query c) trace))) ->
  rq_kind (ro_q o) = KAdmin -> ro_ans o = true ->
  exists k t tp ans, In (k, t, tp, q_user (rq_q (ro_q o)), ans) trace /\
                     is_admin_by_config c (q_user (rq_q (ro_q o))) ans.
Proof.
  intros c c0 trace o H0 Hin Hk Hv.
  destruct (roles_admin_has_source five_minutes c0 _ o five_minutes_in_range H0 Hin Hk Hv) as [o2 [Hi [Hu Hr]]].
  apply rrun_queries in Hi. apply in_map_iff in Hi. destruct Hi as [[[[[k t] tp] u] ans] [Hq Hx]].
  rewrite <- Hq in Hu, Hr. simpl in Hu, Hr. subst u.
  exists k, t, tp, ans. split; [exact Hx|]. apply raw_is_admin_true. exact Hr.
Qed.

(* a user whom neither the configured names nor any directory answer of the history makes an
   administrator is answered "administrator: no" at every point of the history *)
Theorem c08_roles_never_promoted : forall c c0 trace u,
  c0 = None \/ c0 = Some [] ->
  (forall k t tp ans, In (k, t, tp, u, ans) trace -> ~ is_admin_by_config c u ans) ->
  forall o, In o (snd (rrun five_minutes c0 (map (role_query c) trace))) ->
  rq_kind (ro_q o) = KAdmin -> q_user (rq_q (ro_q o)) = u -> ro_ans o = false.
Proof.
  intros c c0 trace u H0 Hnever o Hin Hk Hu.
  destruct (ro_ans o) eqn:Hv; [|reflexivity]. exfalso.
  destruct (c08_roles_admin_has_source c c0 trace o H0 Hin Hk Hv) as (k & t & tp & ans & Hx & Ha).
  rewrite Hu in Hx, Ha. exact (Hnever k t tp ans Hx Ha).
Qed.

(* ---- tie to the gate and route model of C06 ---- *)

(* C06 keeps users abstract (numbers); [uid] is any injective numbering of the names with
   uid "" = 0.  The handler test of this model IS the extra rule that C06's route table declares
   for the operation's route, whenever the C06 environment agrees with the request (web-UI mask,
   administrator verdict, automation-administrator verdict, target) *)
Theorem c08_authorize_is_gate_extra : forall (uid : name -> N),
  (forall a b, uid a = uid b -> a = b) -> uid [] = 0%N ->
  forall c env adm actor level target o,
    env_agrees uid c env adm actor target ->
    (authorize c adm actor level target o = Allow <-> extra_ok (extra_of o) env (uid actor) level).
Proof. exact authorize_is_extra. Qed.

(* one composed statement per route: let in by the gate with the operation's mask AND allowed by
   the handler's test => the gate C06 declares for that route (a row of its route table) accepts
   the request: some credential it carries proves (actor, level), the level fits the route's
   mask, a non-GET request is same-site, the route's extra rule holds *)
Theorem c08_gate_and_authorize : forall (uid : name -> N),
  (forall a b, uid a = uid b -> a = b) -> uid [] = 0%N ->
  forall c env q adm actor level target o iat,
    env_agrees uid c env adm actor target ->
    check_auth (e_now env) (e_limiter env) (e_deny env) (required_for c o) q = Admit (uid actor) level iat ->
    authorize c adm actor level target o = Allow ->
    exists r, find_row (route_of o) = Some r /\ In r route_table /\ accepts env q (rt_gate r).
Proof. exact gate_and_authorize. Qed.

Theorem c08_gate_and_authorize_may_act : forall (uid : name -> N) c env q adm actor level target o iat,
  o <> RoleCert ->
  env_agrees uid c env adm actor target ->
  check_auth (e_now env) (e_limiter env) (e_deny env) (required_for c o) q = Admit (uid actor) level iat ->
  authorize c adm actor level target o = Allow ->
  proves (e_now env) (e_deny env) q (uid actor) level /\
  hasb level (required_for c o) = true /\
  (q_meth q <> GET -> origin_ok q) /\
  may_act adm actor level (effective_target actor target o) o.
Proof. exact gate_and_authorize_may_act. Qed.

(* The property's predicate on OBSERVATIONS.  When the correspondence reports a management request on which
   the code and the model differ, the case file evaluates [cell_violating] on what the implementation was
   seen to do (response class, rows of the profile table afterwards).  The flag is off exactly when the
   observation satisfies the statements above taken for one request: every row (of the finite user list
   compared) that differs belongs to the authenticated caller or to somebody an administrator may act on
   (c08_history), and a success went to an authenticated caller who may act on the effective target
   (c08_ok_authorized + c08_self_or_admin) resp. to an (automation) administrator for a configured automation
   identity (c08_rolecert).  A flagged cell is an input on which the implementation does what they exclude. *)
Theorem c08_obs_cell_is_spec : forall c us s r obs s',
  cell_violating c us s r obs s' = false <->
  ((forall v, In v us -> oprofile_eqb (find s v) (find s' v) = false ->
      exists actor level, authenticate (required_for c (r_op r)) (resolve c (r_cred r)) = Some (actor, level) /\
                          may_act (r_adm r) actor level v (r_op r)) /\
   (obs = ROk ->
      exists actor level, authenticate (required_for c (r_op r)) (resolve c (r_cred r)) = Some (actor, level) /\
                          ok_allowed_P c r actor level)).
Proof. exact cell_violating_false_iff. Qed.

(* The SECOND endpoint that issues role-requesting certificates, /v1/refreshRoleRequestingCert (renewal by the
   holder; Model/Authz.v refresh_step).  For every configuration, stored profiles and request — any credential,
   any form: [r_target r] is the form's "identity" value (absent, the holder's own name, another configured
   automation identity by name or by group, an administrator's or automation administrator's name, an unknown
   name), it does not occur in the conclusion — a 2xx means: the request was authenticated by an IP-restricted
   certificate (no session, no keymaster user certificate), the issued certificate names the CN of that
   certificate (= the authenticated actor), that CN is a non-empty configured automation identity, the
   request was a POST, and no stored profile changed. *)
Theorem c08_refresh_identity_is_own : forall c s r,
  snd (fst (refresh_step c s r)) = ROk ->
  exists actor,
    resolve c (r_cred r) = IPCert actor /\
    authenticate_ip refresh_required (resolve c (r_cred r)) = Some (actor, bIPCert) /\
    snd (refresh_step c s r) = Some actor /\
    actor <> [] /\
    is_automation_identity c actor (r_dir_target r) /\
    r_post r = true /\
    fst (fst (refresh_step c s r)) = s.
Proof. exact refresh_identity_is_own. Qed.

(* "Automation certificates can be minted only by an administrator or automation administrator", over BOTH
   endpoints: a role-requesting certificate for identity B issued by either path ([rolecert_issue]) went to an
   administrator / automation administrator asking for the configured automation identity B (minting endpoint),
   or to the holder of a valid IP-restricted certificate for B itself (refresh endpoint: B = actor, a renewal
   by the holder, never a certificate for somebody else); the store is unchanged either way. *)
Theorem c08_rolecert_any_path : forall p c s r s' B,
  (p = ViaMint -> r_op r = RoleCert) ->
  rolecert_issue p c s r = (s', ROk, Some B) ->
  s' = s /\
  ((p = ViaMint /\ B = r_target r /\
    exists actor level,
      authenticate (required_for c RoleCert) (resolve c (r_cred r)) = Some (actor, level) /\
      (r_adm r = true \/ In actor (automation_admins c)) /\
      is_automation_identity c B (r_dir_target r)) \/
   (p = ViaRefresh /\ resolve c (r_cred r) = IPCert B /\
    authenticate_ip refresh_required (resolve c (r_cred r)) = Some (B, bIPCert) /\
    is_automation_identity c B (r_dir_target r))).
Proof. exact rolecert_any_path. Qed.

(* a refresh endpoint that takes the identity from the form when there is one ([refresh_honours_form], NOT the
   server's code) violates the statement: automation identity role1 — neither administrator nor automation
   administrator — presents its own certificate and obtains a certificate for role2; the server's function
   gives it role1 on the same request *)
Theorem c08_refresh_form_identity_refuted :
  exists c s r actor B,
    resolve c (r_cred r) = IPCert actor /\ r_adm r = false /\ ~ In actor (automation_admins c) /\ ~ In actor (admin_users c) /\
    B <> actor /\
    refresh_honours_form c s r = (s, ROk, Some B) /\
    refresh_step c s r = (s, ROk, Some actor).
Proof. exact refresh_form_identity_refuted. Qed.

(* the predicate on the OBSERVATION of a refresh cell (response class, CN of the returned certificate, rows
   afterwards): off exactly when no row differs and a success is "the holder of the presented IP-restricted
   certificate got a certificate for its own CN" — the conclusion of c08_refresh_identity_is_own *)
Theorem c08_obs_refresh_cell_is_spec : forall c us s r obs issued s',
  refresh_cell_violating c us s r obs issued s' = false <->
  ((forall v, In v us -> oprofile_eqb (find s v) (find s' v) = true) /\
   (obs = ROk -> exists actor, resolve c (r_cred r) = IPCert actor /\ issued = Some actor)).
Proof. exact refresh_cell_violating_false_iff. Qed.

(* ---- non-vacuity ---- *)

Definition u_alice : name := [97; 108; 105; 99; 101]%N.      (* "alice" *)
Definition u_Alice : name := [65; 108; 105; 99; 101]%N.      (* "Alice": another account when normalisation is off *)
Definition u_bob : name := [98; 111; 98]%N.
Definition u_admin : name := [97; 100; 109; 105; 110]%N.
Definition u_autoadm : name := [97; 117; 116; 111; 97; 100; 109]%N.
Definition u_svc : name := [115; 118; 99]%N.
Definition u_gadmin : name := [103; 97; 100; 109; 105; 110]%N.

Definition ex_cfg : cfg :=
  {| admin_users := [u_admin]; admin_groups := [50%N]; automation_users := [u_svc];
     automation_user_groups := [51%N]; automation_admins := [u_autoadm];
     webui_required := N.lor bPassword (N.lor bU2F bTOTP); disable_normalisation := false |}.
Definition ex_cfg_cs : cfg :=
  {| admin_users := [u_admin]; admin_groups := [50%N]; automation_users := [u_svc];
     automation_user_groups := [51%N]; automation_admins := [u_autoadm];
     webui_required := N.lor bPassword (N.lor bU2F bTOTP); disable_normalisation := true |}.

(* administrator with password+U2F may rename bob's token; with password+TOTP not *)
Example ex_admin_u2f_allowed :
  authorize ex_cfg true u_admin (N.lor bPassword bU2F) u_bob (ManageTOTP Update) = Allow.
Proof. reflexivity. Qed.
Example ex_admin_totp_denied :
  authorize ex_cfg true u_admin (N.lor bPassword bTOTP) u_bob (ManageTOTP Update) = Deny.
Proof. reflexivity. Qed.
Example ex_plain_other_denied :
  authorize ex_cfg false u_alice (N.lor bPassword bU2F) u_bob (ManageU2F Delete) = Deny.
Proof. reflexivity. Qed.
Example ex_self_allowed :
  authorize ex_cfg false u_alice bPassword u_alice (ManageU2F Delete) = Allow.
Proof. reflexivity. Qed.
(* a name that differs in letter case only is somebody else *)
Example ex_case_variant_denied :
  authorize ex_cfg_cs false u_alice (N.lor bPassword bU2F) u_Alice (ManageU2F Delete) = Deny /\
  authorize ex_cfg_cs false u_Alice (N.lor bPassword bU2F) u_alice U2FRegBegin = Deny /\
  authorize ex_cfg_cs false u_Alice (N.lor bPassword bU2F) u_Alice U2FRegBegin = Allow.
Proof. repeat split. Qed.
Example ex_group_admin :
  raw_is_admin ex_cfg u_gadmin (Some [40%N; 50%N]) = Some true /\
  raw_is_admin ex_cfg u_gadmin (Some []) = Some false /\ raw_is_admin ex_cfg u_gadmin None = None.
Proof. repeat split. Qed.

Definition ex_store : store :=
  [(u_bob, {| p_u2f := []; p_wa := []; p_totp := [(0%Z, {| tk_name := TN 11; tk_enabled := true |})];
            p_regchal := false; p_pending_totp := false; p_wa_session := false;
            p_bootstrap := false; p_registered := true |})].
Definition ex_req (cr : cred) (adm : bool) : request :=
  {| r_cred := cr; r_post := true; r_op := ManageTOTP Delete; r_target := u_bob; r_index := Some 0%Z;
     r_name := 0; r_proof := PMalformed; r_adm := adm; r_dir_target := None; r_params_ok := false |}.
Example ex_step_allowed :
  step ex_cfg ex_store (ex_req (Session u_admin (N.lor bPassword bU2F)) true)
  = ([(u_bob, {| p_u2f := []; p_wa := []; p_totp := []; p_regchal := false; p_pending_totp := false;
               p_wa_session := false; p_bootstrap := false; p_registered := true |})], ROk).
Proof. reflexivity. Qed.
Example ex_step_denied :
  step ex_cfg ex_store (ex_req (Session u_admin (N.lor bPassword bTOTP)) true) = (ex_store, RDenied).
Proof. reflexivity. Qed.
(* logging in as "Bob": with normalisation the session is bob's own, without it is somebody else's *)
Example ex_login_spelling :
  let Bob : name := [66; 111; 98]%N in
  snd (step ex_cfg ex_store (ex_req (Login Bob bPassword) false)) = ROk /\
  step ex_cfg_cs ex_store (ex_req (Login Bob bPassword) false) = (ex_store, RDenied).
Proof. split; reflexivity. Qed.
Example ex_rolecert_ok :
  snd (step ex_cfg ex_store
        {| r_cred := KMCert u_autoadm; r_post := true; r_op := RoleCert; r_target := u_svc; r_index := None;
           r_name := 0; r_proof := PMalformed; r_adm := false; r_dir_target := Some [];
           r_params_ok := true |}) = ROk.
Proof. reflexivity. Qed.

(* "deploy.bot" is configured: the automation administrator gets a certificate for deploy.bot and for
   nothing that merely looks like it — deploy-bot, Deploy.bot, "deploy.bot " and deploy are other names *)
Definition u_deploy_dot_bot : name := [100; 101; 112; 108; 111; 121; 46; 98; 111; 116]%N.
Definition ex_cfg_dot : cfg :=
  {| admin_users := [u_admin]; admin_groups := [50%N]; automation_users := [u_deploy_dot_bot; u_svc];
     automation_user_groups := [51%N]; automation_admins := [u_autoadm];
     webui_required := N.lor bPassword (N.lor bU2F bTOTP); disable_normalisation := false |}.
Definition ex_rolecert_req (id : name) : request :=
  {| r_cred := KMCert u_autoadm; r_post := true; r_op := RoleCert; r_target := id; r_index := None;
     r_name := 0; r_proof := PMalformed; r_adm := false; r_dir_target := Some [52%N]; r_params_ok := true |}.
Example ex_rolecert_literal_identity :
  snd (step ex_cfg_dot ex_store (ex_rolecert_req u_deploy_dot_bot)) = ROk /\
  snd (step ex_cfg_dot ex_store (ex_rolecert_req [100; 101; 112; 108; 111; 121; 45; 98; 111; 116]%N)) = RBad /\
  snd (step ex_cfg_dot ex_store (ex_rolecert_req [68; 101; 112; 108; 111; 121; 46; 98; 111; 116]%N)) = RBad /\
  snd (step ex_cfg_dot ex_store (ex_rolecert_req (u_deploy_dot_bot ++ [32]%N))) = RBad /\
  snd (step ex_cfg_dot ex_store (ex_rolecert_req [100; 101; 112; 108; 111; 121]%N)) = RBad.
Proof. repeat split. Qed.

(* the role memo: an automation administrator asks for role certificates (answered yes) and is
   still no administrator a moment later; a memo shared between the two questions and keyed by
   the name alone would promote them *)
Definition ex_rq (k : rkind) (t : Z) : rkind * Z * Z * name * answer := (k, t, t, u_autoadm, Some []).
Example ex_roles_separate :
  ranswers five_minutes (Some []) (map (role_query ex_cfg) [ex_rq KAutoAdmin 10; ex_rq KAdmin 20; ex_rq KAutoAdmin 30; ex_rq KAdmin 40])
  = [true; false; true; false] /\
  ranswers_shared five_minutes (Some []) (map (role_query ex_cfg) [ex_rq KAutoAdmin 10; ex_rq KAdmin 20])
  = [true; true].
Proof. vm_compute. split; reflexivity. Qed.

(* the refresh endpoint: the holder renews its own certificate, whatever the form names; a session, a keymaster
   user certificate and no credential are refused *)
Example ex_refresh_own_whatever_form :
  refresh_step rf_cfg [] (rf_req []) = ([], ROk, Some rf_role1) /\
  refresh_step rf_cfg [] (rf_req rf_role2) = ([], ROk, Some rf_role1) /\
  refresh_step rf_cfg [] (rf_req u_admin) = ([], ROk, Some rf_role1) /\
  snd (fst (refresh_step rf_cfg [] {| r_cred := Session rf_role1 (N.lor bPassword bU2F); r_post := true; r_op := RoleCert; r_target := rf_role2;
        r_index := None; r_name := 0; r_proof := PGood; r_adm := false; r_dir_target := Some []; r_params_ok := true |})) = RDenied /\
  snd (fst (refresh_step rf_cfg [] {| r_cred := KMCert u_admin; r_post := true; r_op := RoleCert; r_target := rf_role2;
        r_index := None; r_name := 0; r_proof := PGood; r_adm := true; r_dir_target := Some []; r_params_ok := true |})) = RDenied.
Proof. vm_compute. repeat split. Qed.
