(* C08 — users manage only themselves; administration needs admin rights (+ U2F).

   Statement (properties.jsonl): an authenticated user can view and change only their own
   profile and second-factor tokens.  Listing, adding and deleting users, viewing another user's
   profile and issuing bootstrap OTPs require an administrator (by configured name or group,
   re-evaluated at least every five minutes while the directory answers); changing or registering
   another user's tokens additionally requires the administrator's own session to carry a
   hardware-token factor.  Automation certificates can be minted only by an administrator or
   automation administrator and only for configured automation identities. *)
From KM Require Import Base.Tactics Model.Auth Model.Authz Model.AdminCache Proofs.Authz Proofs.AdminCache.
Import ListNotations.

(* every authorization test: allowed means own data, or administrator (and a U2F session
   unless the operation is plain user administration / viewing) *)
Theorem c08_self_or_admin : forall c adm actor level target o,
  o <> RoleCert ->
  authorize c adm actor level target o = Allow ->
  may_act adm actor level (effective_target actor target o) o.
Proof. exact authorize_sound. Qed.

Theorem c08_admin_only : forall c adm actor level target o,
  user_admin_op o = true \/ (o = ViewProfile /\ target <> 0%N) ->
  authorize c adm actor level target o = Allow -> adm = true.
Proof. exact admin_only. Qed.

Theorem c08_other_tokens_need_u2f : forall c adm actor level target o,
  token_op o = true ->
  effective_target actor target o <> actor ->
  authorize c adm actor level target o = Allow ->
  adm = true /\ hasb level bU2F = true.
Proof. exact other_tokens_need_u2f. Qed.

(* what "administrator" means for a fresh evaluation: configured name, or member of a
   configured group according to the directory's answer *)
Theorem c08_admin_by_config : forall c u dir,
  raw_is_admin c u dir = Some true <-> is_admin_by_config c u dir.
Proof. exact raw_is_admin_true. Qed.

Theorem c08_rolecert : forall c s r,
  r_op r = RoleCert -> snd (step c s r) = ROk ->
  exists actor level,
    authenticate (required_for c RoleCert) (r_cred r) = Some (actor, level) /\
    (r_adm r = true \/ In actor (automation_admins c)) /\
    is_automation_identity c (r_target r) (r_dir_target r) /\
    fst (step c s r) = s.
Proof. exact rolecert_sound. Qed.

(* a success response (the page with somebody's profile, the user list, a changed token) is
   only ever produced for an authenticated request that passed its handler's test *)
Theorem c08_ok_authorized : forall c s r,
  snd (step c s r) = ROk ->
  exists actor level,
    authenticate (required_for c (r_op r)) (r_cred r) = Some (actor, level) /\
    authorize c (r_adm r) actor level (r_target r) (r_op r) = Allow.
Proof. exact ok_authorized. Qed.

(* a request that is not authenticated, or that its handler's test refuses, leaves every stored
   profile unchanged and is not answered with a success *)
Theorem c08_profile_untouched : forall c s r,
  authenticate (required_for c (r_op r)) (r_cred r) = None \/
  (exists actor level,
     authenticate (required_for c (r_op r)) (r_cred r) = Some (actor, level) /\
     authorize c (r_adm r) actor level (r_target r) (r_op r) = Deny) ->
  fst (step c s r) = s /\ snd (step c s r) <> ROk.
Proof.
  intros c s r [H|[actor [level [Ha Hd]]]].
  - rewrite (unauthenticated_denied c s r H). split; [reflexivity|discriminate].
  - exact (deny_untouched c s r actor level Ha Hd).
Qed.

Theorem c08_failure_untouched : forall c s r,
  snd (step c s r) <> ROk -> fst (step c s r) = s.
Proof. exact not_ok_untouched. Qed.

(* an allowed request touches the row of its effective target only *)
Theorem c08_only_target_changes : forall c s r actor level u,
  authenticate (required_for c (r_op r)) (r_cred r) = Some (actor, level) ->
  u <> effective_target actor (r_target r) (r_op r) ->
  find (fst (step c s r)) u = find s u.
Proof. exact only_target_changes. Qed.

(* over histories of any length: if v's stored profile differs afterwards, one of the requests
   was v's own, or an administrator's (with the U2F factor for token operations) *)
Theorem c08_history : forall c reqs s v,
  find (run c s reqs) v <> find s v ->
  exists r actor level,
    In r reqs /\
    authenticate (required_for c (r_op r)) (r_cred r) = Some (actor, level) /\
    may_act (r_adm r) actor level v (r_op r).
Proof. exact history_sound. Qed.

(* ---- the five-minute memo of the admin verdict ---- *)

(* one query of a trace: the clock readings, the user, and what the directory would answer *)
Definition trace_query (c : cfg) (x : Z * Z * N * answer) : query :=
  let '(t, tp, u, ans) := x in
  {| q_t := t; q_tp := tp; q_user := u; q_raw := raw_is_admin c u ans |}.

Lemma five_minutes_in_range : (min_dur < five_minutes <= max_dur)%Z.
Proof. unfold min_dur, max_dur, five_minutes. lia. Qed.

(* every verdict of every trace is justified: the directory says so now; or less than five
   minutes ago the same verdict was given while the directory said so, or while it was failing;
   or it fails now and the previous verdict (or a refusal) is repeated *)
Theorem c08_cache : forall c c0 trace,
  c0 = None \/ c0 = Some [] ->
  all_justified five_minutes (snd (hrun five_minutes c0 (map (trace_query c) trace))).
Proof.
  intros c c0 trace H0. apply cache_justified; [exact five_minutes_in_range|exact H0].
Qed.

(* "re-evaluated at least every five minutes while the directory answers": if all queries about
   the user during the last five minutes (this one included) found the directory answering a,
   the verdict is a *)
Theorem c08_cache_window : forall c c0 trace pre o post a,
  c0 = None \/ c0 = Some [] ->
  snd (hrun five_minutes c0 (map (trace_query c) trace)) = pre ++ o :: post ->
  q_raw (o_q o) = Some a ->
  (forall o', In o' post -> q_user (o_q o') = q_user (o_q o) ->
              (q_t (o_q o) - q_tp (o_q o') < five_minutes)%Z -> q_raw (o_q o') = Some a) ->
  o_v o = a.
Proof.
  intros c c0 trace pre o post a H0 Hsplit Hnow Hall.
  pose proof (c08_cache c c0 trace H0) as Hj.
  apply (justified_window five_minutes post (o_q o) (o_v o) a); try assumption.
  apply (all_justified_in five_minutes _ Hj pre o post Hsplit).
Qed.

(* nobody is ever treated as administrator without the configuration / directory having said so
   at this or an earlier query about the same user *)
Theorem c08_cache_granted_has_source : forall c c0 trace o,
  c0 = None \/ c0 = Some [] ->
  In o (snd (hrun five_minutes c0 (map (trace_query c) trace))) -> o_v o = true ->
  exists o2, In o2 (snd (hrun five_minutes c0 (map (trace_query c) trace))) /\
             q_user (o_q o2) = q_user (o_q o) /\ q_raw (o_q o2) = Some true.
Proof.
  intros c c0 trace o H0 Hin Hv.
  exact (granted_has_source five_minutes _ (c08_cache c c0 trace H0) o Hin Hv).
Qed.

(* ---- non-vacuity ---- *)

Definition ex_cfg : cfg :=
  {| admin_users := [7%N]; admin_groups := [50%N]; automation_users := [30%N];
     automation_user_groups := [51%N]; automation_admins := [9%N];
     webui_required := N.lor bPassword (N.lor bU2F bTOTP) |}.

(* administrator 7 with password+U2F may rename user 2's token; with password+TOTP not *)
Example ex_admin_u2f_allowed :
  authorize ex_cfg true 7 (N.lor bPassword bU2F) 2 (ManageTOTP Update) = Allow.
Proof. reflexivity. Qed.
Example ex_admin_totp_denied :
  authorize ex_cfg true 7 (N.lor bPassword bTOTP) 2 (ManageTOTP Update) = Deny.
Proof. reflexivity. Qed.
Example ex_plain_other_denied :
  authorize ex_cfg false 1 (N.lor bPassword bU2F) 2 (ManageU2F Delete) = Deny.
Proof. reflexivity. Qed.
Example ex_self_allowed :
  authorize ex_cfg false 1 bPassword 1 (ManageU2F Delete) = Allow.
Proof. reflexivity. Qed.
Example ex_group_admin :
  raw_is_admin ex_cfg 3 (Some [40%N; 50%N]) = Some true /\
  raw_is_admin ex_cfg 3 (Some []) = Some false /\ raw_is_admin ex_cfg 3 None = None.
Proof. repeat split. Qed.

Definition ex_store : store :=
  [(2%N, {| p_u2f := []; p_wa := []; p_totp := [(0%Z, {| tk_name := 11; tk_enabled := true |})];
            p_regchal := false; p_pending_totp := false; p_wa_session := false;
            p_bootstrap := false; p_registered := true |})].
Definition ex_req (cr : cred) (adm : bool) : request :=
  {| r_cred := cr; r_post := true; r_op := ManageTOTP Delete; r_target := 2; r_index := Some 0%Z;
     r_name := 0; r_proof := PMalformed; r_adm := adm; r_dir_target := None; r_params_ok := false |}.
Example ex_step_allowed :
  step ex_cfg ex_store (ex_req (Session 7 (N.lor bPassword bU2F)) true)
  = ([(2%N, {| p_u2f := []; p_wa := []; p_totp := []; p_regchal := false; p_pending_totp := false;
               p_wa_session := false; p_bootstrap := false; p_registered := true |})], ROk).
Proof. reflexivity. Qed.
Example ex_step_denied :
  step ex_cfg ex_store (ex_req (Session 7 (N.lor bPassword bTOTP)) true) = (ex_store, RDenied).
Proof. reflexivity. Qed.
Example ex_rolecert_ok :
  snd (step ex_cfg ex_store
        {| r_cred := KMCert 9; r_post := true; r_op := RoleCert; r_target := 30; r_index := None;
           r_name := 0; r_proof := PMalformed; r_adm := false; r_dir_target := Some [];
           r_params_ok := true |}) = ROk.
Proof. reflexivity. Qed.
