(* C12 — OpenID tokens go only to the right client and name the right user.
   Model: Model/OIDC.v authorize / token_endpoint / exec / valid, Model/Tokens.v c_userinfo. *)
From Coq Require Import String ZArith NArith List Bool.
From KM Require Import Base.Bytes Model.Tokens Model.OIDC Proofs.Tokens Proofs.OIDC Proofs.OIDCKeys Proofs.OIDCAudience.
Import ListNotations.
Open Scope Z_scope.

(* One request, any server, any clients, any clock, any parameters: tokens are released only if the
   code is a genuine one, the caller is a configured client that proved its identity - by its
   secret, or (secret-less clients only) by the PKCE verifier matching the challenge sealed into
   this code -, the code was issued to that client, has not expired, the redirect URI is the one
   bound into it and it is of the authorization-code kind; what is released is built from the code. *)
Theorem c12_release_sound : forall i now r idt act, token_endpoint i now r = Release idt act ->
  exists k c, verify (srv i) (tr_code r) = true /\ dec_code (t_claims (tr_code r)) = Some k /\
    find_client (fst (presented_creds r)) (clients i) = Some c /\
    client_authenticated c k r /\ c_sub k = fst (presented_creds r) /\ unix now <= c_exp k /\
    c_redirect k = tr_redirect r /\ c_type k = k_code /\
    idt = p_id (srv i) now (fst (presented_creds r)) k /\ act = p_access (srv i) now k.
Proof. exact token_release_sound. Qed.

(* Histories of any length, any interleaving of logins, CLI tokens, storage writes, authorization
   requests, token requests, userinfo calls and cookie upgrades, by any users; the only constraint
   is symbolic unforgeability ([valid]: a presented token that verifies was emitted earlier).
   Whenever the token endpoint releases tokens there was an EARLIER authorization step at which
   user u was logged in, for the client that now authenticated (secret, or PKCE against the challenge
   sent at that step), with the same redirect URI, at most 300 s ago; and the ID token says:
   issuer = this server, subject = u, sole audience = that client, nonce echoed,
   expiry = authorization time + 16 h, signed by the server's signing key. *)
Theorem c12_idtoken : forall i pre now r post idt act,
  valid i [] (pre ++ OToken now r :: post) -> token_endpoint i now r = Release idt act ->
  exists t_a u a c,
    In (OAuthorize t_a u a) pre /\ authorize i t_a u a = Some (tr_code r) /\
    fst (presented_creds r) = ar_client a /\ find_client (ar_client a) (clients i) = Some c /\
    authenticated_for c a r /\ tr_redirect r = ar_redirect a /\ unix now <= unix t_a + 300 /\
    dec_id (t_claims idt) = Some {| i_iss := s_issuer (srv i); i_sub := u; i_aud := [ar_client a];
                                    i_exp := unix t_a + 16 * 3600; i_iat := unix now; i_nonce := ar_nonce a |} /\
    t_signer idt = s_signer (srv i) /\ t_alg idt = s_signer_alg (srv i) /\ t_tampered idt = false /\
    (exists x, dec_access (t_claims act) = Some x /\ x_username x = u /\ x_exp x = unix t_a + 16 * 3600 /\
               x_type x = k_access /\ x_iss x = s_issuer (srv i)).
Proof.
  intros i pre now r post idt act V R.
  destruct (release_origin _ _ _ _ _ _ _ V R) as [t_a [u [a [c [IN [A [F [FC [AU [RED [EXP [-> ->]]]]]]]]]]]].
  exists t_a, u, a, c. repeat split; auto.
  eexists. split; [unfold p_access, sign; cbn [t_claims]; apply dec_enc_access|]. cbn. auto.
Qed.

(* userinfo answers u exactly for a genuine, unexpired bearer token of this issuer whose audience
   list is empty or contains the userinfo URL, and u is the token's username ... *)
Theorem c12_userinfo : forall st now t u, c_userinfo st now t = Some u ->
  genuine st t /\ rd_str "type" (t_claims t) = Some k_access /\ rd_str "iss" (t_claims t) = Some (s_issuer st) /\
  (exists e, rd_int "exp" (t_claims t) = Some e /\ unix now <= e) /\
  (exists aud, rd_list "aud" (t_claims t) = Some aud /\ (aud = [] \/ In (s_userinfo st) aud)) /\
  rd_str "username" (t_claims t) = Some u.
Proof. exact c_userinfo_sound. Qed.

(* ... and in every history such an answer goes back to a token release for a code minted while
   that same user u was logged in at the authorization step. *)
Theorem c12_userinfo_origin : forall i pre now t post u,
  valid i [] (pre ++ OUserinfo now t :: post) -> c_userinfo (srv i) now t = Some u ->
  exists pre1 t_r r post1 idt t_a a,
    pre = pre1 ++ OToken t_r r :: post1 /\ token_endpoint i t_r r = Release idt t /\
    In (OAuthorize t_a u a) pre1 /\ authorize i t_a u a = Some (tr_code r).
Proof. exact userinfo_origin. Qed.

(* Nothing but an access token works at userinfo: session cookies, CLI tokens, storage records,
   authorization codes and ID tokens are refused, whatever their parameters. *)
Theorem c12_nothing_else : forall i t_issue now a,
  kind_of a <> KAccess -> c_userinfo (srv i) now (emit (srv i) t_issue a) = None.
Proof.
  intros i t_issue now a NE.
  pose proof (accepts_matrix i t_issue now a CUserinfo NE) as M.
  unfold accepts in M. cbn [op_of exec] in M.
  destruct (c_userinfo (srv i) now (emit (srv i) t_issue a)); [discriminate M|reflexivity].
Qed.

(* the configuration of the witnesses below: client A with a secret (it may choose audiences), client B
   secret-less, RSA signer *)
Definition idp0 : idp :=
  {| srv := srv0; clients := [ {| cl_id := b "clientA"; cl_secret := b "secretA"; cl_allow_aud := true; cl_other := [] |};
                               {| cl_id := b "clientB"; cl_secret := []; cl_allow_aud := false; cl_other := [] |} ] |}.

(* ---------------------------------------------------------------- redirect_uri at the token endpoint *)

(* A token request whose redirect_uri is absent or empty (r.Form.Get gives "" for both) is refused
   with 400, whoever sends it and however it authenticates - with c12_release_sound: tokens are
   released only with a non-empty redirect URI equal to the one bound into the code. *)
Theorem c12_redirect_required : forall i now r, tr_redirect r = [] -> token_endpoint i now r = Refuse 400.
Proof. exact redirect_required. Qed.

(* NOT the code: were redirect_uri optional for requests that carry a code_verifier, a secret-less
   client with the right verifier would get tokens without naming the redirect URI the code is
   bound to. *)
Theorem c12_optional_redirect_refuted : exists i now r idt act k,
  token_endpoint_gen true i now r = Release idt act /\ dec_code (t_claims (tr_code r)) = Some k /\
  c_redirect k <> tr_redirect r /\ token_endpoint i now r = Refuse 400.
Proof.
  pose (code := p_code srv0 (1000 * NS) (b "clientB") (b "alice") (b "openid") (b "https://a.example/cb") (b "nonce123")
                       (b "jti") (b "HASH") m_S256 []).
  pose (r := treq_w code [] None (b "clientB") (b "verifier") (b "HASH")).
  destruct (token_endpoint_gen true idp0 (1010 * NS) r) as [idt act|s] eqn:E; [|vm_compute in E; discriminate E].
  exists idp0, (1010 * NS), r, idt, act. eexists. split; [exact E|].
  split; [unfold r, treq_w, code, p_code, sign; cbn [tr_code t_claims]; apply dec_enc_code|].
  split; [cbn; discriminate|]. vm_compute. reflexivity.
Qed.

(* ---------------------------------------------------------------- signers and the JWKS *)

(* Whatever key files the daemon started with - an RSA signer of any size, a P-256, P-384 or P-521
   signer, with or without an Ed25519 SSH CA next to it, with any list of sibling public keys -:
   every ID token the token endpoint releases is signed by the signer with the algorithm preferred
   for its key type, its kid names an entry of the JWKS with that key type, and it verifies under
   the JWKS (so does the access token, and userinfo's own verification accepts it). *)
Theorem c12_idtoken_under_jwks : forall iss ui kc keys cls now r idt act,
  load kc = Some keys ->
  token_endpoint {| srv := server_of iss ui keys (kc_signer kc); clients := cls |} now r = Release idt act ->
  under_jwks (jwks_of keys) idt = true /\ under_jwks (jwks_of keys) act = true /\
  In (t_signer idt, pk_type (kc_signer kc)) (jwks_of keys) /\
  t_signer idt = pk_id (kc_signer kc) /\ t_alg idt = alg_of (pk_type (kc_signer kc)) /\ t_tampered idt = false /\
  verify (server_of iss ui keys (kc_signer kc)) act = true.
Proof. exact released_under_jwks. Qed.

(* The statement's ID-token sentence in one piece, for histories of any length against a daemon started
   with any key files the model covers: a release goes back to an earlier authorization step of user u for the
   client that now authenticated; the ID token names this issuer, u, that client alone, echoes the nonce,
   expires 16 h after that step, and verifies under the JWKS the daemon publishes. *)
Theorem c12_idtoken_complete : forall iss ui kc keys cls pre now r post idt act,
  load kc = Some keys ->
  let i := {| srv := server_of iss ui keys (kc_signer kc); clients := cls |} in
  valid i [] (pre ++ OToken now r :: post) -> token_endpoint i now r = Release idt act ->
  exists t_a u a,
    In (OAuthorize t_a u a) pre /\ authorize i t_a u a = Some (tr_code r) /\
    fst (presented_creds r) = ar_client a /\ tr_redirect r = ar_redirect a /\ tr_redirect r <> [] /\
    unix now <= unix t_a + 300 /\
    dec_id (t_claims idt) = Some {| i_iss := iss; i_sub := u; i_aud := [ar_client a];
                                    i_exp := unix t_a + 16 * 3600; i_iat := unix now; i_nonce := ar_nonce a |} /\
    under_jwks (jwks_of keys) idt = true.
Proof.
  intros iss ui kc keys cls pre now r post idt act L i V R.
  destruct (c12_idtoken _ _ _ _ _ _ _ V R) as [t_a [u [a [c [IN [A [F [_ [_ [RED [EXP [D _]]]]]]]]]]]].
  destruct (c12_idtoken_under_jwks _ _ _ _ _ _ _ _ _ L R) as [J _].
  exists t_a, u, a. repeat split; auto.
  intro E. pose proof (c12_redirect_required i now r E) as X. rewrite R in X. discriminate X.
Qed.

(* The JWKS publishes every loaded key, whatever its type: the signer, the Ed25519 CA, each key of
   the file; nothing else. *)
Theorem c12_jwks_all_keys : forall kc keys, load kc = Some keys ->
  In (pk_id (kc_signer kc), pk_type (kc_signer kc)) (jwks_of keys) /\
  (forall e, kc_ed kc = Some e -> In (pk_id e, KEd25519) (jwks_of keys)) /\
  (forall k, In k (kc_file kc) -> In (pk_id k, pk_type k) (jwks_of keys)) /\
  length (jwks_of keys) = length keys.
Proof.
  intros kc keys L. apply load_sound in L. destruct L as [_ [S [E F]]].
  split; [apply jwks_complete; exact S|]. split.
  - intros e He. destruct (E e He) as [T I]. rewrite <- T. apply jwks_complete. exact I.
  - split; [intros k Hk; apply jwks_complete; auto|apply jwks_length].
Qed.

(* NOT the code: a JWKS restricted to the algorithms the discovery document advertises.  The daemon
   starts with a P-521 signer, releases an ID token signed ES512, and that token verifies under no
   published key. *)
Theorem c12_filtered_jwks_refuted : exists kc keys idt,
  load kc = Some keys /\ idt_p521 = Some idt /\
  under_jwks (jwks_of keys) idt = true /\ under_jwks (jwks_filtered keys) idt = false.
Proof.
  exists kc_p521, keys_p521. destruct idt_p521 as [idt|] eqn:E; [|vm_compute in E; discriminate E].
  exists idt. split; [reflexivity|]. split; [reflexivity|].
  vm_compute in E. inversion E. subst idt. vm_compute. split; reflexivity.
Qed.

(* id_token_signing_alg_values_supported (RS256, ES256, ES384) names the algorithm of every released
   ID token when the signer is an RSA, P-256 or P-384 key ... *)
Theorem c12_alg_advertised : forall iss ui kc keys cls now r idt act,
  load kc = Some keys -> pk_type (kc_signer kc) <> KP521 ->
  token_endpoint {| srv := server_of iss ui keys (kc_signer kc); clients := cls |} now r = Release idt act ->
  advertised (t_alg idt) = true.
Proof. exact released_alg_advertised. Qed.

(* ... and not with a P-521 signer, which the daemon accepts: its ID tokens are signed ES512.
   (Outside the statement of C12; recorded as an observation in docs/notes/C12.md.) *)
Theorem c12_alg_not_advertised_p521 : exists kc keys idt,
  load kc = Some keys /\ idt_p521 = Some idt /\ advertised (t_alg idt) = false.
Proof.
  exists kc_p521, keys_p521. destruct idt_p521 as [idt|] eqn:E; [|vm_compute in E; discriminate E].
  exists idt. split; [reflexivity|]. split; [reflexivity|].
  vm_compute in E. inversion E. reflexivity.
Qed.

(* PKCE needs RSA keys (encryptWithPublicKeys / decryptWithPublicKeys handle nothing else): a
   challenge is sealed into a code only if some loaded key is an RSA key, and a request carrying a
   code_verifier is served only if the signer itself is an RSA key.  With an ECDSA signer only the
   client-secret flow releases tokens. *)
Theorem c12_pkce_needs_rsa : forall i,
  (forall now u a t, authorize i now u a = Some t -> ar_challenge a <> [] -> can_seal (srv i) = true) /\
  (forall now r idt act, token_endpoint i now r = Release idt act -> tr_verifier r <> [] -> can_open (srv i) = true).
Proof. intro i. split; [apply authorize_seal_needs_rsa|apply pkce_release_needs_rsa]. Qed.

(* the access token of every release passes userinfo's audience rule: its audience list is empty or
   ends with the userinfo URL *)
Theorem c12_access_audience : forall i now r idt act, token_endpoint i now r = Release idt act ->
  exists x, dec_access (t_claims act) = Some x /\ (x_aud x = [] \/ In (s_userinfo (srv i)) (x_aud x)).
Proof.
  intros i now r idt act R. apply token_release_sound in R.
  destruct R as [k [c [_ [_ [_ [_ [_ [_ [_ [_ [_ ->]]]]]]]]]]].
  eexists. split; [unfold p_access, sign; cbn [t_claims]; apply dec_enc_access|]. cbn [x_aud].
  destruct (c_access_aud k) as [|a l]; [left; reflexivity|right]. apply in_or_app. right. left. reflexivity.
Qed.

(* ---------------------------------------------------------------- non-vacuity: both flows release *)

Definition areq0 (client chal meth : bs) : areq :=
  {| ar_method_ok := true; ar_response_type := rt_code; ar_client := client; ar_scope := b "openid";
     ar_scope_openid := true; ar_redirect := b "https://a.example/cb"; ar_redirect_ok := true;
     ar_challenge := chal; ar_method := meth; ar_audience := []; ar_audience_ok := false;
     ar_nonce := b "nonce123"; ar_jti := b "jti" |}.

Definition treq0 (code : token) (basic : option (bs * bs)) (fc verifier vhash : bs) : treq :=
  {| tr_conn := conn_none; tr_post := true; tr_grant := gt_authcode; tr_redirect := b "https://a.example/cb"; tr_code := code;
     tr_verifier := verifier; tr_vhash := vhash; tr_basic := basic; tr_form_client := fc; tr_form_secret := [] |}.

Definition is_release (r : tresult) : bool := match r with Release _ _ => true | Refuse _ => false end.

Example c12_flows :
  (* client A, secret in the Authorization header *)
  (match authorize idp0 (1000 * NS) (b "alice") (areq0 (b "clientA") [] []) with
   | Some code => is_release (token_endpoint idp0 (1010 * NS) (treq0 code (Some (b "clientA", b "secretA")) [] [] []))
   | None => false end) = true /\
  (* client B, PKCE S256: the hash of the verifier equals the challenge *)
  (match authorize idp0 (1000 * NS) (b "alice") (areq0 (b "clientB") (b "HASH") m_S256) with
   | Some code => is_release (token_endpoint idp0 (1010 * NS) (treq0 code None (b "clientB") (b "verifier") (b "HASH")))
   | None => false end) = true /\
  (* client B with a wrong verifier, client A presenting client B's code: refused *)
  (match authorize idp0 (1000 * NS) (b "alice") (areq0 (b "clientB") (b "HASH") m_S256) with
   | Some code => is_release (token_endpoint idp0 (1010 * NS) (treq0 code None (b "clientB") (b "other") (b "HSAH")))
                  || is_release (token_endpoint idp0 (1010 * NS) (treq0 code (Some (b "clientA", b "secretA")) [] [] []))
   | None => true end) = false.
Proof. vm_compute. repeat split; reflexivity. Qed.

(* ---------------------------------------------------------------- the audience parameter of the authorization request *)

(* "That client as SOLE audience", for every server, client list, clock and token request - whatever
   the code carries, in particular whatever access_audience the authorization step bound into it for a
   client with allow_client_chose_audiences: the ID token of a release has exactly the seven members of
   openIDConnectIDToken (iss, sub, aud, exp, iat, auth_time, nonce; nothing that could name a further
   party), and its "aud" member is the one-element list holding the client id the caller
   authenticated as. *)
Theorem c12_idtoken_sole_audience : forall i now r idt act, token_endpoint i now r = Release idt act ->
  map fst (t_claims idt) = ["iss"; "sub"; "aud"; "exp"; "iat"; "auth_time"; "nonce"]%string /\
  lookup "aud" (t_claims idt) = Some (VList [fst (presented_creds r)]).
Proof. exact idtoken_sole_audience. Qed.

(* The audience parameter is invisible in the ID token: for every server, every client configuration
   (allow_client_chose_audiences or not), every user, instant and authorization request [a], every
   other value [aud] of the audience parameter (absent, under the client's domains or not: [ok] is
   CorsOriginAllowed's verdict), and EVERY token request [r] - if both authorization requests are
   accepted, then presenting the one code or the other gets the same verdict from the token endpoint
   (released / refused with the same status), and on release the two ID tokens are equal. *)
Theorem c12_idtoken_ignores_audience : forall i t_a u a aud ok code1 code2 now r,
  authorize i t_a u a = Some code1 -> authorize i t_a u (with_audience a aud ok) = Some code2 ->
  match token_endpoint i now (with_code r code1), token_endpoint i now (with_code r code2) with
  | Release idt1 _, Release idt2 _ => idt1 = idt2
  | Refuse s1, Refuse s2 => s1 = s2
  | _, _ => False
  end.
Proof. exact idtoken_ignores_audience. Qed.

(* What the parameter does change, in histories of any length: the ACCESS token's audience list is
   empty when the authorization request named no audience, otherwise exactly [the first value of the
   parameter; the userinfo URL] - and then the client is configured with allow_client_chose_audiences
   and CorsOriginAllowed accepted that value.  The ID token names the client alone in both cases. *)
Theorem c12_audience_chosen : forall i pre now r post idt act,
  valid i [] (pre ++ OToken now r :: post) -> token_endpoint i now r = Release idt act ->
  exists t_a u a c x,
    In (OAuthorize t_a u a) pre /\ authorize i t_a u a = Some (tr_code r) /\
    fst (presented_creds r) = ar_client a /\ find_client (ar_client a) (clients i) = Some c /\
    lookup "aud" (t_claims idt) = Some (VList [ar_client a]) /\
    dec_access (t_claims act) = Some x /\
    x_aud x = (if nonempty (ar_audience a) then [ar_audience a; s_userinfo (srv i)] else []) /\
    (ar_audience a <> [] -> cl_allow_aud c = true /\ ar_audience_ok a = true).
Proof. exact release_audiences. Qed.

(* NOT the code: a token handler that copies the code's access_audience into the ID token as well
   (OIDC.p_id_widened: the "aud MAY contain other audiences" reading of OpenID Connect Core).  With a
   client that may choose audiences the ID token then names a second party. *)
Theorem c12_widened_idtoken_refuted : exists i t_a u a code now r idt act k,
  authorize i t_a u a = Some code /\ token_endpoint i now (with_code r code) = Release idt act /\
  dec_code (t_claims code) = Some k /\
  lookup "aud" (t_claims idt) = Some (VList [ar_client a]) /\
  lookup "aud" (t_claims (p_id_widened (srv i) now (ar_client a) k)) <> Some (VList [ar_client a]).
Proof.
  pose (a := with_audience (areq0 (b "clientA") [] []) (b "https://api.a.example") true).
  pose (r := treq0 {| t_signer := 0%N; t_alg := 0%N; t_tampered := true; t_claims := [] |} (Some (b "clientA", b "secretA")) [] [] []).
  destruct (authorize idp0 (1000 * NS) (b "alice") a) as [code|] eqn:A; [|vm_compute in A; discriminate A].
  destruct (token_endpoint idp0 (1010 * NS) (with_code r code)) as [idt act|s] eqn:T;
    [|vm_compute in A; inversion A; subst code; vm_compute in T; discriminate T].
  exists idp0, (1000 * NS), (b "alice"), a, code, (1010 * NS), r, idt, act. eexists.
  split; [exact A|]. split; [exact T|].
  split; [apply (authorize_code _ _ _ _ _ A)|].
  split.
  - destruct (c12_idtoken_sole_audience _ _ _ _ _ T) as [_ L]. exact L.
  - vm_compute. discriminate.
Qed.

(* ---------------------------------------------------------------- the client's other options *)

(* A client that HAS a secret is authenticated by that secret and by nothing else: whenever tokens are
   released to a caller naming a configured client whose client_secret is non-empty, the secret the
   request shows (header first, else body) IS that secret and the request carries no code_verifier -
   for every value of every other option in the client's configuration entry ([cl_other c] and
   [cl_allow_aud c] are universally quantified with [i]). *)
Theorem c12_secret_client_needs_secret : forall i now r idt act c,
  token_endpoint i now r = Release idt act ->
  find_client (fst (presented_creds r)) (clients i) = Some c -> cl_secret c <> [] ->
  snd (presented_creds r) = cl_secret c /\ tr_verifier r = [].
Proof.
  intros i now r idt act c R F NE. apply token_release_sound in R.
  destruct R as [k [c' [_ [_ [F' [[[_ [V S]]|[E _]] _]]]]]]; rewrite F in F'; inversion F'; subst c'.
  - split; assumption.
  - contradiction.
Qed.

Lemma find_client_reopt f id l :
  find_client id (map (fun c => with_other c (f c)) l) = option_map (fun c => with_other c (f c)) (find_client id l).
Proof.
  induction l as [|c l IH]; [reflexivity|]. cbn [map find_client with_other cl_id].
  destruct (bs_eqb (cl_id c) id); [reflexivity|exact IH].
Qed.

(* The release decision, the released tokens and the authorization step do not depend on the other
   options: replacing them by ANY other values (per client: [f]) changes the answer of neither
   endpoint, for every daemon, clock and request. *)
Theorem c12_release_ignores_options : forall f i now,
  (forall r, token_endpoint (reopt f i) now r = token_endpoint i now r) /\
  (forall u a, authorize (reopt f i) now u a = authorize i now u a).
Proof.
  intros f i now. split.
  - intro r. unfold token_endpoint, token_endpoint_gen, reopt. cbn [srv clients].
    rewrite !andb_false_l. cbn [negb]. rewrite !andb_true_r.
    destruct (tr_post r); [|reflexivity]. cbn [negb].
    destruct (bs_eqb (tr_grant r) gt_authcode); [|reflexivity]. cbn [negb].
    destruct (nonempty (tr_redirect r)); [|reflexivity]. cbn [negb].
    destruct (verify (srv i) (tr_code r)); [|reflexivity]. cbn [negb].
    destruct (dec_code (t_claims (tr_code r))); [|reflexivity].
    destruct (caller r) as [[id pass]|s]; [|reflexivity].
    rewrite find_client_reopt. destruct (find_client id (clients i)) as [cc|]; reflexivity.
  - intros u a. unfold authorize, reopt. cbn [srv clients].
    rewrite find_client_reopt. destruct (find_client (ar_client a) (clients i)) as [cc|]; reflexivity.
Qed.

(* NOT the code: were there an option that admits a client WITH a secret to PKCE (the handler otherwise
   as it is), a caller showing no secret at all - only the verifier of the challenge that whoever started
   the flow chose - would get tokens for that client, where the code answers 401. *)
Theorem c12_pkce_option_refuted : exists i now r idt act c,
  token_endpoint_pkce_option i now r = Release idt act /\
  find_client (fst (presented_creds r)) (clients i) = Some c /\ cl_secret c <> [] /\
  snd (presented_creds r) <> cl_secret c /\ token_endpoint i now r = Refuse 401.
Proof.
  pose (i := reopt (fun _ => [(b "option", b "true")]) idp0).
  pose (code := p_code srv0 (1000 * NS) (b "clientA") (b "alice") (b "openid") (b "https://a.example/cb") (b "nonce123")
                       (b "jti") (b "HASH") m_S256 []).
  pose (r := treq0 code None (b "clientA") (b "verifier") (b "HASH")).
  destruct (token_endpoint_pkce_option i (1010 * NS) r) as [idt act|s] eqn:E; [|vm_compute in E; discriminate E].
  exists i, (1010 * NS), r, idt, act. eexists. split; [exact E|].
  split; [vm_compute; reflexivity|]. split; [discriminate|]. split; [vm_compute; discriminate|].
  vm_compute. reflexivity.
Qed.

(* ---------------------------------------------------------------- the name the caller used (Host header, TLS server name) *)

(* The issuer is a function of the configuration only: for every daemon, clock and token request, over
   every connection [cn] (Host header and SNI absent, the server's own name, a foreign name in both, a
   different name in each) the token endpoint answers the same - same verdict, and on release the SAME
   ID token and access token, whose iss is s_issuer of the configuration (c12_idtoken); userinfo accepts
   the same tokens for the same users and the discovery document names the same issuer. *)
Theorem c12_issuer_ignores_request : forall i now r cn,
  token_endpoint i now (with_conn r cn) = token_endpoint i now r /\
  (forall t, userinfo_endpoint i now cn t = c_userinfo (srv i) now t) /\
  discovery i cn = (s_issuer (srv i), s_userinfo (srv i)).
Proof. intros. split; [reflexivity|]. split; reflexivity. Qed.

(* ... in particular the iss claim of both released tokens, read directly *)
Theorem c12_issuer_is_configured : forall i now r idt act, token_endpoint i now r = Release idt act ->
  rd_str "iss" (t_claims idt) = Some (s_issuer (srv i)) /\ rd_str "iss" (t_claims act) = Some (s_issuer (srv i)).
Proof.
  intros i now r idt act R. apply token_release_sound in R.
  destruct R as [k [c [_ [_ [_ [_ [_ [_ [_ [_ [-> ->]]]]]]]]]]]. split; reflexivity.
Qed.

(* NOT the code: an issuer that follows the request when Host and SNI agree (OIDC.issuer_for): a caller
   that announces a foreign name in both gets that name as issuer. *)
Theorem c12_issuer_from_request_refuted : exists st own cn,
  issuer_for st own cn <> s_issuer st /\ issuer_for st own conn_none = s_issuer st.
Proof.
  exists srv0, (b "keymaster.example"), {| cn_host := b "accounts.evil.example"; cn_sni := Some (b "accounts.evil.example") |}.
  split; [vm_compute; discriminate|reflexivity].
Qed.
