(* C19 — the client never transmits private key material, private keys reach only the local SSH
   agent or files readable solely by the user, certificates installed in the agent replace earlier
   ones with the same label, and every key type the client offers is one the server certifies. *)
From Coq Require Import String.
From KM Require Import Base.Bytes Model.KeyStrength Model.Client Proofs.Client Model.ClientEnv Proofs.ClientEnv.

(* taint theorem over the client's request builders: whatever the signers hold, every atom of
   every request of a setupCerts run (with or without a one-time-code step) is text, the password
   or code, or the result of signer.Public() *)
Theorem c19_wire_only_public : forall otp sg a, In a (wire_atoms (setup_wire2 otp sg)) ->
  a = AText \/ a = ASecret \/ a = public (sg_x509 sg) \/ a = public (sg_ssh sg) \/ a = public (sg_ed sg).
Proof. exact wire2_only_public. Qed.
Print Assumptions c19_wire_only_public.

(* hence with real signers (private and public half tagged as such) nothing private is sent *)
Theorem c19_no_private_on_wire : forall otp a, In a (wire_atoms (setup_wire2 otp make_signers)) -> is_priv a = false.
Proof. exact no_private_on_wire. Qed.
Print Assumptions c19_no_private_on_wire.

(* the web-browser login (lib/client/webauth): the client's own requests are the pre-connect, the verification of
   the CLI token and the same four certificate requests; whatever the signers hold, the key material in them is
   signer.Public(); with real signers neither a request nor the URL handed to the browser carries anything private *)
Theorem c19_wire_only_public_web : forall sg a, In a (wire_atoms (setup_wire_web sg)) ->
  a = AText \/ a = ASecret \/ a = public (sg_x509 sg) \/ a = public (sg_ssh sg) \/ a = public (sg_ed sg).
Proof. exact wire_web_only_public. Qed.
Print Assumptions c19_wire_only_public_web.

Theorem c19_no_private_on_wire_web : forall a, In a (wire_atoms (setup_wire_web make_signers) ++ browser_url) -> is_priv a = false.
Proof. exact no_private_on_wire_web. Qed.
Print Assumptions c19_no_private_on_wire_web.

(* private halves go to the agent or into files of mode 0600, for every preference, user name,
   agent present or not, optional certificates issued or not *)
Theorem c19_private_stays_local : forall sg p user agent_ok ed_ok k8s_ok s,
  In s (install sg p user agent_ok ed_ok k8s_ok) ->
  match s with
  | SAgent _ _ _ => True
  | SFile _ mode content => (exists a, In a content /\ is_priv a = true) -> mode = 384%N   (* 0600 *)
  end.
Proof.
  intros sg p user agent_ok ed_ok k8s_ok s H.
  pose proof (install_private_ok sg p user agent_ok ed_ok k8s_ok) as F. rewrite forallb_forall in F.
  specialize (F s H). destruct s as [l k c|path mode content]; [exact I|]. intros (a & Ha & Pa).
  simpl in F. apply orb_true_iff in F. destruct F as [F|F]; [|apply N.eqb_eq; exact F].
  apply negb_true_iff in F. assert (E : existsb is_priv content = true) by (apply existsb_exists; eauto).
  congruence.
Qed.
Print Assumptions c19_private_stays_local.

(* agent: after installing certificate n under its label exactly one certificate carries that
   label; plain keys, other labels and every identity with another blob are untouched; nothing
   else appears.  For every agent content with unique blobs (the agent's own invariant). *)
Theorem c19_agent_replace : forall n a, NoDup (map e_blob a) -> e_cert n = true ->
  let c := e_comment n in let a' := upsert n a in
  filter (is_dup c) a' = [n] /\
  (forall e, In e a -> is_dup c e = false -> e_blob e <> e_blob n -> In e a') /\
  (forall e, In e a' -> e = n \/ (In e a /\ is_dup c e = false)) /\
  NoDup (map e_blob a').
Proof. exact agent_replace. Qed.
Print Assumptions c19_agent_replace.

(* the same against an agent that may refuse ANY of the calls (List, the k-th Remove for every k,
   Add; a refused call has no effect): if the installation reports success, exactly one certificate
   carries the label and the agent is what the fault-free installation leaves; if it reports an
   error, nothing was added and nothing but certificates with that label was removed. *)
Theorem c19_agent_replace_faulty : forall f n a, NoDup (map e_blob a) -> e_cert n = true ->
  let c := e_comment n in let r := upsert_faulty f n a in
  (snd r = true -> filter (is_dup c) (fst r) = [n] /\ fst r = upsert n a) /\
  (snd r = false -> (forall e, In e (fst r) -> In e a) /\ (forall e, In e a -> is_dup c e = false -> In e (fst r))).
Proof. exact agent_replace_faulty. Qed.
Print Assumptions c19_agent_replace_faulty.

(* a clean-up whose error is ignored ("best effort") reports success with the stale certificate still there *)
Theorem c19_best_effort_cleanup_refuted : exists f n a, NoDup (map e_blob a) /\ e_cert n = true /\
  let r := upsert_best_effort f n a in snd r = true /\ filter (is_dup (e_comment n)) (fst r) <> [n].
Proof.
  exists (mkFaults false (fun k => Nat.eqb k 0) false), ex_new, [ex_old].
  split; [repeat constructor; simpl; tauto|]. split; [reflexivity|].
  vm_compute. split; [reflexivity|discriminate].
Qed.
Print Assumptions c19_best_effort_cleanup_refuted.

(* key files: whatever was at the path before (nothing, a file of ANY mode) and whatever the umask,
   the private-key file is not accessible to group or others afterwards *)
Theorem c19_private_file_mode : forall existing umask, others_bits (write_private existing umask) = 0%N.
Proof. exact private_file_mode. Qed.
Print Assumptions c19_private_file_mode.

(* before the fix (a plain WriteFile(path, key, 0600)) a file that was already there kept its mode *)
Theorem c19_old_existing_mode_refuted : exists existing umask, others_bits (write_file existing umask 384) <> 0%N.
Proof. exists (Some 420%N), 18%N. exact plain_write_keeps_mode. Qed.
Print Assumptions c19_old_existing_mode_refuted.

(* WHICH agent.  The world is a list of paths with what each names (agents with their identities, sockets that
   do not speak the protocol, stale socket files, regular files, directories); the environment carries
   SSH_AUTH_SOCK, TMPDIR, HOME and XDG_RUNTIME_DIR.  For every environment and every world: an installation
   (WithAddedKeyUpsertCertIntoAgent / UpsertCertIntoAgent at the default location) leaves every path that
   SSH_AUTH_SOCK does not name exactly as it was. *)
Theorem c19_only_designated_agent : forall e n w q, agent_of e <> Some q ->
  lookup q (fst (world_upsert e n w)) = lookup q w.
Proof. exact world_upsert_frame. Qed.
Print Assumptions c19_only_designated_agent.

(* the agent SSH_AUTH_SOCK names receives exactly the replacement of c19_agent_replace, and success is reported *)
Theorem c19_designated_agent_upsert : forall e n w p a, agent_of e = Some p -> lookup p w = Some (NAgent a) ->
  lookup p (fst (world_upsert e n w)) = Some (NAgent (upsert n a)) /\ snd (world_upsert e n w) = true.
Proof. exact world_upsert_designated. Qed.
Print Assumptions c19_designated_agent_upsert.

(* no agent designated (SSH_AUTH_SOCK unset or empty): an error is reported and NO agent of the world, wherever
   it listens, has received anything; the same when the designated path has no agent behind it *)
Theorem c19_no_agent_adds_nothing : forall e n w, agent_of e = None -> world_upsert e n w = (w, false).
Proof. exact world_upsert_none. Qed.
Print Assumptions c19_no_agent_adds_nothing.

Theorem c19_unusable_agent_adds_nothing : forall e n w, usable e w = false -> world_upsert e n w = (w, false).
Proof. exact world_upsert_unusable. Qed.
Print Assumptions c19_unusable_agent_adds_nothing.

(* the client's installation of one SSH key (insertSSHCertIntoAgentORWriteToFilesystem: agent with lifetime,
   agent without, else files), for every environment, world, key, user: every path other than the one
   SSH_AUTH_SOCK names is unchanged; when no usable agent is designated the world is unchanged altogether,
   nothing goes to an agent and every file with private content has mode 0600; when one is, no file is written *)
Theorem c19_install_only_designated : forall e w suffix user s k n,
  let r := install_ssh_env e w suffix user s k n in
  (forall q, agent_of e <> Some q -> lookup q (fst r) = lookup q w) /\
  (usable e w = false ->
     fst r = w /\
     forall sk, In sk (snd r) ->
       match sk with
       | SAgent _ _ _ => False
       | SFile _ mode content => (exists a, In a content /\ is_priv a = true) -> mode = 384%N
       end) /\
  (usable e w = true ->
     forall sk, In sk (snd r) -> match sk with SAgent _ _ _ => True | SFile _ _ _ => False end).
Proof. exact install_only_designated. Qed.
Print Assumptions c19_install_only_designated.

(* a client that "discovers" a running agent among the sockets under $TMPDIR/ssh-*/ when SSH_AUTH_SOCK gives no
   connection hands the identity to an agent nobody designated *)
Theorem c19_agent_discovery_refuted : exists e n w q, agent_of e = None /\
  lookup q (fst (world_upsert_discover e n w)) <> lookup q w.
Proof. exists ex_env, ex_new, [(ex_decoy, NAgent [])], ex_decoy. exact discovery_reaches_undesignated. Qed.
Print Assumptions c19_agent_discovery_refuted.

(* offered ⊆ accepted, in terms of its parts; Obl_C19 closes offered_all_accepted = true over the
   alternatives of the server's pattern and the client's RSA size regenerated from the source *)
Theorem c19_offered_accepted_spec : forall alts rsa_bits, offered_all_accepted alts rsa_bits = true ->
  forall p t,
    (In t (offered_ssh p) -> In (ssh_name t) alts /\ validate (desc rsa_bits t) = true) /\
    (In t (offered_x509 p) -> validate (desc rsa_bits t) = true).
Proof. intros alts rsa_bits H p t. apply (offered_all_accepted_spec alts rsa_bits H p t), all_prefs_complete. Qed.
Print Assumptions c19_offered_accepted_spec.

(* before the fix the server's pattern lacked ecdsa-sha2-nistp384: preference p384 was refused *)
Theorem c19_old_p384_refuted : exists p t, In t (offered_ssh p) /\ server_accepts_ssh old_alternatives 3072 t = false.
Proof. exists PrefP384, KP384. destruct old_p384_refused as [A B]. split; [exact B|exact A]. Qed.
Print Assumptions c19_old_p384_refuted.

(* non-vacuity *)
Example c19_ex_wire : map req_code (setup_wire make_signers) =
  [(0, []); (1, [1]); (2, [20]); (3, [20]); (4, [21]); (4, [22])]%N.
Proof. vm_compute. reflexivity. Qed.

Example c19_ex_upsert :
  let old := mkEntry [1] [10] true in let plain := mkEntry [1] [11] false in
  let other := mkEntry [2] [12] true in let new := mkEntry [1] [13] true in
  upsert new [old; plain; other] = [plain; other; new].
Proof. vm_compute. reflexivity. Qed.

Example c19_ex_files : files_of (install make_signers PrefP256 "alice" false true false) =
  [(".ssh/keymaster-ed25519", 384, true); (".ssh/keymaster-ed25519-cert.pub", 420, false);
   (".ssh/keymaster-p256", 384, true); (".ssh/keymaster-p256-cert.pub", 420, false);
   (".ssl/keymaster.key", 384, true); (".ssl/keymaster.cert", 420, false)]%N%string.
Proof. vm_compute. reflexivity. Qed.

Example c19_ex_no_agent :
  let e := mkEnv None [116] [104] [120] in let decoy := [116; 47; 115; 115; 104; 45; 65; 47; 97] in
  let r := install_ssh_env e [(decoy, NAgent [])] "p256" "alice" (make_signer KSshMain) KSshMain (mkEntry [1] [13] true) in
  fst r = [(decoy, NAgent [])] /\ files_of (snd r) = [(".ssh/keymaster-p256", 384, true); (".ssh/keymaster-p256-cert.pub", 420, false)]%N%string.
Proof. vm_compute. split; reflexivity. Qed.

Example c19_ex_wire_web : map req_code (setup_wire_web make_signers) =
  [(0, []); (6, [1]); (2, [20]); (3, [20]); (4, [21]); (4, [22])]%N.
Proof. vm_compute. reflexivity. Qed.
