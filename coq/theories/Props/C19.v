(* C19 — the client never transmits private key material, private keys reach only the local SSH
   agent or files readable solely by the user, certificates installed in the agent replace earlier
   ones with the same label, and every key type the client offers is one the server certifies. *)
From Coq Require Import String.
From KM Require Import Base.Bytes Model.KeyStrength Model.Client Proofs.Client Model.ClientEnv Proofs.ClientEnv.
From KM Require Import Model.ClientLabel Proofs.ClientLabel Model.ServerKeys Proofs.ServerKeys.

(* taint theorem over the client's request builders: whatever the signers hold, every atom of
   every request of a setupCerts run (with or without a one-time-code step) is text, the password
   or code, or the result of signer.Public() *)
Theorem c19_wire_only_public : forall otp sg a, In a (wire_atoms (setup_wire2 otp sg)) ->
  a = AText \/ a = ASecret \/ a = public (sg_x509 sg) \/ a = public (sg_ssh sg) \/ a = public (sg_ed sg).
Proof. exact wire2_only_public. Qed.
Print Assumptions c19_wire_only_public.

(* hence with real signers (private and public half tagged as such) nothing private is sent *)
Theorem c19_no_private_on_wire : forall otp a, In a (wire_atoms (setup_wire2 otp make_signers)) -> is_priv a = false.
Proof. exact no_private_on_wire. Qed.
Print Assumptions c19_no_private_on_wire.

(* the web-browser login (lib/client/webauth): the client's own requests are the pre-connect, the verification of
   the CLI token and the same four certificate requests; whatever the signers hold, the key material in them is
   signer.Public(); with real signers neither a request nor the URL handed to the browser carries anything private *)
Theorem c19_wire_only_public_web : forall sg a, In a (wire_atoms (setup_wire_web sg)) ->
  a = AText \/ a = ASecret \/ a = public (sg_x509 sg) \/ a = public (sg_ssh sg) \/ a = public (sg_ed sg).
Proof. exact wire_web_only_public. Qed.
Print Assumptions c19_wire_only_public_web.

Theorem c19_no_private_on_wire_web : forall a, In a (wire_atoms (setup_wire_web make_signers) ++ browser_url) -> is_priv a = false.
Proof. exact no_private_on_wire_web. Qed.
Print Assumptions c19_no_private_on_wire_web.

(* private halves go to the agent or into files of mode 0600, for every preference, user name,
   agent present or not, optional certificates issued or not *)
Theorem c19_private_stays_local : forall sg p user agent_ok ed_ok k8s_ok s,
  In s (install sg p user agent_ok ed_ok k8s_ok) ->
  match s with
  | SAgent _ _ _ => True
  | SFile _ mode content => (exists a, In a content /\ is_priv a = true) -> mode = 384%N   (* 0600 *)
  end.
Proof.
  intros sg p user agent_ok ed_ok k8s_ok s H.
  pose proof (install_private_ok sg p user agent_ok ed_ok k8s_ok) as F. rewrite forallb_forall in F.
  specialize (F s H). destruct s as [l k c|path mode content]; [exact I|]. intros (a & Ha & Pa).
  simpl in F. apply orb_true_iff in F. destruct F as [F|F]; [|apply N.eqb_eq; exact F].
  apply negb_true_iff in F. assert (E : existsb is_priv content = true) by (apply existsb_exists; eauto).
  congruence.
Qed.
Print Assumptions c19_private_stays_local.

(* agent: after installing certificate n under its label exactly one certificate carries that
   label; plain keys, other labels and every identity with another blob are untouched; nothing
   else appears.  For every agent content with unique blobs (the agent's own invariant). *)
Theorem c19_agent_replace : forall n a, NoDup (map e_blob a) -> e_cert n = true ->
  let c := e_comment n in let a' := upsert n a in
  filter (is_dup c) a' = [n] /\
  (forall e, In e a -> is_dup c e = false -> e_blob e <> e_blob n -> In e a') /\
  (forall e, In e a' -> e = n \/ (In e a /\ is_dup c e = false)) /\
  NoDup (map e_blob a').
Proof. exact agent_replace. Qed.
Print Assumptions c19_agent_replace.

(* LABELS and REPEATED runs.  The client is given a label -- ANY byte string: with spaces, tabs, line ends, control
   bytes, multi-byte characters, empty, of any length -- and installs a certificate under it once per run.  After
   k >= 1 installations under one label (blobs ++ [last], any blobs) into any agent with unique blobs: exactly one
   certificate is under the label as the agent reports it, the LAST one, and its comment is the label the client
   was given; whatever was there before, is not a certificate under the label and has none of the installed blobs
   is still there; nothing else appeared. *)
Theorem c19_agent_replace_repeated : forall label blobs last a, NoDup (map e_blob a) ->
  let n := mkEntry label last true in
  let a' := install_many label (blobs ++ [last]) a in
  under_label label a' = [n] /\
  (forall e, In e a -> is_dup label e = false -> ~ In (e_blob e) (blobs ++ [last]) -> In e a') /\
  (forall e, In e a' -> e = n \/ (In e a /\ is_dup label e = false)) /\
  NoDup (map e_blob a').
Proof. exact install_many_replaces. Qed.
Print Assumptions c19_agent_replace_repeated.

(* one installation under a label is the replacement of c19_agent_replace for the entry (label, blob) *)
Theorem c19_install_is_upsert : forall label blob a, install_cert label blob a = upsert (mkEntry label blob true) a.
Proof. exact install_cert_upsert. Qed.
Print Assumptions c19_install_is_upsert.

(* labels are compared as byte strings: an installation under one label leaves the certificates under every OTHER
   label (a prefix of it, the same letters in another case, the same with a trailing space ...) exactly as they
   were -- none removed (unless it has the very blob that is installed), none added *)
Theorem c19_other_labels_untouched : forall label label' blob a, NoDup (map e_blob a) -> label <> label' ->
  (forall e, In e a -> is_dup label' e = true -> e_blob e <> blob -> In e (install_cert label blob a)) /\
  (forall e, In e (install_cert label blob a) -> is_dup label' e = true -> In e a).
Proof. exact install_other_label. Qed.
Print Assumptions c19_other_labels_untouched.

(* a client that stores a NORMALISED comment (runs of white space / control bytes folded into one underscore) but
   looks for the raw label never finds what it installed: two runs leave two certificates, none under the label *)
Theorem c19_normalised_comment_refuted : exists label b1 b2,
  let a' := install_many_with normalised_comment label [b1; b2] [] in
  length (certs_of a') = 2%nat /\ under_label label a' = [].
Proof. exists ex_label, [1%N], [2%N]. exact normalised_comment_accumulates. Qed.
Print Assumptions c19_normalised_comment_refuted.

(* the same against an agent that may refuse ANY of the calls (List, the k-th Remove for every k,
   Add; a refused call has no effect): if the installation reports success, exactly one certificate
   carries the label and the agent is what the fault-free installation leaves; if it reports an
   error, nothing was added and nothing but certificates with that label was removed. *)
Theorem c19_agent_replace_faulty : forall f n a, NoDup (map e_blob a) -> e_cert n = true ->
  let c := e_comment n in let r := upsert_faulty f n a in
  (snd r = true -> filter (is_dup c) (fst r) = [n] /\ fst r = upsert n a) /\
  (snd r = false -> (forall e, In e (fst r) -> In e a) /\ (forall e, In e a -> is_dup c e = false -> In e (fst r))).
Proof. exact agent_replace_faulty. Qed.
Print Assumptions c19_agent_replace_faulty.

(* a clean-up whose error is ignored ("best effort") reports success with the stale certificate still there *)
Theorem c19_best_effort_cleanup_refuted : exists f n a, NoDup (map e_blob a) /\ e_cert n = true /\
  let r := upsert_best_effort f n a in snd r = true /\ filter (is_dup (e_comment n)) (fst r) <> [n].
Proof.
  exists (mkFaults false (fun k => Nat.eqb k 0) false), ex_new, [ex_old].
  split; [repeat constructor; simpl; tauto|]. split; [reflexivity|].
  vm_compute. split; [reflexivity|discriminate].
Qed.
Print Assumptions c19_best_effort_cleanup_refuted.

(* key files: whatever was at the path before (nothing, a file of ANY mode) and whatever the umask,
   the private-key file is not accessible to group or others afterwards *)
Theorem c19_private_file_mode : forall existing umask, others_bits (write_private existing umask) = 0%N.
Proof. exact private_file_mode. Qed.
Print Assumptions c19_private_file_mode.

(* before the fix (a plain WriteFile(path, key, 0600)) a file that was already there kept its mode *)
Theorem c19_old_existing_mode_refuted : exists existing umask, others_bits (write_file existing umask 384) <> 0%N.
Proof. exists (Some 420%N), 18%N. exact plain_write_keeps_mode. Qed.
Print Assumptions c19_old_existing_mode_refuted.

(* WHICH agent.  The world is a list of paths with what each names (agents with their identities, sockets that
   do not speak the protocol, stale socket files, regular files, directories); the environment carries
   SSH_AUTH_SOCK, TMPDIR, HOME and XDG_RUNTIME_DIR.  For every environment and every world: an installation
   (WithAddedKeyUpsertCertIntoAgent / UpsertCertIntoAgent at the default location) leaves every path that
   SSH_AUTH_SOCK does not name exactly as it was. *)
Theorem c19_only_designated_agent : forall e n w q, agent_of e <> Some q ->
  lookup q (fst (world_upsert e n w)) = lookup q w.
Proof. exact world_upsert_frame. Qed.
Print Assumptions c19_only_designated_agent.

(* the agent SSH_AUTH_SOCK names receives exactly the replacement of c19_agent_replace, and success is reported *)
Theorem c19_designated_agent_upsert : forall e n w p a, agent_of e = Some p -> lookup p w = Some (NAgent a) ->
  lookup p (fst (world_upsert e n w)) = Some (NAgent (upsert n a)) /\ snd (world_upsert e n w) = true.
Proof. exact world_upsert_designated. Qed.
Print Assumptions c19_designated_agent_upsert.

(* no agent designated (SSH_AUTH_SOCK unset or empty): an error is reported and NO agent of the world, wherever
   it listens, has received anything; the same when the designated path has no agent behind it *)
Theorem c19_no_agent_adds_nothing : forall e n w, agent_of e = None -> world_upsert e n w = (w, false).
Proof. exact world_upsert_none. Qed.
Print Assumptions c19_no_agent_adds_nothing.

Theorem c19_unusable_agent_adds_nothing : forall e n w, usable e w = false -> world_upsert e n w = (w, false).
Proof. exact world_upsert_unusable. Qed.
Print Assumptions c19_unusable_agent_adds_nothing.

(* the client's installation of one SSH key (insertSSHCertIntoAgentORWriteToFilesystem: agent with lifetime,
   agent without, else files), for every environment, world, key, user: every path other than the one
   SSH_AUTH_SOCK names is unchanged; when no usable agent is designated the world is unchanged altogether,
   nothing goes to an agent and every file with private content has mode 0600; when one is, no file is written *)
Theorem c19_install_only_designated : forall e w suffix user s k n,
  let r := install_ssh_env e w suffix user s k n in
  (forall q, agent_of e <> Some q -> lookup q (fst r) = lookup q w) /\
  (usable e w = false ->
     fst r = w /\
     forall sk, In sk (snd r) ->
       match sk with
       | SAgent _ _ _ => False
       | SFile _ mode content => (exists a, In a content /\ is_priv a = true) -> mode = 384%N
       end) /\
  (usable e w = true ->
     forall sk, In sk (snd r) -> match sk with SAgent _ _ _ => True | SFile _ _ _ => False end).
Proof. exact install_only_designated. Qed.
Print Assumptions c19_install_only_designated.

(* a client that "discovers" a running agent among the sockets under $TMPDIR/ssh-*/ when SSH_AUTH_SOCK gives no
   connection hands the identity to an agent nobody designated *)
Theorem c19_agent_discovery_refuted : exists e n w q, agent_of e = None /\
  lookup q (fst (world_upsert_discover e n w)) <> lookup q w.
Proof. exists ex_env, ex_new, [(ex_decoy, NAgent [])], ex_decoy. exact discovery_reaches_undesignated. Qed.
Print Assumptions c19_agent_discovery_refuted.

(* offered ⊆ accepted, in terms of its parts; Obl_C19 closes offered_all_accepted = true over the
   alternatives of the server's pattern and the client's RSA size regenerated from the source *)
Theorem c19_offered_accepted_spec : forall alts rsa_bits, offered_all_accepted alts rsa_bits = true ->
  forall p t,
    (In t (offered_ssh p) -> In (ssh_name t) alts /\ validate (desc rsa_bits t) = true) /\
    (In t (offered_x509 p) -> validate (desc rsa_bits t) = true).
Proof. intros alts rsa_bits H p t. apply (offered_all_accepted_spec alts rsa_bits H p t), all_prefs_complete. Qed.
Print Assumptions c19_offered_accepted_spec.

(* the same over the server's KEY MATERIAL: for every CA key configuration with which the daemon starts -- main CA
   RSA / P-256 / P-384 / P-521 stored as PKCS#8, PKCS#1 / SEC1 or OpenSSH private key file, no Ed25519 CA or one
   stored as PKCS#8 or OpenSSH file -- every SSH key type the client offers is CERTIFIED (the always-offered Ed25519
   key whenever an Ed25519 CA is configured; without one the answer is "no such CA", which the client takes as
   "optional certificate not available"), and every X.509 key type is certified *)
Theorem c19_offered_certified_any_ca : forall alts rsa_bits, offered_all_accepted alts rsa_bits = true ->
  forall k s, load_signers k = Some s -> forall p t,
    (In t (offered_ssh p) -> t <> KEd25519 \/ sk_ed k <> None -> ssh_answer_of alts rsa_bits s t = SshCertified) /\
    (In t (offered_ssh p) -> t = KEd25519 -> sk_ed k = None -> ssh_answer_of alts rsa_bits s t = SshNoSuchCA) /\
    (In t (offered_x509 p) -> x509_certified rsa_bits s t = true).
Proof. exact offered_certified_any_ca. Qed.
Print Assumptions c19_offered_certified_any_ca.

(* the configurations with which the daemon starts are exactly the 12 x 3 ones the harness enumerates *)
Theorem c19_server_keys_enumerated : forall k, server_loads k = true <->
  In (sk_main k) all_main_files /\ (sk_ed k = None \/ exists f, sk_ed k = Some f /\ In f all_ed_files).
Proof. exact server_loads_enumerated. Qed.
Print Assumptions c19_server_keys_enumerated.

(* a constructor of the certificate signer that switches on the value forms of the key types (what the PKCS#8
   loader yields) refuses the pointer the OpenSSH loader yields for an Ed25519 CA: the ssh-ed25519 key every
   client offers is not certified although an Ed25519 CA is configured *)
Theorem c19_value_form_signer_refuted : forall alts rsa_bits, offered_all_accepted alts rsa_bits = true ->
  exists k s p t, load_signers k = Some s /\ sk_ed k <> None /\ In t (offered_ssh p) /\
    ssh_answer_with new_signer_value_forms alts rsa_bits s t = SshRefused.
Proof.
  intros alts rsa_bits H. destruct (value_form_signer_refuses alts rsa_bits H) as (s & L & I & R).
  exists ex_openssh_ed, s, PrefRSA, KEd25519. split; [exact L|]. split; [discriminate|]. split; [exact I|exact R].
Qed.
Print Assumptions c19_value_form_signer_refuted.

(* before the fix the server's pattern lacked ecdsa-sha2-nistp384: preference p384 was refused *)
Theorem c19_old_p384_refuted : exists p t, In t (offered_ssh p) /\ server_accepts_ssh old_alternatives 3072 t = false.
Proof. exists PrefP384, KP384. destruct old_p384_refused as [A B]. split; [exact B|exact A]. Qed.
Print Assumptions c19_old_p384_refuted.

(* non-vacuity *)
Example c19_ex_wire : map req_code (setup_wire make_signers) =
  [(0, []); (1, [1]); (2, [20]); (3, [20]); (4, [21]); (4, [22])]%N.
Proof. vm_compute. reflexivity. Qed.

Example c19_ex_upsert :
  let old := mkEntry [1] [10] true in let plain := mkEntry [1] [11] false in
  let other := mkEntry [2] [12] true in let new := mkEntry [1] [13] true in
  upsert new [old; plain; other] = [plain; other; new].
Proof. vm_compute. reflexivity. Qed.

Example c19_ex_files : files_of (install make_signers PrefP256 "alice" false true false) =
  [(".ssh/keymaster-ed25519", 384, true); (".ssh/keymaster-ed25519-cert.pub", 420, false);
   (".ssh/keymaster-p256", 384, true); (".ssh/keymaster-p256-cert.pub", 420, false);
   (".ssl/keymaster.key", 384, true); (".ssl/keymaster.cert", 420, false)]%N%string.
Proof. vm_compute. reflexivity. Qed.

Example c19_ex_no_agent :
  let e := mkEnv None [116] [104] [120] in let decoy := [116; 47; 115; 115; 104; 45; 65; 47; 97] in
  let r := install_ssh_env e [(decoy, NAgent [])] "p256" "alice" (make_signer KSshMain) KSshMain (mkEntry [1] [13] true) in
  fst r = [(decoy, NAgent [])] /\ files_of (snd r) = [(".ssh/keymaster-p256", 384, true); (".ssh/keymaster-p256-cert.pub", 420, false)]%N%string.
Proof. vm_compute. split; reflexivity. Qed.

Example c19_ex_wire_web : map req_code (setup_wire_web make_signers) =
  [(0, []); (6, [1]); (2, [20]); (3, [20]); (4, [21]); (4, [22])]%N.
Proof. vm_compute. reflexivity. Qed.

Example c19_ex_repeated :
  let other := mkEntry [107; 32] [12] true in      (* "k " : the label with a trailing space is another label *)
  under_label [107] (install_many [107] [[1]; [2]; [3]] [other]) = [mkEntry [107] [3] true] /\
  under_label [107; 32] (install_many [107] [[1]; [2]; [3]] [other]) = [other].
Proof. vm_compute. split; reflexivity. Qed.

Example c19_ex_openssh_ed_ca :
  ssh_answer_of ["ssh-ed25519"%string] 3072 (GoPtrRSA, Some GoEd25519Ptr) KEd25519 = SshCertified /\
  load_signers (mkServerKeys (mkCaFile CaP521 FmtOpenSSH) (Some (mkCaFile CaEd25519 FmtOpenSSH))) = Some (GoPtrECDSA, Some GoEd25519Ptr) /\
  load_signers (mkServerKeys (mkCaFile CaEd25519 FmtPKCS8) None) = None.
Proof. vm_compute. repeat split; reflexivity. Qed.
