(* C03 obligations over the regenerated constants *)
From Coq Require Import ZArith Lia.
From KM Require Import Model.Lifetime Props.C03.
From KMW Require Import gen.Consts.
Open Scope Z_scope.

(* the cap the handler uses is the 24 hours of the property text *)
Lemma c03_cap_is_24h : maxCertificateLifetime_ns <= 24 * 3600 * NS /\ 0 < maxCertificateLifetime_ns < two64 * NS / 4.
Proof. vm_compute. intuition congruence. Qed.
Goal True. idtac "@@OBL c03_cap_is_24h". Abort.

(* automation certificates: the fixed maximum is at most 45 days *)
Lemma c03_role_le_45d : 0 < maxRoleRequestingCertDuration_ns <= 45 * 86400 * NS.
Proof. vm_compute. intuition congruence. Qed.
Goal True. idtac "@@OBL c03_role_le_45d". Abort.

(* cloud-role certificates: the lifetime of the template the library builds (probed on the current
   tree: NotAfter - NotBefore of the template handed to the certificate generator) is at most 24 hours *)
Lemma c03_aws_le_24h : 0 < awsRoleCertLifetime_ns <= 24 * 3600 * NS.
Proof. vm_compute. intuition congruence. Qed.
Goal True. idtac "@@OBL c03_aws_le_24h". Abort.

(* the property with its own numbers: nothing signed through /certgen/ is valid more than
   24 h after now2, nor more than 24 h (+ handler latency) after the authentication instant *)
Theorem c03_24h : forall req iat now1 now2 d,
  0 <= iat -> 0 <= now1 <= now2 -> now2 < two64 * NS / 4 -> now1 < iat + two64 * NS / 4 ->
  handler_duration maxCertificateLifetime_ns req iat now1 = Some d -> 0 <= d ->
  snd (ssh_window now2 d) * NS <= now2 + 24 * 3600 * NS /\
  snd (ssh_window now2 d) * NS <= iat + 24 * 3600 * NS + (now2 - now1) /\
  snd (x509_window now2 d) <= now2 + 24 * 3600 * NS /\
  snd (x509_window now2 d) <= iat + 24 * 3600 * NS + (now2 - now1).
Proof.
  intros req iat now1 now2 d Hi Hn Hb Hb2 H Hd.
  destruct c03_cap_is_24h as [C1 C2].
  pose proof (c03_ssh_bound _ req iat now1 now2 d C2 Hi Hn Hb Hb2 H) as S.
  pose proof (c03_x509_bound _ req iat now1 now2 d (proj2 Hn) H) as X.
  destruct (ssh_window now2 d) as [va vb]. destruct (x509_window now2 d) as [nb na]. cbn [snd].
  destruct S as [_ [_ [_ [_ [S _]]]]]. specialize (S Hd). destruct S as [_ [S2 [S3 _]]].
  destruct X as [_ [X2 [X3 _]]]. lia.
Qed.
Goal True. idtac "@@OBL c03_24h". Abort.

(* every path, every configuration, every credential kind, with the literal numbers of the property *)
Definition limits_now : limits :=
  {| maxc := maxCertificateLifetime_ns; maxrole := maxRoleRequestingCertDuration_ns; awslife := awsRoleCertLifetime_ns |}.
Theorem c03_every_path_every_config : forall cfg p req c now0 now1 now2 nb na,
  0 <= issued_at c now0 -> 0 <= now1 <= now2 -> now2 < two64 * NS / 4 ->
  now1 < issued_at c now0 + two64 * NS / 4 ->
  effective_window cfg limits_now p req c now0 now1 now2 = Some (nb, na) ->
  nb <= now2 /\
  na <= now2 + (match p with Role | Refresh => 45 * 86400 * NS | _ => 24 * 3600 * NS end) /\
  (is_certgen p = true -> na <= Z.max nb (issued_at c now0 + 24 * 3600 * NS + (now2 - now1))).
Proof.
  intros cfg p req c now0 now1 now2 nb na Hi Hn Hb Hb2 H.
  assert (S : sane limits_now) by (vm_compute; intuition congruence).
  destruct (c03_effective_window cfg limits_now p req c now0 now1 now2 nb na S Hi Hn Hb Hb2 H)
    as [A [_ [B [C _]]]].
  destruct c03_cap_is_24h as [C1 _]. pose proof c03_role_le_45d as C2. pose proof c03_aws_le_24h as C3.
  split; [exact A|]. split.
  - destruct p; cbn [path_limit limits_now maxc maxrole awslife] in B; lia.
  - intro G. destruct (C G) as [D _]. cbn [limits_now maxc] in D. lia.
Qed.
Goal True. idtac "@@OBL c03_every_path_every_config". Abort.

(* ... and under EVERY validity of the issuing CA certificate (not valid yet, about to expire, ...):
   the literal numbers of the property counted from the moment of issuance, never a start in the future *)
Theorem c03_every_path_every_ca_validity : forall ca_nb ca_na cfg p req c now0 now1 now2 nb na,
  0 <= issued_at c now0 -> 0 <= now1 <= now2 -> now2 < two64 * NS / 4 ->
  now1 < issued_at c now0 + two64 * NS / 4 ->
  effective_window_ca (ca_nb, ca_na) cfg limits_now p req c now0 now1 now2 = Some (nb, na) ->
  nb <= now2 /\
  na <= now2 + (match p with Role | Refresh => 45 * 86400 * NS | _ => 24 * 3600 * NS end) /\
  (is_certgen p = true -> na <= Z.max nb (issued_at c now0 + 24 * 3600 * NS + (now2 - now1))).
Proof.
  intros ca_nb ca_na cfg p req c now0 now1 now2 nb na Hi Hn Hb Hb2 H.
  exact (c03_every_path_every_config cfg p req c now0 now1 now2 nb na Hi Hn Hb Hb2 H).
Qed.
Goal True. idtac "@@OBL c03_every_path_every_ca_validity". Abort.
