(* C03 obligations over the regenerated constants *)
From Coq Require Import ZArith Lia.
From KM Require Import Model.Lifetime Props.C03.
From KMW Require Import gen.Consts.
Open Scope Z_scope.

(* the cap the handler uses is the 24 hours of the property text *)
Lemma c03_cap_is_24h : maxCertificateLifetime_ns <= 24 * 3600 * NS /\ 0 < maxCertificateLifetime_ns < two64 * NS / 4.
Proof. vm_compute. intuition congruence. Qed.
Goal True. idtac "@@OBL c03_cap_is_24h". Abort.

(* automation certificates: the fixed maximum is at most 45 days *)
Lemma c03_role_le_45d : 0 < maxRoleRequestingCertDuration_ns <= 45 * 86400 * NS.
Proof. vm_compute. intuition congruence. Qed.
Goal True. idtac "@@OBL c03_role_le_45d". Abort.

(* the property with its own numbers: nothing signed through /certgen/ is valid more than
   24 h after now2, nor more than 24 h (+ handler latency) after the authentication instant *)
Theorem c03_24h : forall req iat now1 now2 d,
  0 <= iat -> 0 <= now1 <= now2 -> now2 < two64 * NS / 4 -> now1 < iat + two64 * NS / 4 ->
  handler_duration maxCertificateLifetime_ns req iat now1 = Some d -> 0 <= d ->
  snd (ssh_window now2 d) * NS <= now2 + 24 * 3600 * NS /\
  snd (ssh_window now2 d) * NS <= iat + 24 * 3600 * NS + (now2 - now1) /\
  snd (x509_window now2 d) <= now2 + 24 * 3600 * NS /\
  snd (x509_window now2 d) <= iat + 24 * 3600 * NS + (now2 - now1).
Proof.
  intros req iat now1 now2 d Hi Hn Hb Hb2 H Hd.
  destruct c03_cap_is_24h as [C1 C2].
  pose proof (c03_ssh_bound _ req iat now1 now2 d C2 Hi Hn Hb Hb2 H) as S.
  pose proof (c03_x509_bound _ req iat now1 now2 d (proj2 Hn) H) as X.
  destruct (ssh_window now2 d) as [va vb]. destruct (x509_window now2 d) as [nb na]. cbn [snd].
  destruct S as [_ [_ [_ [_ [S _]]]]]. specialize (S Hd). destruct S as [_ [S2 [S3 _]]].
  destruct X as [_ [X2 [X3 _]]]. lia.
Qed.
Goal True. idtac "@@OBL c03_24h". Abort.
