(* C06 obligations over the route table regenerated from main() of the current tree
   (work/<pid>/gen/Routes.v): every registered route has a row in the hand-written route model
   (Model/Routes.v) and no model row is stale.  A new route without a row fails here. *)
From Coq Require Import String List Bool.
From KM Require Import Model.Routes.
From KMW Require gen.Routes.
Import ListNotations.
Open Scope string_scope.

Definition registered : list (string * string * bool) := KMW.gen.Routes.routes.

(* file servers are keyed by their path, everything else by the handler expression *)
Definition key_of (r : string * string * bool) : string :=
  let '(p, h, _) := r in if String.prefix "cacheControlHandler(" h then p else h.

Lemma c06_routes_classified :
  forallb (fun r => match find_row (key_of r) with Some _ => true | None => false end) registered = true.
Proof. vm_compute. reflexivity. Qed.
Goal True. idtac "@@OBL c06_routes_classified". Abort.

Lemma c06_no_stale_rows :
  forallb (fun row => existsb (fun r => String.eqb (key_of r) (rt_key row)) registered) route_table = true.
Proof. vm_compute. reflexivity. Qed.
Goal True. idtac "@@OBL c06_no_stale_rows". Abort.

(* each route is registered once (a second registration of a path would shadow nothing in Go —
   ServeMux panics — but a second handler for the same key would make the row ambiguous) *)
Lemma c06_keys_unique :
  (fix nodup (l : list string) : bool :=
     match l with [] => true | x :: r => negb (existsb (String.eqb x) r) && nodup r end)
    (map key_of registered) = true.
Proof. vm_compute. reflexivity. Qed.
Goal True. idtac "@@OBL c06_keys_unique". Abort.

(* The issuers of X.509 client certificates (Model/AuthGateRole.v: mint_user for /certgen/ and the AWS role
   template, mint_role for the two role endpoints) against the REGENERATED table of signing sites of
   cmd/keymasterd: there are exactly three X.509 issuing sites, and exactly one of them - the one the role
   endpoints share - builds certificates with the address-delegation extension (GenIPRestrictedX509Cert).
   A new issuing site (a second path that could put the extension under another CA) fails here until the
   issuer model covers it.  No function name is looked at. *)
From KMW Require gen.Tables.
Definition x509_issue_sites : list (string * string * string * string) :=
  filter (fun s => let '(_, g, k, _) := s in String.eqb k "issue" && negb (String.eqb g "GenSSHCertFileString"))
         KMW.gen.Tables.signing_sites.
Lemma c06_x509_issuing_sites :
  length x509_issue_sites = 3 /\
  length (filter (fun s => let '(_, g, _, _) := s in String.eqb g "GenIPRestrictedX509Cert") x509_issue_sites) = 1 /\
  length (filter (fun s => let '(_, g, _, _) := s in String.eqb g "GenIPRestrictedX509Cert") KMW.gen.Tables.signing_sites) = 1.
Proof. vm_compute. repeat split; reflexivity. Qed.
Goal True. idtac "@@OBL c06_x509_issuing_sites". Abort.
