(* C06 obligations over the route table regenerated from main() of the current tree
   (work/<pid>/gen/Routes.v): every registered route has a row in the hand-written route model
   (Model/Routes.v) and no model row is stale.  A new route without a row fails here. *)
From Coq Require Import String List Bool.
From KM Require Import Model.Routes.
From KMW Require gen.Routes.
Import ListNotations.
Open Scope string_scope.

Definition registered : list (string * string * bool) := KMW.gen.Routes.routes.

(* file servers are keyed by their path, everything else by the handler expression *)
Definition key_of (r : string * string * bool) : string :=
  let '(p, h, _) := r in if String.prefix "cacheControlHandler(" h then p else h.

Lemma c06_routes_classified :
  forallb (fun r => match find_row (key_of r) with Some _ => true | None => false end) registered = true.
Proof. vm_compute. reflexivity. Qed.
Goal True. idtac "@@OBL c06_routes_classified". Abort.

Lemma c06_no_stale_rows :
  forallb (fun row => existsb (fun r => String.eqb (key_of r) (rt_key row)) registered) route_table = true.
Proof. vm_compute. reflexivity. Qed.
Goal True. idtac "@@OBL c06_no_stale_rows". Abort.

(* each route is registered once (a second registration of a path would shadow nothing in Go —
   ServeMux panics — but a second handler for the same key would make the row ambiguous) *)
Lemma c06_keys_unique :
  (fix nodup (l : list string) : bool :=
     match l with [] => true | x :: r => negb (existsb (String.eqb x) r) && nodup r end)
    (map key_of registered) = true.
Proof. vm_compute. reflexivity. Qed.
Goal True. idtac "@@OBL c06_keys_unique". Abort.
