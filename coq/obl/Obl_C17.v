(* C17 obligations over the regenerated sink tables (work/<pid>/gen/Tables.v) *)
From Coq Require Import String List Bool.
From KMW Require Import gen.Tables.
Import ListNotations.
Open Scope string_scope.

Definition cls3 (r : string * string * string) : string := snd r.

(* every http.Redirect target is of a construction the model covers: a constant, profileURI, a value
   that came from getLoginDestination (incl. pending.loginDestination), the configured provider URL, the
   OpenID client redirect (validated separately, C13), "/?user=<session user>" (Model.Dest.logout_target),
   or the loopback hand-over of a CLI login.  A target that reads the request without the filter (class
   "request"), a function parameter ("param") or any other expression ("other") fails. *)
Definition c17_sink_classes : list string :=
  ["const"; "filtered"; "profileuri"; "config"; "oidc-validated"; "query-of-root:session-user"; "localhost-cli"].
Lemma c17_sinks : forallb (fun r => existsb (String.eqb (cls3 r)) c17_sink_classes) redirect_sinks = true.
Proof. vm_compute. reflexivity. Qed.
Goal True. idtac "@@OBL c17_sinks". Abort.

(* what is parked in a pending federated login is a filtered destination *)
Lemma c17_pending : forallb (fun r => String.eqb (cls3 r) "filtered" || String.eqb (cls3 r) "const") pending_destination_stores = true.
Proof. vm_compute. reflexivity. Qed.
Goal True. idtac "@@OBL c17_pending". Abort.

(* the table is not empty: the login handler's sink is among the rows *)
Lemma c17_sinks_nonempty : existsb (fun r => String.eqb (fst (fst r)) "loginHandler" && String.eqb (cls3 r) "filtered") redirect_sinks = true.
Proof. vm_compute. reflexivity. Qed.
Goal True. idtac "@@OBL c17_sinks_nonempty". Abort.

(* the destination function (getLoginDestination and the package functions it hands the request to) uses the
   request only through its form (FormValue / Form / ParseForm; the method, the context and the peer address carry no
   destination) — the tie for Model.DestReq.req_destination, which
   is a function of the form/query channel alone.  A read of a cookie, a header, the URL or the body, or the
   request handed to something outside the package ("escapes"), fails. *)
Definition c17_read_classes : list string := ["form"; "method"; "context"; "remote"].
Lemma c17_filter_reads : forallb (fun r => existsb (String.eqb (cls3 r)) c17_read_classes) destination_reads = true.
Proof. vm_compute. reflexivity. Qed.
Goal True. idtac "@@OBL c17_filter_reads". Abort.
Lemma c17_filter_reads_nonempty : existsb (fun r => String.eqb (cls3 r) "form") destination_reads = true.
Proof. vm_compute. reflexivity. Qed.
Goal True. idtac "@@OBL c17_filter_reads_nonempty". Abort.
