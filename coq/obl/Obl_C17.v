(* C17 obligations over the regenerated sink tables (work/<pid>/gen/Tables.v) *)
From Coq Require Import String List Bool.
From KMW Require Import gen.Tables.
Import ListNotations.
Open Scope string_scope.

Definition cls3 (r : string * string * string) : string := snd r.

(* no http.Redirect target reads the request without passing through getLoginDestination
   (class "request"); the OpenID client redirect is validated separately (C13) *)
Lemma c17_sinks : forallb (fun r => negb (String.eqb (cls3 r) "request")) redirect_sinks = true.
Proof. vm_compute. reflexivity. Qed.
Goal True. idtac "@@OBL c17_sinks". Abort.

(* what is parked in a pending federated login is a filtered destination *)
Lemma c17_pending : forallb (fun r => String.eqb (cls3 r) "filtered" || String.eqb (cls3 r) "const") pending_destination_stores = true.
Proof. vm_compute. reflexivity. Qed.
Goal True. idtac "@@OBL c17_pending". Abort.

(* the table is not empty: the login handler's sink is among the rows *)
Lemma c17_sinks_nonempty : existsb (fun r => String.eqb (fst (fst r)) "loginHandler" && String.eqb (cls3 r) "filtered") redirect_sinks = true.
Proof. vm_compute. reflexivity. Qed.
Goal True. idtac "@@OBL c17_sinks_nonempty". Abort.
