(* C04 obligations over facts regenerated from the current tree (work/C04/gen/TokenConsts.v):
   the JSON names the Go structs declare (reflection), the claim names and kind strings of tokens
   the real producers emitted on this run. *)
From Coq Require Import String ZArith NArith List Bool.
From KM Require Import Base.Bytes Model.Tokens Model.OIDC.
From KMW Require Import gen.TokenConsts.
Import ListNotations.

Definition names (c : claimset) : list string := map fst c.
Definition a0 : authjwt := {| a_iss := []; a_sub := []; a_aud := []; a_exp := 0; a_nbf := 0; a_iat := 0; a_token_type := []; a_auth_type := 0 |}.
Definition g0 : storagejwt := {| g_iss := []; g_sub := []; g_aud := []; g_nbf := 0; g_exp := 0; g_iat := 0; g_token_type := []; g_data_type := 0; g_data := [] |}.
Definition k0 : codejwt := {| c_iss := []; c_sub := []; c_iat := 0; c_exp := 0; c_aud := []; c_username := []; c_auth_level := 0; c_auth_exp := 0;
  c_nonce := []; c_redirect := []; c_access_aud := []; c_scope := []; c_type := []; c_jti := []; c_sealed := Some ([], [], []) |}.
Definition x0 : accessjwt := {| x_iss := []; x_aud := []; x_username := []; x_scope := []; x_exp := 0; x_iat := 0; x_type := [] |}.
Definition i0 : idjwt := {| i_iss := []; i_sub := []; i_aud := []; i_exp := 0; i_iat := 0; i_nonce := [] |}.

Definition slist_eqb (a c : list string) : bool :=
  Nat.eqb (length a) (length c) && forallb (fun p => String.eqb (fst p) (snd p)) (combine a c).
Definition subset (a c : list string) : bool := forallb (fun x => existsb (String.eqb x) c) a.

(* the claim lists of the model are, name by name and in order, the JSON tags of the Go structs *)
Lemma c04_struct_tags :
  slist_eqb (names (enc_auth a0)) tags_authInfoJWT && slist_eqb (names (enc_storage g0)) tags_storageStringDataJWT &&
  slist_eqb (names (enc_code k0)) tags_keymasterdCodeToken && slist_eqb (names (enc_access x0)) tags_bearerAccessToken &&
  slist_eqb (names (enc_id i0)) tags_openIDConnectIDToken = true.
Proof. vm_compute. reflexivity. Qed.
Goal True. idtac "@@OBL c04_struct_tags". Abort.

(* what the real producers put on the wire carries no claim the model's producer does not have *)
Lemma c04_produced_claims :
  subset produced_session_claims (names (enc_auth a0)) && subset produced_session_login_claims (names (enc_auth a0)) &&
  subset produced_cli_claims (names (enc_auth a0)) && subset produced_cli_page_claims (names (enc_auth a0)) &&
  subset produced_storage_claims (names (enc_storage g0)) && subset produced_code_claims (names (enc_code k0)) &&
  subset produced_access_claims (names (enc_access x0)) && subset produced_id_claims (names (enc_id i0)) = true.
Proof. vm_compute. reflexivity. Qed.
Goal True. idtac "@@OBL c04_produced_claims". Abort.

(* the kind strings the real producers emit are the model's constants (ID tokens carry none) *)
Lemma c04_kind_strings :
  b produced_session_kind = k_session /\ b produced_session_login_kind = k_session /\ b produced_cli_kind = k_cli /\
  b produced_cli_page_kind = k_cli /\ b produced_storage_kind = k_storage /\ b produced_code_kind = k_code /\
  b produced_access_kind = k_access /\ produced_id_kind = ""%string.
Proof. vm_compute. repeat split; reflexivity. Qed.
Goal True. idtac "@@OBL c04_kind_strings". Abort.

Lemma c04_kinds_distinct :
  NoDup [k_session; k_cli; k_storage] /\ k_code <> k_access /\ k_code <> [] /\ k_access <> [] /\
  k_session <> [] /\ k_cli <> [] /\ k_storage <> [].
Proof.
  split; [repeat constructor; vm_compute; intuition discriminate|].
  vm_compute. repeat split; discriminate.
Qed.
Goal True. idtac "@@OBL c04_kinds_distinct". Abort.

Lemma c04_lifetimes : code_life = idpOpenIDCMaxAuthProcessMaxDurationSeconds /\ auth_life = maxAgeSecondsAuthCookie_tok /\
  (authTypeWebauthForCLI = 1024)%Z.
Proof. vm_compute. repeat split; reflexivity. Qed.
Goal True. idtac "@@OBL c04_lifetimes". Abort.
