(* C08 obligations over the regenerated constants (bit values of the AuthType* names as the Go
   compiler computes them now; the lifetime of the admin cache that loadVerifyConfigFile built) *)
From Coq Require Import ZArith NArith Lia List String.
From KM Require Import Model.Auth Model.Authz Model.AdminCache Proofs.AdminCache Props.C08.
From KMW Require Import gen.Consts gen.ConstsC08 gen.Tables.
Import ListNotations.

(* the masks the model tests are the ones the code tests *)
Lemma c08_bits :
  bU2F = AuthTypeU2F /\ bKMX509 = AuthTypeKeymasterX509 /\ bIPCert = AuthTypeIPCertificate /\
  bPassword = AuthTypePassword /\ bTOTP = AuthTypeTOTP.
Proof. vm_compute. repeat split. Qed.
Goal True. idtac "@@OBL c08_bits". Abort.

(* the hardware-token factor is one bit, and no other factor name shares it: a session level
   built from the other names never has it *)
Lemma c08_u2f_bit_distinct :
  AuthTypeU2F = (2 ^ N.log2 AuthTypeU2F)%N /\
  forallb (fun b => N.eqb (N.land b AuthTypeU2F) 0)
    [AuthTypePassword; AuthTypeFederated; AuthTypeSymantecVIP; AuthTypeIPCertificate; AuthTypeTOTP;
     AuthTypeOkta2FA; AuthTypeBootstrapOTP; AuthTypeKeymasterX509; AuthTypeWebauthForCLI; AuthTypeFIDO2] = true.
Proof. vm_compute. split; reflexivity. Qed.
Goal True. idtac "@@OBL c08_u2f_bit_distinct". Abort.

(* the memo's lifetime is the five minutes of the property text *)
Lemma c08_five_minutes : adminCacheMaxDuration_ns = five_minutes /\ (five_minutes = 5 * 60 * 1000000000)%Z.
Proof. vm_compute. split; reflexivity. Qed.
Goal True. idtac "@@OBL c08_five_minutes". Abort.

(* the statement with the production lifetime: if all queries about a user in the last five
   minutes found the directory answering a, IsAdminUser's verdict is a *)
Theorem c08_reevaluated_every_5min : forall c c0 trace pre o post a,
  c0 = None \/ c0 = Some [] ->
  snd (hrun adminCacheMaxDuration_ns c0 (map (trace_query c) trace)) = pre ++ o :: post ->
  q_raw (o_q o) = Some a ->
  (forall o', In o' post -> q_user (o_q o') = q_user (o_q o) ->
              (q_t (o_q o) - q_tp (o_q o') < 5 * 60 * 1000000000)%Z -> q_raw (o_q o') = Some a) ->
  o_v o = a.
Proof.
  destruct c08_five_minutes as [-> _]. intros c c0 trace pre o post a H0 Hs Hn Hall.
  apply (c08_cache_window c c0 trace pre o post a H0 Hs Hn).
  intros o' Hi Hu Ht. apply Hall; assumption.
Qed.
Goal True. idtac "@@OBL c08_reevaluated_every_5min". Abort.

(* no profile-store call with a user name taken from the request outside the handlers that
   Model/Authz.v models behind their authorization test (regenerated call-site table).  Rows of
   class "parameter" are helpers; their own call sites are rows of the same table.  loginHandler
   verifies the password of the user it names before it reads that user's profile (C01/C05). *)
Definition gated_handlers : list string :=
  ["profileHandler"; "u2fTokenManagerHandler"; "totpTokenManagerHandler"; "u2fRegisterRequest";
   "u2fRegisterResponse"; "webauthnBeginRegistration"; "webauthnFinishRegistration";
   "usersHandler"; "addUserHandler"; "deleteUserHandler"; "generateBootstrapOTP"]%string.
Definition self_authenticating : list string := ["loginHandler"]%string.
Definition site_ok (r : string * string * string * string) : bool :=
  let '(f, callee, class, arg) := r in
  if String.eqb class "authenticated" then true
  else if String.eqb class "parameter" then true
  else existsb (String.eqb f) (gated_handlers ++ self_authenticating).
Lemma c08_store_sites : forallb site_ok profile_store_sites = true.
Proof. vm_compute. reflexivity. Qed.
Goal True. idtac "@@OBL c08_store_sites". Abort.
