(* C12 obligations over regenerated constants: the two lifetimes of the authorization step are the
   300 s / 16 h of the property text, and the kind strings of codes and access tokens are the model's. *)
From Coq Require Import String ZArith NArith List Bool.
From KM Require Import Base.Bytes Model.Tokens Model.OIDC Props.C12.
From KMW Require Import gen.TokenConsts gen.Consts.
Import ListNotations.
Open Scope Z_scope.

Lemma c12_16h : auth_life = maxAgeSecondsAuthCookie_tok /\ maxAgeSecondsAuthCookie_tok = maxAgeSecondsAuthCookie /\
  maxAgeSecondsAuthCookie = 16 * 3600.
Proof. vm_compute. repeat split; reflexivity. Qed.
Goal True. idtac "@@OBL c12_16h". Abort.

Lemma c12_code_life : code_life = idpOpenIDCMaxAuthProcessMaxDurationSeconds /\ code_life <= 300.
Proof. vm_compute. split; [reflexivity|discriminate]. Qed.
Goal True. idtac "@@OBL c12_code_life". Abort.

Lemma c12_kinds : b produced_code_kind = k_code /\ b produced_access_kind = k_access /\ produced_id_kind = ""%string /\
  b userinfoPath = b "/idp/oauth2/userinfo".
Proof. vm_compute. repeat split; reflexivity. Qed.
Goal True. idtac "@@OBL c12_kinds". Abort.

(* the ID token of every history expires no later than 16 hours after the authorization step,
   with the regenerated constant *)
Lemma c12_idtoken_16h : forall i pre now r post idt act,
  valid i [] (pre ++ OToken now r :: post) -> token_endpoint i now r = Release idt act ->
  exists t_a u a d, In (OAuthorize t_a u a) pre /\ dec_id (t_claims idt) = Some d /\
    i_exp d <= unix t_a + maxAgeSecondsAuthCookie /\ i_sub d = u /\ i_aud d = [ar_client a].
Proof.
  intros i pre now r post idt act V R.
  destruct (c12_idtoken _ _ _ _ _ _ _ V R) as [t_a [u [a [c [IN [_ [_ [_ [_ [_ [_ [D _]]]]]]]]]]]].
  exists t_a, u, a. eexists. split; [exact IN|]. split; [exact D|]. cbn [i_exp i_sub i_aud].
  split; [|split; reflexivity].
  assert (E : maxAgeSecondsAuthCookie = 57600) by reflexivity. rewrite E. apply Z.add_le_mono_l. discriminate.
Qed.
Goal True. idtac "@@OBL c12_idtoken_16h". Abort.
