(* C20 obligations over the regenerated signing-site and notifier-send tables *)
From Coq Require Import String List Bool.
From KM Require Import Base.Bytes Model.Events Proofs.Events.
From KMW Require Import gen.Tables.
Import ListNotations.
Open Scope string_scope.

(* the table is not empty where it matters: the four signing functions are seen on an issuing path *)
Definition has_issue_site (callee : string) : bool :=
  existsb (fun r : string * string * string * string =>
             let '(_, c, class, _) := r in String.eqb c callee && String.eqb class "issue") signing_sites.
Lemma c20_sites_cover :
  has_issue_site "GenSSHCertFileString" && has_issue_site "GenUserX509Cert" &&
  has_issue_site "GenIPRestrictedX509Cert" && has_issue_site "CreateCertificate" = true.
Proof. vm_compute. reflexivity. Qed.
Goal True. idtac "@@OBL c20_sites_cover". Abort.

(* every channel send reachable from the Publish* methods sits in a select with a default branch *)
Lemma c20_sends_nonblocking :
  negb (Nat.eqb (length notifier_publish_sends) 0) &&
  forallb (fun r : string * string => String.eqb (snd r) "select-default") notifier_publish_sends = true.
Proof. vm_compute. reflexivity. Qed.
Goal True. idtac "@@OBL c20_sends_nonblocking". Abort.

(* every certificate-signing call in cmd/keymasterd is the start-up CA construction or is followed,
   before anything is written to the response or handed back to the caller, by a Publish* call of
   the bytes it produced *)
Lemma c20_sites_publish : forallb site_row_ok signing_sites = true.
Proof. vm_compute. reflexivity. Qed.
Goal True. idtac "@@OBL c20_sites_publish". Abort.

(* hence every row satisfies the specification `reported` for every certificate *)
Lemma c20_sites_reported : forall fn callee class pub, In (fn, callee, class, pub) signing_sites ->
  class = "ca-init" \/ forall ty c, reported c (site_effects ty pub c).
Proof.
  intros fn callee class pub H. apply (site_row_reported fn callee class pub).
  pose proof c20_sites_publish as F. rewrite forallb_forall in F. exact (F _ H).
Qed.
Goal True. idtac "@@OBL c20_sites_reported". Abort.

