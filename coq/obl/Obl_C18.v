(* C18 obligations over the regenerated raw-HTML sink table *)
From Coq Require Import String List Bool.
From KMW Require Import gen.Tables.
Import ListNotations.
Open Scope string_scope.

(* every conversion to template.HTML (or another "trusted" template type) concatenates only
   literals, HTML-escaped values or base-64 text *)
Lemma c18_raw_sinks : forallb (fun r : string * string * string => negb (String.eqb (snd (fst r)) "raw")) raw_html_sinks = true.
Proof. vm_compute. reflexivity. Qed.
Goal True. idtac "@@OBL c18_raw_sinks". Abort.

Lemma c18_login_input_escaped : existsb (fun r : string * string * string => String.eqb (fst (fst r)) "writeHTMLLoginPage" && String.eqb (snd (fst r)) "escaped") raw_html_sinks = true.
Proof. vm_compute. reflexivity. Qed.
Goal True. idtac "@@OBL c18_login_input_escaped". Abort.

(* markup written by hand straight to the response (a sink html/template never sees) interpolates a
   non-literal value only in the admin-port status page (the build version); a new such write must be
   modelled (and escaped) before this obligation lets it through *)
Lemma c18_direct_writes : forallb (fun r : string * string * string =>
    negb (String.eqb (snd (fst r)) "with-args") || String.eqb (fst (fst r)) "ServeHTTP") direct_markup_writes = true.
Proof. vm_compute. reflexivity. Qed.
Goal True. idtac "@@OBL c18_direct_writes". Abort.

(* every template whose output goes anywhere but a buffer (mail bodies) comes from html/template: a
   text/template (no escaping at all) or a template of unknown origin executed into a response fails *)
Lemma c18_templates_html : forallb (fun r : string * string * string * string =>
    String.eqb (snd r) "buffer" || String.eqb (snd (fst r)) "html") template_executions = true.
Proof. vm_compute. reflexivity. Qed.
Goal True. idtac "@@OBL c18_templates_html". Abort.

(* every text/template value constructed in the package is only ever executed into buffers (non-HTML output) *)
Lemma c18_text_templates_offline : forallb (fun r : string * string * string * string =>
    String.eqb (snd (fst r)) "buffer-only") text_template_sites = true.
Proof. vm_compute. reflexivity. Qed.
Goal True. idtac "@@OBL c18_text_templates_offline". Abort.

(* a function that declares a response text/html (or computes the type) is a PAGE construction of the model: it
   writes no non-literal value to the response by hand (Model/Html.v: page = Trusted + Escaped only; the failure
   line with its Raw detail has no declared type) *)
Definition html_like (ct : string) : bool :=
  String.prefix "text/html" ct || String.prefix "application/xhtml" ct || String.prefix "image/svg" ct || String.prefix "expr:" ct.
Lemma c18_html_typed_writers : forallb (fun r : string * string * string =>
    negb (html_like (snd (fst r)) && String.eqb (snd r) "non-literal")) content_type_writers = true.
Proof. vm_compute. reflexivity. Qed.
Goal True. idtac "@@OBL c18_html_typed_writers". Abort.

(* every output action of the HTML template texts sits in a context whose escaper is modelled and proved
   (Props/C18.v c18_field_contexts_safe, c18_quoted_value, c18_unquoted_value): text, RCDATA, quoted attribute,
   unquoted attribute, a quoted URL attribute behind a literal prefix that fixes scheme and host ("/…"), or a quoted
   URL attribute whose field only ever holds server-side literals.  A field inside a script or style element, an
   event handler, a style attribute, a comment, a tag, an unquoted or request-fed URL attribute fails here until
   it gets a model of its own. *)
Definition ctx_ok (r : string * string * string * string * string * string) : bool :=
  let '(_, _, cls, _, _, source) := r in
  String.eqb cls "text" || String.eqb cls "rcdata" || String.eqb cls "attr-dq" || String.eqb cls "attr-sq" ||
  String.eqb cls "attr-unquoted" || String.eqb cls "url-attr-rooted" ||
  (String.eqb cls "url-attr-start" && String.eqb source "server-literal").
Lemma c18_field_contexts : forallb ctx_ok template_field_contexts = true.
Proof. vm_compute. reflexivity. Qed.
Goal True. idtac "@@OBL c18_field_contexts". Abort.


(* every value keymasterd builds by hand and converts to template.HTML (or a sibling type), leaf by leaf with the
   HTML position of each non-constant leaf (c18_handbuilt.go): text run through HTMLEscapeString stands in text,
   RCDATA or a QUOTED attribute value only (Props/C18.v c18_hand_attr_quoted_inert; the unquoted position is
   c18_hand_attr_unquoted_refuted: a blank ends the value); base-64 text stands in text or a quoted (URL) attribute
   value behind a literal prefix.  Anything else - an unquoted attribute, a tag or attribute-name position, script,
   style, event handler, an unescaped leaf - fails until it is modelled. *)
Definition hb_ok (r : string * string * string * string * string) : bool :=
  let '(_, cls, esc, _, _) := r in
  String.eqb esc "literal" ||
  (String.eqb esc "escaped" && (String.eqb cls "text" || String.eqb cls "rcdata" || String.eqb cls "attr-dq" || String.eqb cls "attr-sq")) ||
  (String.eqb esc "base64" && (String.eqb cls "text" || String.eqb cls "attr-dq" || String.eqb cls "attr-sq" ||
                               String.eqb cls "url-attr-prefixed" || String.eqb cls "url-attr-rooted")).
Lemma c18_handbuilt_quoting : forallb hb_ok hand_built_markup = true.
Proof. vm_compute. reflexivity. Qed.
Goal True. idtac "@@OBL c18_handbuilt_quoting". Abort.

(* the admin port has pages (registrations of main() on http.DefaultServeMux, rebuilt by the harness) *)
Lemma c18_admin_routes_listed : negb (Nat.eqb (List.length admin_routes) 0) = true.
Proof. vm_compute. reflexivity. Qed.
Goal True. idtac "@@OBL c18_admin_routes_listed". Abort.
