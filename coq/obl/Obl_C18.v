(* C18 obligations over the regenerated raw-HTML sink table *)
From Coq Require Import String List Bool.
From KMW Require Import gen.Tables.
Import ListNotations.
Open Scope string_scope.

(* every conversion to template.HTML (or another "trusted" template type) concatenates only
   literals, HTML-escaped values or base-64 text *)
Lemma c18_raw_sinks : forallb (fun r : string * string * string => negb (String.eqb (snd (fst r)) "raw")) raw_html_sinks = true.
Proof. vm_compute. reflexivity. Qed.
Goal True. idtac "@@OBL c18_raw_sinks". Abort.

Lemma c18_login_input_escaped : existsb (fun r : string * string * string => String.eqb (fst (fst r)) "writeHTMLLoginPage" && String.eqb (snd (fst r)) "escaped") raw_html_sinks = true.
Proof. vm_compute. reflexivity. Qed.
Goal True. idtac "@@OBL c18_login_input_escaped". Abort.

(* markup written by hand straight to the response (a sink html/template never sees) interpolates a
   non-literal value only in the admin-port status page (the build version); a new such write must be
   modelled (and escaped) before this obligation lets it through *)
Lemma c18_direct_writes : forallb (fun r : string * string * string =>
    negb (String.eqb (snd (fst r)) "with-args") || String.eqb (fst (fst r)) "ServeHTTP") direct_markup_writes = true.
Proof. vm_compute. reflexivity. Qed.
Goal True. idtac "@@OBL c18_direct_writes". Abort.
