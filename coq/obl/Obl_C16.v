(* C16 obligations over the regenerated table of accesses to the shared in-memory maps *)
From Coq Require Import String List Bool.
From KMW Require Import gen.Tables.
Import ListNotations.
Open Scope string_scope.

Definition row := (string * string * string * string * string)%type.   (* function, map, kind, class, mutex held *)
Definition r_map (r : row) : string := let '(_, m, _, _, _) := r in m.
Definition r_kind (r : row) : string := let '(_, _, k, _, _) := r in k.
Definition r_class (r : row) : string := let '(_, _, _, c, _) := r in c.
Definition r_held (r : row) : string := let '(_, _, _, _, h) := r in h.

(* every access is made with a mutex held, or is the whole-map initialisation before any listener exists *)
Definition row_ok (r : row) : bool :=
  (String.eqb (r_class r) "locked" && negb (String.eqb (r_held r) "")) || String.eqb (r_class r) "init".

Lemma c16_lock_table : forallb row_ok shared_accesses = true.
Proof. vm_compute. reflexivity. Qed.
Goal True. idtac "@@OBL c16_lock_table". Abort.

(* all locked accesses to one map hold the same mutex *)
Definition same_guard (a b : row) : bool :=
  negb (String.eqb (r_map a) (r_map b) && String.eqb (r_class a) "locked" && String.eqb (r_class b) "locked")
  || String.eqb (r_held a) (r_held b).

Lemma c16_one_mutex_per_map : forallb (fun a => forallb (same_guard a) shared_accesses) shared_accesses = true.
Proof. vm_compute. reflexivity. Qed.
Goal True. idtac "@@OBL c16_one_mutex_per_map". Abort.

(* the walker saw the maps at all: each is written somewhere under a mutex *)
Lemma c16_table_covers_maps :
  forallb (fun m => existsb (fun r => String.eqb (r_map r) m && String.eqb (r_kind r) "write" && String.eqb (r_class r) "locked") shared_accesses)
          ["localAuthData"; "vipPushCookie"; "pendingOauth2"; "totpLocalRateLimit"] = true.
Proof. vm_compute. reflexivity. Qed.
Goal True. idtac "@@OBL c16_table_covers_maps". Abort.

(* ---- fields of RuntimeState written after start-up (Signer, KeymasterPublicKeys, ...): table shared_field_writes *)
(* every write is made with a mutex held (lexically or at every call site on the way from a handler
   or goroutine), or belongs to configuration loading before any listener exists *)
Lemma c16_field_writes_locked : forallb row_ok shared_field_writes = true.
Proof. vm_compute. reflexivity. Qed.
Goal True. idtac "@@OBL c16_field_writes_locked". Abort.

Lemma c16_one_mutex_per_field : forallb (fun a => forallb (same_guard a) shared_field_writes) shared_field_writes = true.
Proof. vm_compute. reflexivity. Qed.
Goal True. idtac "@@OBL c16_one_mutex_per_field". Abort.

(* the walker saw the unseal path: the signer and the published key list are written under a mutex *)
Lemma c16_field_table_covers :
  forallb (fun m => existsb (fun r => String.eqb (r_map r) m && String.eqb (r_class r) "locked") shared_field_writes)
          ["Signer"; "KeymasterPublicKeys"] = true.
Proof. vm_compute. reflexivity. Qed.
Goal True. idtac "@@OBL c16_field_table_covers". Abort.

(* ---- how values that contain a lock travel (table lock_holder_passing, tools/extract/c16_copies.go):
   a struct with a sync primitive inside (RuntimeState, ...) is handed around by pointer only.  A value
   receiver / by-value parameter / result / explicit *p copy gives the callee a private copy of the mutex
   while the maps inside still point at the shared data: its critical sections exclude nobody, and a copy
   taken while the mutex is held is born locked.  The lexical lock table above cannot see that. *)
Definition prow := (string * string * string * string)%type.   (* function, position, type, mode *)
Definition p_pos (r : prow) : string := let '(_, p, _, _) := r in p.
Definition p_type (r : prow) : string := let '(_, _, t, _) := r in t.
Definition p_mode (r : prow) : string := let '(_, _, _, m) := r in m.

(* the walker saw the methods of RuntimeState at all *)
Lemma c16_lock_holder_table_covers :
  existsb (fun r => String.eqb (p_pos r) "receiver" && String.eqb (p_type r) "RuntimeState" && String.eqb (p_mode r) "pointer") lock_holder_passing = true.
Proof. vm_compute. reflexivity. Qed.
Goal True. idtac "@@OBL c16_lock_holder_table_covers". Abort.

Lemma c16_no_lock_copies : forallb (fun r => String.eqb (p_mode r) "pointer") lock_holder_passing = true.
Proof. vm_compute. reflexivity. Qed.
Goal True. idtac "@@OBL c16_no_lock_copies". Abort.

