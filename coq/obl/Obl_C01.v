(* C01 obligations over the constants compiled from the current tree (gen/Consts.v) and the
   regenerated route table (gen/Routes.v) *)
From Coq Require Import ZArith NArith String Ascii List Bool.
From KM Require Import Base.Bytes Model.Auth Model.Certgen Proofs.CertgenSpec Props.C01.
From KMW Require Import gen.Consts gen.Routes.
Import ListNotations.
Open Scope N_scope.

Definition bytes_of_string (s : string) : bs := map N_of_ascii (list_ascii_of_string s).

(* the factor bits the model uses are the AuthType* constants of app.go *)
Lemma c01_bits :
  bPassword = AuthTypePassword /\ bFederated = AuthTypeFederated /\ bU2F = AuthTypeU2F /\
  bVIP = AuthTypeSymantecVIP /\ bIPCert = AuthTypeIPCertificate /\ bTOTP = AuthTypeTOTP /\
  bOkta = AuthTypeOkta2FA /\ bBootstrap = AuthTypeBootstrapOTP /\ bKMX509 = AuthTypeKeymasterX509 /\
  bCLI = AuthTypeWebauthForCLI /\ bFIDO2 = AuthTypeFIDO2 /\ bAny = AuthTypeAny /\ AuthTypeNone = 0.
Proof. vm_compute. repeat split; reflexivity. Qed.
Goal True. idtac "@@OBL c01_bits". Abort.

(* each is the single bit the specification's factor index names, all inside AuthTypeAny *)
Lemma c01_bits_are_factors :
  map (fun f => 2 ^ bit_index f) [FPassword; FFederated; FU2F; FVIP; FIPCert; FTOTP; FOkta; FBootstrap; FKMX509; FCLI; FFIDO2]
  = [AuthTypePassword; AuthTypeFederated; AuthTypeU2F; AuthTypeSymantecVIP; AuthTypeIPCertificate; AuthTypeTOTP;
     AuthTypeOkta2FA; AuthTypeBootstrapOTP; AuthTypeKeymasterX509; AuthTypeWebauthForCLI; AuthTypeFIDO2] /\
  forallb (fun f => N.testbit AuthTypeAny (bit_index f))
          [FPassword; FFederated; FU2F; FVIP; FIPCert; FTOTP; FOkta; FBootstrap; FKMX509; FCLI; FFIDO2] = true.
Proof. vm_compute. split; reflexivity. Qed.
Goal True. idtac "@@OBL c01_bits_are_factors". Abort.

(* the method strings of lib/webapi/v0/proto *)
Lemma c01_method_strings :
  bytes_of_string protoAuthTypePassword = sPassword /\ bytes_of_string protoAuthTypeFederated = sFederated /\
  bytes_of_string protoAuthTypeU2F = sU2F /\ bytes_of_string protoAuthTypeSymantecVIP = sVIP /\
  bytes_of_string protoAuthTypeIPCertificate = sIPCert /\ bytes_of_string protoAuthTypeTOTP = sTOTP /\
  bytes_of_string protoAuthTypeOkta2FA = sOkta /\ bytes_of_string protoAuthTypeBootstrapOTP = sBootstrap /\
  bytes_of_string protoAuthTypeWebauthForCLI = sCLI.
Proof. vm_compute. repeat split; reflexivity. Qed.
Goal True. idtac "@@OBL c01_method_strings". Abort.

(* the endpoint: "/certgen/" is routed to certGenHandler, and to nothing else *)
Lemma c01_route :
  certgenPath = "/certgen/"%string /\
  map (fun r => snd (fst r)) (filter (fun r => String.eqb (fst (fst r)) "certgenPath") routes) = ["runtimeState.certGenHandler"%string] /\
  filter (fun r => String.eqb (snd (fst r)) "runtimeState.certGenHandler" && negb (String.eqb (fst (fst r)) "certgenPath")) routes = [].
Proof. vm_compute. repeat split; reflexivity. Qed.
Goal True. idtac "@@OBL c01_route". Abort.

(* the property with the regenerated names: a valid password-only session
   (auth_type = AuthTypePassword) under a list without proto.AuthTypePassword gets 401 *)
Theorem c01_password_only : forall expand st now lim q w,
  s_sealed st = false -> ~ In (bytes_of_string protoAuthTypePassword) (s_cfg st) ->
  q_tls q = None -> q_cookie q = Some w -> valid_session (issuer_of st) now w -> w_level w = AuthTypePassword ->
  q_origin q = NoOrigin \/ q_origin q = SameOrigin \/ q_method q = HGet ->
  certgen expand st now lim q = Refused 401.
Proof. exact c01_password_session_401. Qed.
Goal True. idtac "@@OBL c01_password_only". Abort.
