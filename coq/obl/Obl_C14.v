(* C14 obligations over the regenerated constants *)
From Coq Require Import List ZArith Lia.
From KM Require Import Model.TotpLimit Props.C14.
From KMW Require Import gen.Consts.
Open Scope Z_scope.

(* the three constants of validateUserTOTP are the numbers of the property text: once per two
   seconds, reset after a day, every fifth failure *)
Lemma c14_totp_consts :
  {| min_secs := minSecsBetweenTOTPValidations; reset_hours := numHoursForLocalTOTPRateLimitReset;
     every := numFailedTOTPChecksForTimeoutIncrease |} = k_prop.
Proof. vm_compute. reflexivity. Qed.
Goal True. idtac "@@OBL c14_totp_consts". Abort.

(* the property with its own numbers *)
Theorem c14_two_seconds : forall esc ops s i j ti vi oi tj vj oj, (i < j)%nat ->
  nth_error ops i = Some (ti, vi) -> nth_error (snd (run k_prop esc s ops)) i = Some oi ->
  nth_error ops j = Some (tj, vj) -> nth_error (snd (run k_prop esc s ops)) j = Some oj ->
  evaluated oi = true -> evaluated oj = true -> ti + 2 * SEC <= tj.
Proof. intros esc ops s. apply (c14_totp_spacing k_prop esc ops s). vm_compute. discriminate. Qed.
Goal True. idtac "@@OBL c14_two_seconds". Abort.

(* failCount is a uint32: with the constants of the tree the count never exceeds 125, so the
   counter computed mod 2^32 and the unbounded counter of the theorems are the same machine *)
Lemma c14_uint32_consts : forall ops,
  let k := {| min_secs := minSecsBetweenTOTPValidations; reset_hours := numHoursForLocalTOTPRateLimitReset;
              every := numFailedTOTPChecksForTimeoutIncrease |} in
  run_ops32 k true purge_never rl0 ops = run_ops k true purge_never rl0 ops /\
  0 <= fail_count (fst (run_ops k true purge_never rl0 ops)) <= 125.
Proof.
  intros ops k. split.
  - apply c14_uint32_exact; vm_compute; try reflexivity; discriminate.
  - apply (c14_count_bounded k ops); vm_compute; try reflexivity; discriminate.
Qed.
Goal True. idtac "@@OBL c14_uint32_consts". Abort.
