(* C14 obligations over the regenerated constants *)
From Coq Require Import List ZArith Lia.
From KM Require Import Model.TotpLimit Props.C14.
From KMW Require Import gen.Consts.
Open Scope Z_scope.

(* the three constants of validateUserTOTP are the numbers of the property text: once per two
   seconds, reset after a day, every fifth failure *)
Lemma c14_totp_consts :
  {| min_secs := minSecsBetweenTOTPValidations; reset_hours := numHoursForLocalTOTPRateLimitReset;
     every := numFailedTOTPChecksForTimeoutIncrease |} = k_prop.
Proof. vm_compute. reflexivity. Qed.
Goal True. idtac "@@OBL c14_totp_consts". Abort.

(* the property with its own numbers *)
Theorem c14_two_seconds : forall esc ops s i j ti vi oi tj vj oj, (i < j)%nat ->
  nth_error ops i = Some (ti, vi) -> nth_error (snd (run k_prop esc s ops)) i = Some oi ->
  nth_error ops j = Some (tj, vj) -> nth_error (snd (run k_prop esc s ops)) j = Some oj ->
  evaluated oi = true -> evaluated oj = true -> ti + 2 * SEC <= tj.
Proof. intros esc ops s. apply (c14_totp_spacing k_prop esc ops s). vm_compute. discriminate. Qed.
Goal True. idtac "@@OBL c14_two_seconds". Abort.
