(* C15 obligations over the probed settings of the database connections that the real initDB of the tree
   under test opens (work/C15/gen/ConstsC15.v, written by the harness on every run: `PRAGMA journal_mode`
   and `PRAGMA synchronous` asked on several fresh connections of state.cacheDB and state.db).

   The model's "a destination transaction is all or nothing" is a fact about SQLite that holds for a
   connection with a rollback journal in a file or a write-ahead log; these lemmas prove that the probed
   connections are of that kind, i.e. that the precondition of Props.C15.c15_atomic_journal holds for the
   daemon as it is configured now. *)
From Coq Require Import String List NArith Bool.
From KM Require Import Model.Storage Model.StorageJournal Proofs.StorageJournal Props.C15.
From KMW Require Import gen.ConstsC15.
Import ListNotations.

(* the probe reached the cache handle: more than one fresh connection answered *)
Lemma c15_cache_probed : Nat.leb 2 (length (cache_probes c15_conn_probes)) = true.
Proof. vm_compute. reflexivity. Qed.
Goal True. idtac "@@OBL c15_cache_probed". Abort.

(* journal_mode of every probed cache connection is delete | truncate | persist | wal — not off, not memory:
   a failed statement (tx.Rollback) and a killed process (recovery at the next start) give the old content back *)
Lemma c15_cache_is_transactional : forallb probe_transactional (cache_probes c15_conn_probes) = true.
Proof. vm_compute. reflexivity. Qed.
Goal True. idtac "@@OBL c15_cache_is_transactional". Abort.

(* hence the theorem applies to the daemon as configured: on every probed connection, for every way short
   of the machine going down in which the copy ends early, every environment, state and fault *)
Lemma c15_atomic_as_configured : forall p, In p (cache_probes c15_conn_probes) ->
  exists j, jmode_of_string (cp_journal p) = Some j /\
            forall i mix s f, i <> IPower -> atomic_at (step_j j (cp_sync p) i mix) s f.
Proof.
  intros p Hp. apply probe_atomic_running.
  exact (proj1 (forallb_forall _ _) c15_cache_is_transactional p Hp).
Qed.
Goal True. idtac "@@OBL c15_atomic_as_configured". Abort.

(* synchronous >= normal on every probed cache connection: the journal is on the disk before the database
   pages are overwritten, so the old content also comes back after a power loss / kernel crash *)
Lemma c15_cache_journal_synced : forallb probe_power_safe (cache_probes c15_conn_probes) = true.
Proof. vm_compute. reflexivity. Qed.
Goal True. idtac "@@OBL c15_cache_journal_synced". Abort.

Lemma c15_atomic_as_configured_power : forall p, In p (cache_probes c15_conn_probes) ->
  exists j, jmode_of_string (cp_journal p) = Some j /\
            forall i mix s f, atomic_at (step_j j (cp_sync p) i mix) s f.
Proof.
  intros p Hp. apply probe_atomic.
  - exact (proj1 (forallb_forall _ _) c15_cache_is_transactional p Hp).
  - exact (proj1 (forallb_forall _ _) c15_cache_journal_synced p Hp).
Qed.
Goal True. idtac "@@OBL c15_atomic_as_configured_power". Abort.
