(* C09 obligations over the regenerated table of writes of RuntimeState.KeymasterPublicKeys
   (tools/extract/c09_pubkeys.go).  c09_published_stable (Props/C09.v) holds for writers of the
   published-key list that keep a loaded signer's key listed; here: the code has no other kind. *)
From Coq Require Import String List Bool.
From KMW Require Import gen.Tables.
Import ListNotations.
Open Scope string_scope.

Definition prow := (string * string * string * string * string)%type.   (* function, shape, appended, class, mutex *)
Definition p_shape (r : prow) : string := let '(_, s, _, _, _) := r in s.
Definition p_app (r : prow) : string := let '(_, _, a, _, _) := r in a.
Definition p_class (r : prow) : string := let '(_, _, _, c, _) := r in c.
Definition p_mutex (r : prow) : string := let '(_, _, _, _, m) := r in m.

(* a write after start-up is an append of a signer's public key under RuntimeState.Mutex; anything else
   (a whole-list assignment, an append of something else, no mutex) must belong to configuration
   loading before any listener exists *)
Definition prow_ok (r : prow) : bool :=
  String.eqb (p_class r) "init" ||
  (String.eqb (p_shape r) "append" && String.eqb (p_app r) "signer-public" &&
   String.eqb (p_class r) "locked" && String.eqb (p_mutex r) "Mutex").

Lemma c09_pubkeys_only_appended : forallb prow_ok pubkey_writes = true.
Proof. vm_compute. reflexivity. Qed.
Goal True. idtac "@@OBL c09_pubkeys_only_appended". Abort.

(* the walker saw the unseal path: some write after start-up appends a signer's key *)
Lemma c09_pubkeys_table_covers :
  existsb (fun r => String.eqb (p_shape r) "append" && String.eqb (p_app r) "signer-public" && String.eqb (p_class r) "locked") pubkey_writes = true.
Proof. vm_compute. reflexivity. Qed.
Goal True. idtac "@@OBL c09_pubkeys_table_covers". Abort.
