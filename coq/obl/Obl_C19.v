(* C19 obligations over tables regenerated from the current tree *)
From Coq Require Import String List Bool NArith.
From KM Require Import Base.Bytes Model.KeyStrength Model.Client Proofs.Client Model.ServerKeys Proofs.ServerKeys.
From KMW Require Import gen.Tables.
Import ListNotations.
Open Scope string_scope.

(* every public-key serialisation in the client's request builders takes signer.Public(); both
   serialisers of doCertRequest are seen *)
Lemma c19_serialises_public_only :
  forallb (fun r : string * string * string => String.eqb (snd r) "signer.Public()") client_pubkey_serialisations &&
  existsb (fun r : string * string * string => String.eqb (fst (fst r)) "doCertRequest" && String.eqb (snd (fst r)) "x509.MarshalPKIXPublicKey") client_pubkey_serialisations &&
  existsb (fun r : string * string * string => String.eqb (fst (fst r)) "doCertRequest" && String.eqb (snd (fst r)) "ssh.NewPublicKey") client_pubkey_serialisations = true.
Proof. vm_compute. reflexivity. Qed.
Goal True. idtac "@@OBL c19_serialises_public_only". Abort.

(* every marshalled private key is used only as the content of a file written with mode 0600, and
   every file write whose content is private has mode 0600 *)
Lemma c19_private_to_0600_files :
  forallb (fun r : string * string * string => String.eqb (snd r) "file-0600") client_private_marshals &&
  negb (Nat.eqb (length client_private_marshals) 0) &&
  forallb (fun r : string * string * string * string =>
             let '(_, _, mode, class) := r in negb (String.eqb class "private") || String.eqb mode "0600") client_file_writes = true.
Proof. vm_compute. reflexivity. Qed.
Goal True. idtac "@@OBL c19_private_to_0600_files". Abort.

(* every key type the client offers (SSH: main key and Ed25519; X.509: main key; for each of the
   preferences rsa, p256, p384) is named by the server's pattern and passes the strength predicate,
   with the pattern alternatives and the client's RSA size as they are in the source now *)
Lemma c19_offered_accepted : offered_all_accepted ssh_key_type_alternatives (N.of_nat client_rsa_key_size) = true.
Proof. vm_compute. reflexivity. Qed.
Goal True. idtac "@@OBL c19_offered_accepted". Abort.

Lemma c19_offered_accepted_all : forall p t,
  (In t (offered_ssh p) -> In (ssh_name t) ssh_key_type_alternatives /\ validate (desc (N.of_nat client_rsa_key_size) t) = true) /\
  (In t (offered_x509 p) -> validate (desc (N.of_nat client_rsa_key_size) t) = true).
Proof.
  intros p t. apply (offered_all_accepted_spec _ _ c19_offered_accepted p t), all_prefs_complete.
Qed.
Goal True. idtac "@@OBL c19_offered_accepted_all". Abort.


(* the same for every CA key material the daemon starts with (any algorithm / private-key file format of the main
   CA, with or without an Ed25519 CA in either format), over the regenerated pattern and RSA size: every offered
   SSH key type is certified (Ed25519 whenever an Ed25519 CA is configured, else "no such CA"), every X.509 type too *)
Lemma c19_offered_certified_all_ca : forall k s, load_signers k = Some s -> forall p t,
  (In t (offered_ssh p) -> t <> KEd25519 \/ sk_ed k <> None ->
     ssh_answer_of ssh_key_type_alternatives (N.of_nat client_rsa_key_size) s t = SshCertified) /\
  (In t (offered_ssh p) -> t = KEd25519 -> sk_ed k = None ->
     ssh_answer_of ssh_key_type_alternatives (N.of_nat client_rsa_key_size) s t = SshNoSuchCA) /\
  (In t (offered_x509 p) -> x509_certified (N.of_nat client_rsa_key_size) s t = true).
Proof. exact (offered_certified_any_ca _ _ c19_offered_accepted). Qed.
Goal True. idtac "@@OBL c19_offered_certified_all_ca". Abort.
