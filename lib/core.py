"""Shared driver for all checks: extractor, Coq obligations/audit, Go harness, case evaluation,
verdict, evidence and replay files."""
import fcntl
import hashlib
import json
import os
import re
import shutil
import subprocess
import sys
import time

VERIF = os.path.dirname(os.path.dirname(os.path.abspath(__file__)))
REPO = os.environ.get("VERIF_REPO", "/repo")
COQ = os.path.join(VERIF, "coq")
WORK = os.environ.get("VERIF_WORK") or os.path.join(VERIF, "work")   # VERIF_WORK: parallel sweeps use their own scratch area

GOENV = dict(os.environ)
GOENV.update({"GOFLAGS": "-mod=mod", "GOPROXY": "off"})
GOENV.pop("GOSUMDB", None)
if GOENV.get("GOTOOLCHAIN") == "local":
    GOENV.pop("GOTOOLCHAIN")
GOENV.pop("CARGO_NET_OFFLINE", None)


def sh(cmd, cwd=None, env=None, timeout=None, input=None):
    """run, return (rc, stdout+stderr)"""
    try:
        p = subprocess.run(cmd, cwd=cwd, env=env, timeout=timeout, input=input,
                           stdout=subprocess.PIPE, stderr=subprocess.STDOUT, text=True, errors="replace",
                           shell=isinstance(cmd, str))
        return p.returncode, p.stdout
    except subprocess.TimeoutExpired as e:
        out = e.stdout or ""
        if isinstance(out, bytes):
            out = out.decode("utf-8", "replace")
        return 124, out + "\n[timeout after %ss]" % timeout


def load_known():
    """known_findings.txt, one entry per line:
         known: property=<id> key=<key> <what fails>
         fixed: property=<id> <commit> <what failed>        (suppresses nothing)"""
    path = os.path.join(VERIF, "known_findings.txt")
    out = []
    if os.path.exists(path):
        for line in open(path):
            line = line.strip()
            m = re.match(r"known: property=(\S+) key=(\S+) (.*)$", line)
            if m:
                out.append({"status": "known", "property": m.group(1), "key": m.group(2), "what": m.group(3)})
                continue
            m = re.match(r"fixed: property=(\S+) (\S+) (.*)$", line)
            if m:
                out.append({"status": "fixed", "property": m.group(1), "commit": m.group(2), "what": m.group(3)})
    return out


class Ctx:
    def __init__(self, pid, tier, seed):
        self.pid = pid
        self.tier = tier
        self.seed = seed
        self.t0 = time.time()
        self.work = os.path.join(WORK, pid)
        shutil.rmtree(self.work, ignore_errors=True)
        os.makedirs(self.work, exist_ok=True)
        os.makedirs(os.path.join(VERIF, "evidence"), exist_ok=True)
        self.obligations = []      # (name, ok:bool, detail)
        self.hits = []             # oracle hits: dict(key, what, case)
        self.broken = []           # (kind, name, detail) proof / correspondence failures w/o input
        self.cov = {"evaluations": 0, "distinct_nontrivial": 0, "samples": [],
                    "traces_validated_against_impl": 0}
        self.rules = []
        self.dist = {}
        self.unproved = []
        self.assumptions = []
        self.axioms = set()
        self.known = [k for k in load_known() if k.get("property") == pid]
        self.lines = []

    # ------------------------------------------------------------------ logging
    def log(self, msg):
        print("# " + msg, flush=True)

    # ------------------------------------------------------------------ coq
    def ensure_static_coq(self):
        """(re)build the static theories; incremental, serialised by a file lock"""
        lock = open(os.path.join(COQ, ".build.lock"), "w")
        fcntl.flock(lock, fcntl.LOCK_EX)
        try:
            rc, out = sh([os.path.join(VERIF, "bin", "build-coq")], cwd=VERIF, timeout=3000)
        finally:
            fcntl.flock(lock, fcntl.LOCK_UN)
        if rc != 0:
            self.log("static Coq build FAILED:\n" + out[-3000:])
        return rc == 0, out

    def coqc(self, vfile, timeout=900, extra_q=()):
        """compile a generated .v in the work dir against the static theories"""
        cmd = ["coqc", "-w", "-deprecated-hint-without-locality,-deprecated-syntactic-definition",
               "-Q", os.path.join(COQ, "theories"), "KM", "-Q", self.work, "KMW"]
        for d, n in extra_q:
            cmd += ["-Q", d, n]
        cmd.append(vfile)
        # big case files: lift the native stack limit for coqc (the thorough tier evaluates tens of thousands of cases)
        cmd = ["sh", "-c", 'ulimit -s unlimited 2>/dev/null || ulimit -s 1000000 2>/dev/null; exec "$@"', "coqc-wrapper"] + cmd
        return sh(cmd, cwd=self.work, timeout=timeout)

    def audit(self, module, theorems):
        """Print Assumptions for each property theorem; each is one obligation."""
        ok_static, out = self.ensure_static_coq()
        src = "From KM Require Import %s.\n" % module
        for t in theorems:
            src += 'Goal True. idtac "@@BEGIN %s". Abort.\nPrint Assumptions %s.\nGoal True. idtac "@@END %s". Abort.\n' % (t, t, t)
        path = os.path.join(self.work, "Audit_%s.v" % module.replace(".", "_"))
        open(path, "w").write(src)
        rc, out2 = self.coqc(path)
        if self.tier == "thorough" and ok_static and not getattr(self, "replay", None) and not os.environ.get("VERIF_ESCALATED"):
            self.coqchk(module)
        for t in theorems:
            m = re.search(r"@@BEGIN %s\n(.*?)@@END %s" % (re.escape(t), re.escape(t)), out2, re.S)
            name = "%s.%s" % (module, t)
            if not ok_static or m is None:
                detail = (out if not ok_static else out2)[-1500:]
                self.obligations.append((name, False, "theorem not accepted by coqc"))
                self.broken.append(("obligation", name, detail))
                continue
            txt = m.group(1).strip()
            if "Closed under the global context" in txt:
                self.obligations.append((name, True, "closed"))
            else:
                axs = re.findall(r"^(\S+)\s*:", txt, re.M)
                bad = [a for a in axs if not allowed_axiom(a)]
                for a in axs:
                    self.axioms.add(a)
                if bad:
                    self.obligations.append((name, False, "depends on " + ",".join(bad)))
                    self.broken.append(("obligation", name, txt[:1500]))
                else:
                    self.obligations.append((name, True, "axioms: " + ",".join(axs)))

    def coqchk(self, module, timeout=3000):
        """thorough tier: re-check the compiled closure of a property module with the independent
        checker and record the axioms it reports"""
        rc, out = sh(["coqchk", "-silent", "-o", "-Q", os.path.join(COQ, "theories"), "KM", "KM." + module],
                     cwd=COQ, timeout=timeout)
        m = re.search(r"\* Axioms:(.*?)\n\s*\n\* Constants/Inductives relying on type-in-type:(.*?)\n\s*\n\* Constants/Inductives relying on unsafe \(co\)fixpoints:(.*?)\n\s*\n\* Inductives whose positivity is assumed:(.*?)\n", out + "\n\n", re.S)
        name = "coqchk:KM.%s" % module
        if rc != 0 or not m:
            self.obligations.append((name, False, "coqchk failed"))
            self.broken.append(("obligation", name, out[-2000:]))
            return
        axioms, tit, unsafe, pos = [" ".join(x.split()) for x in m.groups()]
        self.coqchk_report = {"axioms": axioms, "type_in_type": tit, "unsafe_fixpoints": unsafe, "assumed_positivity": pos}
        ok = tit == "<none>" and unsafe == "<none>" and pos == "<none>" and \
            all(allowed_axiom(a.split(":")[0].strip()) for a in ([] if axioms == "<none>" else axioms.split(" ")) if a and not a.startswith(":"))
        self.obligations.append((name, ok, "axioms: %s" % axioms))
        if not ok:
            self.broken.append(("obligation", name, out[-2000:]))

    def gen_obligations(self, oblfile, names, gen_dir=None):
        """compile coq/obl/<oblfile> (which closes obligations over regenerated tables in
        work/<pid>/gen); `names` are the lemma names it must define."""
        src = os.path.join(COQ, "obl", oblfile)
        dst = os.path.join(self.work, oblfile)
        shutil.copy(src, dst)
        rc, out = self.coqc(dst)
        if rc == 0:
            for n in names:
                self.obligations.append(("gen:" + n, True, "closed over regenerated tables"))
            return True, out
        # find which lemma failed: the last "@@OBL name" marker printed before the error
        done = re.findall(r"@@OBL (\S+)", out)
        failed = None
        for n in names:
            if n not in done:
                failed = n
                break
        for n in names:
            ok = n in done
            self.obligations.append(("gen:" + n, ok, "closed" if ok else "not closed"))
        self.broken.append(("obligation", "gen:%s" % (failed or oblfile), out[-2000:]))
        return False, out

    def eval_cases(self, vfile, label="correspondence", timeout=1800):
        """compile a generated case file; it must print `@@MISMATCHES [..]` lines (via
        Print of a list) — we grep for `= []`."""
        rc, out = self.coqc(vfile, timeout=timeout)
        if rc != 0:
            self.obligations.append(("corr:" + label, False, "case file rejected"))
            self.broken.append(("correspondence", label, out[-2000:]))
            return None
        # outputs of the form:  name = [..] : list ..
        res = {}
        for m in re.finditer(r"^(\w+) =\s*(.*?)\n\s*: ", out, re.S | re.M):
            res[m.group(1)] = " ".join(m.group(2).split())
        return res

    # ------------------------------------------------------------------ go
    def extract(self):
        """run the AST extractor on the current /repo tree -> work/<pid>/gen"""
        gen = os.path.join(self.work, "gen")
        os.makedirs(gen, exist_ok=True)
        exe = os.path.join(VERIF, "tools", "extract", "extract")
        srcdir = os.path.join(VERIF, "tools", "extract")
        if not os.path.exists(exe) or os.path.getmtime(exe) < max(
                os.path.getmtime(os.path.join(srcdir, f)) for f in os.listdir(srcdir) if f.endswith(".go")):
            env = dict(GOENV)
            env["GOTOOLCHAIN"] = "local"
            env["GOFLAGS"] = ""
            rc, out = sh(["go", "build", "-o", "extract", "."],
                         cwd=os.path.join(VERIF, "tools", "extract"), env=env, timeout=600)
            if rc != 0:
                raise RuntimeError("extractor build failed: " + out)
        rc, out = sh([exe, "-repo", REPO, "-out", gen], timeout=300)
        if rc != 0:
            self.broken.append(("correspondence", "extractor", out[-2000:]))
            return None
        return gen

    def go_harness(self, pkg, test, files, env=None, timeout=1500, race=False, extra_overlay=None):
        """run one harness test, overlaid into /repo/<pkg>.  files: list of paths relative to
        /verif/harness (or absolute, e.g. generated).  Returns (ok, result dict or None, log)."""
        overlay = {}
        for f in files:
            src = f if os.path.isabs(f) else os.path.join(VERIF, "harness", f)
            base = os.path.basename(src)
            if not base.endswith("_test.go"):
                base = base[:-3] + "_test.go" if base.endswith(".go") else base + "_test.go"
            overlay[os.path.join(REPO, pkg, "zz_verif_" + base)] = src
        # the package's own dependency_monitor_test.go binds a fixed TCP port in init() and
        # crashes the test binary when the port is busy (two checks running at once): overlay a
        # copy that listens on an ephemeral port instead
        dm = os.path.join(REPO, pkg, "dependency_monitor_test.go")
        if os.path.exists(dm):
            txt = open(dm).read()
            if '"127.0.0.1:10638"' in txt:
                patched = os.path.join(self.work, "dependency_monitor_patched_test.go")
                open(patched, "w").write(txt.replace('tls.Listen("tcp", "127.0.0.1:10638"', 'tls.Listen("tcp", "127.0.0.1:0"'))
                overlay[dm] = patched
        # auth_oauth2_test.go's init() serves on 127.0.0.1:12345 and kills the test binary when its
        # probe request fails (port taken by a concurrent check that is just exiting): overlay a
        # copy that only logs the failed probe
        oa = os.path.join(REPO, pkg, "auth_oauth2_test.go")
        if os.path.exists(oa):
            txt = open(oa).read()
            probe = '_, err := http.Get("http://localhost:12345")\n\tif err != nil {\n\t\tlogger.Fatal(err)'
            if probe in txt:
                patched = os.path.join(self.work, "auth_oauth2_patched_test.go")
                open(patched, "w").write(txt.replace(probe, probe.replace("logger.Fatal(err)", "logger.Println(err)")))
                overlay[oa] = patched
        if extra_overlay:
            overlay.update(extra_overlay)
        ov = os.path.join(self.work, "overlay_%s.json" % test)
        json.dump({"Replace": overlay}, open(ov, "w"), indent=1)
        modfile = os.path.join(self.work, "go.mod")
        # atomically: a check may run several harnesses in parallel (C19 runs four) and a `go test` that reads a
        # half-written go.mod fails with "missing module declaration"
        for name in ("go.mod", "go.sum"):
            tmpcopy = os.path.join(self.work, ".%s.%s.tmp" % (name, test))
            shutil.copy(os.path.join(REPO, name), tmpcopy)
            os.replace(tmpcopy, os.path.join(self.work, name))
        e = dict(GOENV)
        e.update({"VERIF_OUT": self.work, "VERIF_SEED": str(self.seed), "VERIF_TIER": self.tier,
                  "VERIF_DIR": VERIF})
        # harness temp files (generated config material, sqlite files) live under the work dir
        # and are removed after the run, so nothing accumulates in /tmp
        tmpd = os.path.join(self.work, "tmp_" + test)   # per test: harnesses may run in parallel
        os.makedirs(tmpd, exist_ok=True)
        e["TMPDIR"] = tmpd
        if env:
            e.update(env)
        cmd = ["go", "test", "-modfile=" + modfile, "-overlay", ov, "-count=1", "-vet=off",
               "-timeout", "%ds" % timeout, "-run", "^%s$" % test]
        if race:
            cmd.append("-race")
        cmd.append("./" + pkg)
        res_path = os.path.join(self.work, test + ".json")
        if os.path.exists(res_path):
            os.remove(res_path)
        rc, out = sh(cmd, cwd=REPO, env=e, timeout=timeout + 120)
        shutil.rmtree(tmpd, ignore_errors=True)
        open(os.path.join(self.work, test + ".log"), "w").write(out)
        result = None
        if os.path.exists(res_path):
            try:
                result = json.load(open(res_path))
            except Exception as ex:  # noqa
                result = None
        if result is None:
            self.broken.append(("correspondence", "harness:" + test, out[-3000:]))
            self.obligations.append(("harness:" + test, False, "harness did not complete"))
            return False, None, out
        self.absorb(result)
        return rc == 0, result, out

    def absorb(self, result):
        c = self.cov
        c["evaluations"] += int(result.get("evaluations", 0))
        c["distinct_nontrivial"] += int(result.get("distinct_nontrivial", 0))
        c["traces_validated_against_impl"] += int(result.get("traces", result.get("evaluations", 0)))
        for s in (result.get("samples") or [])[:6]:
            c["samples"].append(s)
        if result.get("rule"):
            self.rules.append(result["rule"])
        for k, v in (result.get("dist") or {}).items():
            self.dist[k] = v
        for h in result.get("oracle_hits", []) or []:
            self.hits.append(h)
        if result.get("exhaustive"):
            c["exhaustive"] = True

    # ------------------------------------------------------------------ verdict
    def escalate(self):
        """DESIGN.md 2.6: a proof obligation or the correspondence broke and no oracle fired on the regular
        cases.  Search harder for a concrete failing input before giving the no-input verdict: the same check
        with the thorough generator volume under other seeds, in its own scratch area, oracles only (no
        evidence, no coqchk), bounded in time.  Returns the VIOLATION lines (with replay files) it produced."""
        if os.environ.get("VERIF_NO_ESCALATION") or getattr(self, "replay", None):
            return []
        budget = int(os.environ.get("VERIF_ESCALATION_S", "600"))
        t_end = time.time() + budget
        lines = []
        plans = [("thorough", self.seed + 1)] if self.tier != "thorough" else []
        plans += [("quick", self.seed + 2), ("quick", self.seed + 3)]
        for tier, seed in plans:
            left = int(t_end - time.time())
            if left < 30:
                break
            self.log("escalated search for a failing input: tier=%s seed=%d (at most %ds)" % (tier, seed, left))
            env = dict(os.environ, VERIF_ESCALATED="1", VERIF_NO_EVIDENCE="1", VERIF_SEED=str(seed), VERIF_TIER=tier,
                       VERIF_WORK=os.path.join(WORK, "_esc_" + self.pid))
            rc, out = sh([os.path.join(VERIF, "bin", "check"), self.pid, "--tier", tier], cwd=VERIF, env=env, timeout=left)
            for ln in out.splitlines():
                if ln.startswith("VIOLATION ") and "no-failing-input-found" not in ln:
                    lines.append(ln)
            if lines:
                break
        shutil.rmtree(os.path.join(WORK, "_esc_" + self.pid), ignore_errors=True)
        return lines

    def finish(self, checker_cmd, trusted_base, level_unproved=None):
        known_keys = {k["key"]: k for k in self.known if k.get("status") == "known"}
        violations = []
        seen_known = {}
        for h in self.hits:
            if h["key"] in known_keys:
                seen_known.setdefault(h["key"], h)
            else:
                violations.append(h)
        for key, h in seen_known.items():
            print("KNOWN-FINDING: property=%s %s" % (self.pid, known_keys[key].get("what", h.get("what", key))),
                  flush=True)
        rc = 0
        os.makedirs(os.path.join(VERIF, "replays"), exist_ok=True)
        if getattr(self, "replay", None):
            # replay mode: the whole generator is deterministic (seed from the replay file), so the
            # recorded case is re-executed at its place in the run; report whether the same oracle
            # key / the same broken theorem shows up again.  Evidence is not rewritten.
            rp = self.replay
            if rp.get("key"):
                again = [v for v in violations if v["key"] == rp["key"]]
                for v in again[:1]:
                    print("# replay: reproduced key=%s: %s" % (v["key"], v.get("what", "")), flush=True)
                    print("# replay: observed=%s" % json.dumps(v.get("observed"))[:600], flush=True)
                reproduced = bool(again)
            else:
                reproduced = any(n == rp.get("theorem") for _, n, _ in self.broken)
                if reproduced:
                    print("# replay: %s still does not check" % rp.get("theorem"), flush=True)
            if reproduced:
                print("VIOLATION property=%s replay=%s%s" % (self.pid, rp.get("_path", "?"),
                      "" if rp.get("key") else " no-failing-input-found"), flush=True)
                return 1
            print("# replay: not reproduced on the current tree", flush=True)
            return 0
        if violations:
            # group by key, one replay per distinct key (first 5)
            bykey = {}
            for v in violations:
                bykey.setdefault(v["key"], v)
            for i, (key, v) in enumerate(list(bykey.items())[:5]):
                path = os.path.join(VERIF, "replays", "%s_%s_%d.json" % (
                    self.pid, hashlib.sha1(key.encode()).hexdigest()[:8], i))
                json.dump({"property": self.pid, "kind": v.get("kind", "input"), "seed": self.seed,
                           "oracle": v.get("oracle", ""), "key": key, "what": v.get("what", ""),
                           "case": v.get("case"), "observed": v.get("observed"),
                           "model": v.get("model"),
                           "how": "bin/check %s --replay %s" % (self.pid, path)},
                          open(path, "w"), indent=1)
                print("VIOLATION property=%s replay=%s" % (self.pid, path), flush=True)
            rc = 1
        elif self.broken and os.environ.get("VERIF_ESCALATED"):
            rc = 1   # an escalation run reports concrete inputs only; the caller prints the no-input verdict
        elif self.broken:
            kind, name, detail = self.broken[0]
            found = self.escalate()
            for line in found:
                print(line, flush=True)
            if found:
                rc = 1
            path = os.path.join(VERIF, "replays", "%s_broken_%s.json" % (
                self.pid, hashlib.sha1(name.encode()).hexdigest()[:8]))
            json.dump({"property": self.pid, "kind": kind, "theorem": name, "seed": self.seed,
                       "detail": detail,
                       "all_broken": [(k, n) for k, n, _ in self.broken],
                       "note": "proof obligation or correspondence no longer checks; the escalated "
                               "search found no input on which the property's own oracle fails"},
                      open(path, "w"), indent=1)
            if not found:
                print("VIOLATION property=%s replay=%s no-failing-input-found" % (self.pid, path),
                      flush=True)
            rc = 1
        ob = len(self.obligations)
        dis = sum(1 for _, ok, _ in self.obligations if ok)
        cov = dict(self.cov)
        cov.update({
            "obligations": ob, "discharged": dis,
            "obligation_list": [{"name": n, "ok": ok, "detail": d} for n, ok, d in self.obligations],
            "checker_cmd": checker_cmd,
            "trusted_base": trusted_base + (["axioms reported by Print Assumptions: " + ", ".join(sorted(self.axioms))] if self.axioms else ["Print Assumptions: every property theorem is closed under the global context (no axioms)"]),
            "rule": " | ".join(self.rules),
            "distribution": self.dist,
            "known_findings_seen": sorted(seen_known.keys()),
        })
        if getattr(self, "coqchk_report", None):
            cov["coqchk"] = self.coqchk_report
        if level_unproved:
            cov["unproved"] = level_unproved
        if not cov["samples"]:
            cov["samples"] = [{"obligation": n} for n, _, _ in self.obligations[:3]]
        ev = {"property_id": self.pid, "tier": self.tier, "seed": self.seed, "level": "proof",
              "coverage": cov, "assumptions": self.assumptions,
              "wall_s": round(time.time() - self.t0, 2), "violations": len(violations) + (1 if (self.broken and not violations) else 0)}
        if not os.environ.get("VERIF_NO_EVIDENCE"):   # seeded / refactoring sweeps must not touch the evidence of the clean tree
            json.dump(ev, open(os.path.join(VERIF, "evidence", self.pid + ".json"), "w"), indent=1)
        self.log("obligations %d/%d, evaluations %d, hits %d (known %d), broken %d, %.1fs" % (
            dis, ob, cov["evaluations"], len(self.hits), len(seen_known), len(self.broken),
            time.time() - self.t0))
        return rc


ALLOWED_AXIOMS = {
    "functional_extensionality_dep", "proof_irrelevance", "classic", "JMeq_eq", "Eqdep.Eq_rect_eq.eq_rect_eq",
    "eq_rect_eq", "propositional_extensionality", "FunctionalExtensionality.functional_extensionality_dep",
    "Classical_Prop.classic", "ProofIrrelevance.proof_irrelevance",
}


def allowed_axiom(a):
    if a in ALLOWED_AXIOMS:
        return True
    # primitive integers used only by generated case files
    return a.startswith("Uint63.") or a.startswith("PrimInt63.") or a.startswith("PrimFloat.")


def coq_bytes(b):
    return "[" + ";".join(str(x) for x in b) + "]"
