"""Turn the Go race detector's reports in a `go test -race` log into oracle hits.
One hit per distinct pair of access sites (function names inside the keymaster tree, so that
the key survives line-number changes)."""
import os
import re

ACCESS = re.compile(r"^(Read|Write|Previous read|Previous write|Atomic read|Atomic write|Previous atomic read|Previous atomic write) at 0x[0-9a-f]+ by ")
FRAME_FN = re.compile(r"^  (\S.*)\(\)$|^  (\S.*)\(.*\)$")
FRAME_LOC = re.compile(r"^      (\S+?):(\d+)(?: \+0x[0-9a-f]+)?$")


def short_fn(fn):
    fn = fn.split("/")[-1]                 # keymasterd.(*RuntimeState).readyzHandler
    fn = re.sub(r"^[A-Za-z0-9_]+\.", "", fn, count=1)
    fn = fn.replace("(*RuntimeState).", "").replace("RuntimeState.", "")
    fn = re.sub(r"\.func\d+(\.\d+)*$", "", fn)
    return fn


def parse(log, repo):
    """-> list of dict(sites=[(fn, file:line, in_harness)], text)"""
    out = []
    blocks = log.split("==================")
    for b in blocks:
        if "WARNING: DATA RACE" not in b:
            continue
        lines = b.split("\n")
        sites = []
        i = 0
        while i < len(lines):
            if ACCESS.match(lines[i]):
                kind = lines[i].split(" at ")[0]
                j = i + 1
                site = None
                first = None
                while j + 1 < len(lines) and lines[j].startswith("  ") and lines[j].strip():
                    m = FRAME_FN.match(lines[j])
                    l = FRAME_LOC.match(lines[j + 1]) if j + 1 < len(lines) else None
                    if m and l:
                        fn = m.group(1) or m.group(2)
                        path = l.group(1)
                        base = os.path.basename(path)
                        inrepo = path.startswith(repo + "/") or "/keymaster/" in path
                        harness = base.startswith("zz_verif_")
                        if first is None:
                            first = (short_fn(fn), "%s:%s" % (base, l.group(2)), harness)
                        if inrepo and not harness and site is None:
                            site = (short_fn(fn), "%s:%s" % (base, l.group(2)), False)
                        j += 2
                    else:
                        j += 1
                sites.append((kind, site or first or ("?", "?", True)))
                i = j
            else:
                i += 1
        if len(sites) >= 2:
            out.append({"sites": sites[:2], "text": b.strip()[:3000]})
    return out


def absorb(ctx, log, pid, what_prefix="data race reported by the Go race detector"):
    """append one oracle hit per distinct site pair; returns the number of reports"""
    reports = parse(log or "", os.environ.get("VERIF_REPO", "/repo"))
    seen = set()
    ignored = 0
    for r in reports:
        (k1, s1), (k2, s2) = r["sites"]
        # both accesses inside the repository's own *_test.go files (their init() functions start
        # listeners on fixed ports that another test binary running on this machine may hit while
        # the package is still initialising): not keymaster code, not the harness
        if all(s[1].split(":")[0].endswith("_test.go") and not s[1].startswith("zz_verif_") for s in (s1, s2)):
            ignored += 1
            continue
        fns = sorted([s1[0], s2[0]])
        key = "%s:race:%s|%s" % (pid, fns[0], fns[1])
        if s1[2] and s2[2]:
            key = "%s:race:harness-only:%s|%s" % (pid, fns[0], fns[1])
        if key in seen:
            continue
        seen.add(key)
        ctx.hits.append({"key": key, "oracle": "race detector: two unsynchronised accesses to the same memory, at least one a write",
                         "kind": "schedule",
                         "what": "%s: %s in %s (%s) vs %s in %s (%s)" % (what_prefix, k1.lower(), s1[0], s1[1], k2.lower(), s2[0], s2[1]),
                         "case": {"sites": [s1[:2], s2[:2]]}, "observed": r["text"]})
    ctx.dist["race_reports"] = ctx.dist.get("race_reports", 0) + len(reports) - ignored
    if ignored:
        ctx.dist["race_reports_in_repo_test_files_ignored"] = ctx.dist.get("race_reports_in_repo_test_files_ignored", 0) + ignored
    return len(reports) - ignored
