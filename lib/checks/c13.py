from checks.generic import standard

def run(ctx):
    return standard(ctx,
        props=[("Props.C13", ["c13_decision", "c13_no_lookalike", "c13_own_hosts_match", "c13_no_config", "c13_cors", "c13_old_rule_refuted"])],
        harness=("TestVerif_C13", ["kmd/common.go", "kmd/creds.go", "kmd/c13.go"]),
        cases=("CasesC13.v", [("c13_mismatches", "CanRedirectToURL / CorsOriginAllowed / generic CORS = model on the components url.Parse delivers, 8 client configurations")], "CasesC13.idx"),
        trusted=["net/url.Parse and regexp run in front of the model (scheme, RawQuery, Path, Hostname and the pattern verdict are its inputs)",
                 "harness WHATWG host extractor (special-scheme rules: backslash = slash, tab/CR/LF stripped, last @, percent-decoding, lower-casing) stands in for browsers"],
        assumptions=["agreement between net/url and browsers about the host of the raw string is tested against the harness's WHATWG oracle on the adversarial grammar, not proved"],
        unproved=["net/url vs browser agreement outside the decision layer: differential only"])
