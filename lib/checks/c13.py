from checks.generic import standard

def run(ctx):
    return standard(ctx,
        props=[("Props.C13", ["c13_decision", "c13_patterns", "c13_unusable_pattern_refuses", "c13_skip_unusable_refuted", "c13_no_lookalike", "c13_own_hosts_match", "c13_no_config", "c13_cors", "c13_old_rule_refuted",
                              "c13_split_complete", "c13_split_sound", "c13_plain_grammar",
                              "c13_decision_as_configured", "c13_cors_as_configured", "c13_client_kind_irrelevant", "c13_odd_entry_matches_nothing",
                              "c13_trimset_loader_refuted", "c13_loopback_prefix_refuted"])],
        harness=("TestVerif_C13", ["kmd/common.go", "kmd/creds.go", "kmd/c13.go"]),
        cases=("CasesC13.v", [("c13_mismatches", "CanRedirectToURL / CorsOriginAllowed / generic CORS = model on the components url.Parse delivers, 12 client configurations x {client with a secret, public client} x {other client options on, off}, pattern verdicts per configured pattern (match / no match / refused by the regexp library)"),
                              ("c13_form_mismatches", "clients whose single allowed_redirect_domains entry is written in an odd form (URL form with/without slash, path, port, http; scheme-relative; upper case; leading/trailing dot; surrounding spaces; wildcard; host:port) loaded through the real loader, redirect_uri hosts derived from the entry (truncations, sub- and look-alike names, decorated spellings): CanRedirectToURL / CorsOriginAllowed = model on the entry AS CONFIGURED", "CasesC13forms.idx"),
                              ("c13_loader_mismatches", "the domain list the running state holds per client after loadVerifyConfigFile = the model's loaded_domains of the configured strings (identity)", "CasesC13loader.idx"),
                              ("c13_split_mismatches", "net/url.Parse = Gallina splitter on members and near-misses of the conservative https grammar", "CasesC13split.idx")], "CasesC13.idx"),
        violating=[("c13_violating", "allowed-where-specification-refuses", "CasesC13.idx"),
                   ("c13_form_violating", "allowed-outside-configured-entry", "CasesC13forms.idx")],
        trusted=["net/url.Parse and regexp run in front of the decision model (scheme, RawQuery, Path, Hostname and the pattern verdict are its inputs); on the conservative grammar of Model/UrlSplit.v net/url.Parse itself is compared with the Gallina splitter",
                 "harness WHATWG host extractor (special-scheme rules: backslash = slash, tab/CR/LF stripped, last @, percent-decoding, lower-casing) stands in for browsers"],
        assumptions=["agreement between net/url and browsers about the host of the raw string is tested against the harness's WHATWG oracle on the adversarial grammar, not proved"],
        unproved=["net/url vs browser agreement outside the conservative grammar (user-info, escapes, backslashes, case folding, control bytes): differential against the harness's WHATWG rules only"])
