import os, re
from checks.generic import standard

# Model/CertgenCases.v obs_violation: the property's predicate evaluated on the OBSERVED class of a
# case on which implementation and model differ
VIOLATION_CLASS = {
    1: ("issued-unentitled", "a certificate came back although, by the specification (Proofs/CertgenSpec.v proves / qualifies, decided by "
                             "Model/CertgenCases.v entitled; theorem c01_entitled_decides), the request does not entitle the named user: "
                             "sealed server, not POST, another URL name, or no valid credential of the request establishes the user at a level the operator's list accepts"),
    2: ("no-error", "neither a certificate nor an error status"),
}

def model_oracle(ctx, res, name, idxfile, block):
    """every (index, class) pair of <name> becomes an oracle hit whose case is the idx line: the mismatching
       case IS a concrete input on which the implementation violates the property"""
    val = res.get(name)
    if not val or val == "[]":
        return
    lines = []
    p = os.path.join(ctx.work, idxfile)
    if os.path.exists(p):
        lines = open(p).read().split("\n")
    seen = {}
    for m in re.finditer(r"\(\s*(\d+)(?:%nat)?\s*,\s*(\d+)\s*\)", val):
        i, cls = int(m.group(1)), int(m.group(2))
        cname, oracle = VIOLATION_CLASS.get(cls, ("class-%d" % cls, "property predicate on the observation"))
        key = "C01:model-oracle:%s:%s" % (cname, block)
        n = seen.get(key, 0)
        seen[key] = n + 1
        if n >= 20:
            continue
        line = lines[i] if i < len(lines) else "case %d" % i
        ctx.hits.append({"key": key, "oracle": oracle, "what": line.split("\t", 1)[-1], "case": line,
                         "observed": {"index": i, "violation_class": cname}, "kind": "input"})

HIST_CLASS = {
    1: ("issued-unentitled", "a certificate came back for a request that, by the specification, does not entitle the named user - the state before the step is the model's, which has no memory of earlier requests (c01_verdict_history_independent, c01_old_cookie_stays_password_only)"),
    2: ("no-error", "neither a certificate nor an error status"),
    3: ("refused-entitled", "an orderly certificate request with a currently valid qualifying session this server handed out was refused (c01_complete_session, c01_complete_after_unseal)"),
    4: ("valid-session-refused", "a login with the right password or a second-factor request with a currently valid session of this server and the right value was refused on the unsealed server (c01_complete_after_unseal, c01_own_alg_accepted_after_unseal)"),
}

def history_cases(ctx, hres):
    """the histories of TestVerif_C01H evaluated by the memoryless process model inside Coq"""
    if hres is None:
        return
    vfile = os.path.join(ctx.work, "CasesC01H.v")
    res = ctx._orig_eval_cases(vfile, "CasesC01H.v")
    if res is None:
        return
    lines = []
    p = os.path.join(ctx.work, "CasesC01H.idx")
    if os.path.exists(p):
        lines = open(p).read().split("\n")
    mism = res.get("c01h_mismatches")
    label = "histories on one server process (logins, second factors, certificate requests with every cookie handed out, other routes, unseal operations; life cycles x key types): class of every step = the memoryless model"
    if mism == "[]":
        ctx.obligations.append(("corr:%s (%s histories)" % (label, res.get("c01h_ncases", "?")), True, "no mismatch"))
    else:
        ctx.obligations.append(("corr:" + label, False, "mismatch indices %s" % (mism or "missing")[:200]))
        first = None
        m = re.search(r"\[(\d+)", mism or "")
        if m and int(m.group(1)) < len(lines):
            first = lines[int(m.group(1))][:3000]
        ctx.broken.append(("correspondence", "c01h_mismatches", {"label": label, "first_mismatch": first, "indices": (mism or "")[:400]}))
    viol = res.get("c01h_violating") or ""
    seen = {}
    for m in re.finditer(r"\(\s*(\d+)\s*,\s*(\d+)\s*,\s*(\d+)\s*\)", viol):
        ci, si, cls = int(m.group(1)), int(m.group(2)), int(m.group(3))
        cname, oracle = HIST_CLASS.get(cls, ("class-%d" % cls, "property predicate on the observation"))
        line = lines[ci] if ci < len(lines) else "case %d" % ci
        part = "life-cycle" if "\tlife-cycle:" in line else "history"
        key = "C01:model-oracle:%s:%s" % (cname, part)
        n = seen.get(key, 0)
        seen[key] = n + 1
        if n >= 10:
            continue
        ctx.hits.append({"key": key, "oracle": oracle, "what": "step %d of: %s" % (si, line.split("\t", 1)[-1][:1500]),
                         "case": {"index": ci, "step": si, "line": line[:3000]}, "observed": {"violation_class": cname}, "kind": "history"})

def run(ctx):
    orig = ctx.eval_cases
    ctx._orig_eval_cases = orig
    hist = {}
    def eval_cases(vfile, label="correspondence", timeout=1800):
        res = orig(vfile, label, timeout)
        if res is not None:
            model_oracle(ctx, res, "c01_violating", "CasesC01.idx", "enumeration")
            model_oracle(ctx, res, "c01_combined_violating", "CasesC01x.idx", "combined-credentials")
        if "thread" in hist:
            hist["thread"].join()
            history_cases(ctx, hist.get("result"))
        return res
    ctx.eval_cases = eval_cases
    # the history harness runs beside the enumeration (its own test binary, same overlay files)
    orig_go = ctx.go_harness
    def go_harness(pkg, test, files, **kw):
        if test == "TestVerif_C01" and "thread" not in hist:
            import threading
            def work():
                ok, result, log = orig_go(pkg, "TestVerif_C01H", [f for f in files], **kw)
                hist["result"] = result
            hist["thread"] = threading.Thread(target=work)
            hist["thread"].start()
        return orig_go(pkg, test, files, **kw)
    ctx.go_harness = go_harness
    return standard(ctx,
        props=[("Props.C01", ["c01_sound", "c01_sealed_refuses_everything", "c01_forwarding_headers_ignored", "c01_ip_certificate_needs_peer_inside", "c01_sufficient_iff", "c01_password_only_refused", "c01_password_session_401",
                              "c01_everything_else_refused", "c01_refused_is_error", "c01_complete_session",
                              "c01_complete_password", "c01_complete_cert",
                              "c01_certificate_decides", "c01_credentials_beside_certificate_ignored", "c01_nameless_certificate_no_identity",
                              "c01_session_issuer_exact", "c01_foreign_session_refused",
                              "c01_entitled_decides", "c01_issued_entitled",
                              "c01_strict_refuted", "c01_old_refuted",
                              "c01_verdict_history_independent", "c01_verdict_depends_on_unseals_only", "c01_minted_token_stable",
                              "c01_second_factor_mints", "c01_old_cookie_stays_password_only",
                              "c01_own_alg_accepted_after_unseal", "c01_complete_after_unseal"])],
        harness=("TestVerif_C01", ["kmd/common.go", "kmd/creds.go", "kmd/consts.go", "kmd/c01.go", "kmd/c01h.go"]),
        obl=("Obl_C01.v", ["c01_bits", "c01_bits_are_factors", "c01_method_strings", "c01_route", "c01_password_only"]),
        cases=("CasesC01.v", [("c01_mismatches", "result class of every enumerated request (issued for whom / error / neither) = model certgen, recomputed by Coq from the case index"),
                              ("c01_size_mismatches", "harness and model enumerate the same tables"),
                              ("c01_combined_mismatches", "combined credentials (client certificate x cookie state x Basic header, same and other user) and the issuer / audience near-miss family: result class = model certgen", "CasesC01x.idx"),
                              ("c01_combined_size_mismatches", "harness and model build the same combination table and the same issuer strings"),
                              ("c01_tls_mismatches", "the same handler behind a real crypto/tls server (client certificates really presented) = model")], "CasesC01.idx"),
        trusted=["signatures are symbolic in the model (a token/chain carries whether it verifies); the harness presents really signed, re-signed, alg:none, HMAC-with-public-key and bit-flipped tokens and real X.509 chains to the real go-jose / crypto/x509 code",
                 "TLS chain verification is done by crypto/tls; the enumeration sets VerifiedChains to chains built from really signed certificates, and eight cases go through a real TLS handshake configured like main()",
                 "the tables of credential shapes and combinations exist twice (Model/CertgenCases.v and harness/kmd/c01.go); a divergence shows up as a correspondence mismatch, never as silence",
                 "multipart, duration and key parsing run in front of the model (inputs q_form_ok, q_key; C03/C10 are about them)"],
        assumptions=["clock: cookies are minted relative to time.Now() at request time with margins of at least 30 s, the model evaluates them at now = 0",
                     "the automation-user test answers for the empty name what the configuration says (the harness lists \"\" as an automation user so that a nameless address-restricted certificate reaches the fall-through to the cookie code)"],
        timeout=2400)
