from checks.generic import standard

def run(ctx):
    return standard(ctx,
        props=[("Props.C01", ["c01_sound", "c01_sealed_refuses_everything", "c01_forwarding_headers_ignored", "c01_ip_certificate_needs_peer_inside", "c01_sufficient_iff", "c01_password_only_refused", "c01_password_session_401",
                              "c01_everything_else_refused", "c01_refused_is_error", "c01_complete_session",
                              "c01_complete_password", "c01_complete_cert", "c01_strict_refuted", "c01_old_refuted"])],
        harness=("TestVerif_C01", ["kmd/common.go", "kmd/creds.go", "kmd/consts.go", "kmd/c01.go"]),
        obl=("Obl_C01.v", ["c01_bits", "c01_bits_are_factors", "c01_method_strings", "c01_route", "c01_password_only"]),
        cases=("CasesC01.v", [("c01_mismatches", "result class of every enumerated request (issued for whom / error / neither) = model certgen, recomputed by Coq from the case index"),
                              ("c01_size_mismatches", "harness and model enumerate the same tables"),
                              ("c01_tls_mismatches", "the same handler behind a real crypto/tls server (client certificates really presented) = model")], "CasesC01.idx"),
        trusted=["signatures are symbolic in the model (a token/chain carries whether it verifies); the harness presents really signed, re-signed, alg:none, HMAC-with-public-key and bit-flipped tokens and real X.509 chains to the real go-jose / crypto/x509 code",
                 "TLS chain verification is done by crypto/tls; the enumeration sets VerifiedChains to chains built from really signed certificates, and eight cases go through a real TLS handshake configured like main()",
                 "the table of credential shapes exists twice (Model/CertgenCases.v and harness/kmd/c01.go); a divergence shows up as a correspondence mismatch, never as silence",
                 "multipart, duration and key parsing run in front of the model (inputs q_form_ok, q_key; C03/C10 are about them)"],
        assumptions=["clock: cookies are minted relative to time.Now() at request time with margins of at least 30 s, the model evaluates them at now = 0",
                     "client-certificate common names are non-empty (an empty CN falls through to the cookie branch in checkAuth; not modelled)"],
        timeout=2400)
