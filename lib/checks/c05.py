from checks.generic import standard

def run(ctx):
    return standard(ctx,
        props=[("Props.C05", ["c05_inv", "c05_no_cross_user", "c05_onetime", "c05_expired",
                              "c05_old_poll_refuted", "c05_old_totp_replay_refuted", "c05_old_challenge_refuted", "c05_old_cert_cookie_refuted",
                              "c05_cookie_expired", "c05_first_cookie_refuted", "c05_old_vip_expiry_refuted"])],
        harness=("TestVerif_C05", ["kmd/common.go", "kmd/creds.go", "kmd/consts.go", "kmd/c05.go"]),
        cases=("CasesC05.v", [("c05_mismatches", "per-step (success, subject, level, iat, exp) of every history: real handlers = Model.Session")], "CasesC05.idx"),
        trusted=["external verifiers are environment: the fake VIP endpoint, the TOTP algorithm (pquerna/otp), ECDSA / the U2F and WebAuthn libraries decide whether a presented value is right; the model carries their answer and whom it is about",
                 "time steps are simulated by moving what the handlers read (LastSuccessfullTOTPCounter, BootstrapOTP.ExpiresAt, localAuthData.ExpiresAt); the per-user TOTP throttle (C14) is cleared before every TOTP attempt",
                 "what clients hold ages with the simulated clock too: on a time step every issued auth cookie and CLI token is re-signed by the harness with iat/nbf/exp moved back (same claims otherwise, server key)"],
        assumptions=["signatures are unforgeable: the adversary attaches only cookies / tokens the server issued (by position in the list of everything issued)"],
        timeout=1500)
