import os, re
from checks.generic import standard, first_index
from checks import c16

# classes of Model/SessionObs.v `viol_class`: the conclusion of a soundness theorem evaluated on the observed
# output of the first deviating step of a mismatching history
VIOL = {
    1: ("unjustified-factor", "the emitted cookie carries a factor that was not verified for the cookie's own user during that session (c05_inv)"),
    2: ("spent-value", "a one-time value that had been accepted before was accepted again (c05_onetime)"),
    3: ("expired-value", "a value past its (original) expiry was accepted (c05_expired, c05_value_fixed)"),
}

def violating(ctx, res):
    """round-2 addendum: mismatching histories on which the OBSERVATION violates the property become oracle
       hits with the history as the failing input"""
    pairs = re.findall(r"\(\s*(\d+)(?:%nat)?\s*,\s*(\d+)(?:%nat)?\s*\)", res.get("c05_violating", "") or "")
    if not pairs:
        return
    idx = os.path.join(ctx.work, "CasesC05.idx")
    lines = open(idx).read().split("\n") if os.path.exists(idx) else []
    seen = {}
    for i, c in pairs:
        i, c = int(i), int(c)
        name, what = VIOL.get(c, ("class-%d" % c, "property predicate violated"))
        if seen.get(name, 0) >= 3:
            continue
        seen[name] = seen.get(name, 0) + 1
        ctx.hits.append({"key": "C05:model-oracle:" + name, "oracle": "Model.SessionObs.violation (the property's predicate on the observed outputs, model as reference)",
                         "what": what, "case": lines[i] if i < len(lines) else "case %d" % i})

def concurrent_cases(ctx, res0):
    """the concurrent stage (harness/kmd/c05conc.go): right value || wrong value under every schedule, then the
       right value again — evaluated against Model.Session / Model.SessionPure in its own case file"""
    vfile = os.path.join(ctx.work, "CasesC05C.v")
    if not os.path.exists(vfile):
        ctx.obligations.append(("corr:concurrent stage", False, "CasesC05C.v was not written"))
        ctx.broken.append(("correspondence", "c05c_mismatches", "the concurrent stage did not run"))
        return
    res = ctx.eval_cases(vfile, "CasesC05C.v")
    if res is None:
        return
    n = res.get("c05c_ncases", "?")
    mism = res.get("c05c_mismatches")
    label = "right value || wrong value for the same user under every schedule of the storage operations, then the right value again on a fresh session: single use as Model.Session + c05_failed_attempt_commutes say (%s schedules)" % n
    idxp = os.path.join(ctx.work, "CasesC05C.idx")
    lines = open(idxp).read().split("\n") if os.path.exists(idxp) else []
    if mism == "[]" and n not in ("0", "?"):
        ctx.obligations.append(("corr:" + label, True, "no mismatch"))
    else:
        ctx.obligations.append(("corr:" + label, False, "mismatch indices %s" % (mism or "missing")[:200]))
        i = first_index(mism)
        ctx.broken.append(("correspondence", "c05c_mismatches", {"label": label, "first_mismatch": lines[i] if i is not None and i < len(lines) else None, "indices": (mism or "")[:400]}))
    viol = res.get("c05c_violating") or "[]"
    for m in re.findall(r"\d+", viol)[:3]:
        i = int(m)
        ctx.hits.append({"key": "C05:model-oracle:spent-value-after-overlap", "oracle": "CasesC05C.v c05c_violating (single use evaluated on the observed answers, Model.Session as reference)",
                         "what": "a one-time value raised two sessions (or a wrong value raised one) although the only thing that overlapped with its acceptance was a refused attempt, which c05_failed_attempt_pure says changes nothing",
                         "case": lines[i] if i < len(lines) else "case %d" % i})

def run(ctx):
    # the storage functions and the Lock calls of the two-factor files get C16's parking points (no-ops unless a
    # schedule is being replayed): the concurrent stage of the harness needs them
    overlay, counts = c16.instrument(ctx)
    good = counts.get("storage.go") == 3
    ctx.obligations.append(("instrumentation: parking points inserted %s" % counts, good, "storage.go needs 3"))
    if not good:
        ctx.broken.append(("correspondence", "instrumentation", "could not find LoadUserProfile/SaveUserProfile/DeleteUserProfile in storage.go: %s" % counts))
    # evaluate c05_violating right after the case file was compiled (generic.standard has no hook for it)
    eval_cases = ctx.eval_cases
    def eval_and_classify(*a, **kw):
        res = eval_cases(*a, **kw)
        if res is not None:
            violating(ctx, res)
        return res
    ctx.eval_cases = eval_and_classify
    return standard(ctx,
        props=[("Props.C05", ["c05_inv", "c05_no_cross_user", "c05_onetime", "c05_expired",
                              "c05_fresh_values", "c05_value_fixed",
                              "c05_cached_no_write", "c05_cached_no_cross_user", "c05_cached_expired", "c05_old_cached_totp_refuted",
                              "c05_profile_exact", "c05_profile_save", "c05_profile_order", "c05_profile_users", "c05_like_lookup_refuted",
                              "c05_old_poll_refuted", "c05_old_totp_replay_refuted", "c05_old_challenge_refuted", "c05_old_cert_cookie_refuted",
                              "c05_cookie_expired", "c05_first_cookie_refuted", "c05_old_vip_expiry_refuted",
                              "c05_login_mints_password_only", "c05_login_mints_password_only_any", "c05_login_ignores_attached", "c05_login_carry_refuted",
                              "c05_failed_attempt_pure", "c05_failed_attempt_commutes",
                              "c05_address_irrelevant", "c05_address_run", "c05_totp_guard_once", "c05_totp_guard_once_nth", "c05_totp_guard_is_session", "c05_guard_by_address_refuted"])],
        harness=("TestVerif_C05", ["kmd/common.go", "kmd/creds.go", "kmd/consts.go", "kmd/c05.go", "kmd/c05conc.go", "kmd/c16.go", "kmd/c16_stall.go"]),
        extra_overlay=overlay, post_cases=concurrent_cases,
        cases=("CasesC05.v", [("c05_mismatches", "per-step (success, subject, level, iat, exp, id of the one-time value handed out) of every history: real handlers driven from eight client addresses = Model.Session over the profile table of Model.Profiles, evaluated on the (address, operation) list by Model.SessionAddr.run_obs_at")], "CasesC05.idx"),
        trusted=["concurrent stage: interleavings at the granularity of one storage operation / one critical section (C16's trusted granularity: atomicity of one SQL statement and of one map access under its mutex); the instrumented copies of storage.go / 2fa_*.go generated at check time differ from the tree's files only by inserted verifYield(..) calls (lib/checks/c16.py instrument); the deterministic scheduler of harness/kmd/c16.go",
                 "external verifiers are environment: the fake VIP endpoint, the TOTP algorithm (pquerna/otp), ECDSA / the U2F and WebAuthn libraries decide whether a presented value is right; the model carries their answer and whom it is about",
                 "time steps are simulated by moving what the handlers read (LastSuccessfullTOTPCounter, BootstrapOTP.ExpiresAt, localAuthData.ExpiresAt); the per-user TOTP throttle (C14) is cleared before every TOTP attempt",
                 "what clients hold ages with the simulated clock too: on a time step every issued auth cookie and CLI token is re-signed by the harness with iat/nbf/exp moved back (same claims otherwise, server key)",
                 "the Okta authn API is a fake (state tokens, pass codes, push approval as the harness decides); its cached answers age by moving recentAuth[*].expires through reflect/unsafe",
                 "a request 'served from the cache' = the cache database refreshed from the primary immediately before, and remoteDBQueryTimeout = 0 for the duration of the request",
                 "the client address is an opaque number for the model, which ignores it by construction (Model.SessionAddr.step_at); the harness stands for 'any address' with eight RemoteAddr / forwarding-header combinations (another host, the same host with another port, IPv6, X-Forwarded-For, X-Real-IP, Forwarded, a local proxy), one random request in four; client certificates of the `Req cert` modifier are ordinary user certificates (no IP restriction: that path of checkAuth is C06/C11)",
                 "one-time values are identified by content: the harness numbers the distinct challenge / OTP / transaction byte strings in order of first appearance (two different values never collide: 32 random bytes)"],
        assumptions=["signatures are unforgeable: the adversary attaches only cookies / tokens the server issued (by position in the list of everything issued)"],
        timeout=1500)
