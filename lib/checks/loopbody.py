"""one pass of a periodic loop of the tree under check, made callable at check time
   (tools/loopbody: the statements of the function's top-level `for` body minus time.Sleep, appended
   to a copy of the file as a parameterless method; the copy goes into the go test overlay)."""
import os
import core

def one_pass(ctx, relfile, func, name, hookvar):
    """returns (overlay dict, [generated harness file], ok, detail).  The generated harness file
    sets the package-level variable `hookvar` (declared by the harness, type func(*RuntimeState))
    to a call of the generated method, so that the harness still builds when generation failed."""
    srcdir = os.path.join(core.VERIF, "tools", "loopbody")
    exe = os.path.join(srcdir, "loopbody")
    if not os.path.exists(exe) or os.path.getmtime(exe) < os.path.getmtime(os.path.join(srcdir, "main.go")):
        env = dict(core.GOENV)
        env["GOTOOLCHAIN"] = "local"
        env["GOFLAGS"] = ""
        rc, out = core.sh(["go", "build", "-o", "loopbody", "."], cwd=srcdir, env=env, timeout=600)
        if rc != 0:
            raise RuntimeError("loopbody build failed: " + out)
    path = os.path.join(core.REPO, relfile)
    outdir = os.path.join(ctx.work, "instrumented")
    os.makedirs(outdir, exist_ok=True)
    dst = os.path.join(outdir, os.path.basename(relfile))
    rc, out = core.sh([exe, "-file", path, "-func", func, "-name", name, "-out", dst], timeout=120)
    if rc != 0:
        return {}, [], False, out.strip()[-400:]
    hook = os.path.join(outdir, "hook_%s.go" % name)
    open(hook, "w").write("package main\n\nfunc init() { %s = func(s *RuntimeState) { s.%s() } }\n" % (hookvar, name))
    return {path: dst}, [hook], True, out.strip()
