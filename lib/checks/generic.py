"""The common shape of a check:
   audit property theorems -> extract tables -> harness on the real code -> regenerated
   obligations -> evaluate the model on the observed cases inside Coq -> verdict."""
import os, re
import core

COMMON_TRUSTED = [
    "Coq 8.16.1 kernel incl. vm_compute (finite sweeps, case evaluation, refutation witnesses); no native_compute",
    "primitive Uint63 literals only in generated case files (transport), never in models/theorems",
    "go test -overlay harness (lib/core.py, harness/*): generators, fakes, projection of observables",
]

def compile_gen(ctx, names=("Routes.v", "Tables.v", "Consts.v")):
    ok = True
    for f in names:
        p = os.path.join(ctx.work, "gen", f)
        if os.path.exists(p):
            rc, out = ctx.coqc(p)
            if rc != 0:
                ctx.broken.append(("obligation", "gen:" + f, out[-1500:]))
                ok = False
    return ok

def first_index(s):
    m = re.search(r"\[(\d+)", s or "")
    return int(m.group(1)) if m else None

def standard(ctx, props, harness=None, obl=None, cases=None, trusted=(), assumptions=(), unproved=None,
             pkg="cmd/keymasterd", race=False, checker=None, timeout=1500, env=None, extra_gen=(), extra_overlay=None,
             model_oracles=(), violating=None, post_cases=None):
    """props: list of (module, [theorems]); harness: (test name, [files]); obl: (file, [names]);
       cases: (file, [(definition name, label)], idx file or None);
       model_oracles: [(definition name, oracle key, what, idx file)] - lists printed by the case file that hold
       the indices of the mismatching cases on which the OBSERVATION violates the property's own predicate
       (the conclusion of the soundness theorem evaluated on the observed output): each index becomes an
       oracle hit, so that the VIOLATION line carries the failing input;
       violating: [(definition name, class, idx file)] - the same with the key built as `Cxx:model-oracle:<class>`.
       A key may be a function of the case's idx line (it must return a stable shape name);
       post_cases(ctx, res): called with the printed definitions of the case file (name -> text) after the
       mismatch lists were read"""
    model_oracles = list(model_oracles) + [(n, "%s:model-oracle:%s" % (ctx.pid, k), "the observed output violates the property predicate as evaluated in Coq (the implementation is more permissive than the specification)", f) for n, k, f in (violating or [])]
    for mod, thms in props:
        ctx.audit(mod, thms)
    gen = ctx.extract()
    result = None
    if harness:
        test, files = harness
        files = list(files) + [os.path.join(ctx.work, "gen", "mux_gen.go")] if pkg == "cmd/keymasterd" else list(files)
        ok, result, log = ctx.go_harness(pkg, test, files, race=race, timeout=timeout, env=env, extra_overlay=extra_overlay)
    gen_ok = compile_gen(ctx, ("Routes.v", "Tables.v", "Consts.v") + tuple(extra_gen))
    if obl and gen_ok:
        ctx.gen_obligations(obl[0], obl[1])
    if cases and result is not None:
        cfile, defs = cases[0], cases[1]
        idxfile = cases[2] if len(cases) > 2 else None
        res = ctx.eval_cases(os.path.join(ctx.work, cfile), cfile)
        if res is not None:
            n = res.get(ctx.pid.lower() + "_ncases", "?")
            for d in defs:
                name, label = d[0], d[1]
                idxfile_d = d[2] if len(d) > 2 else idxfile
                mism = res.get(name)
                if mism == "[]":
                    ctx.obligations.append(("corr:%s (%s cases in file)" % (label, n), True, "no mismatch"))
                else:
                    ctx.obligations.append(("corr:" + label, False, "mismatch indices %s" % (mism or "missing")[:200]))
                    first = None
                    i = first_index(mism)
                    if i is not None and idxfile_d and os.path.exists(os.path.join(ctx.work, idxfile_d)):
                        lines = open(os.path.join(ctx.work, idxfile_d)).read().split("\n")
                        if i < len(lines):
                            first = lines[i]
                    ctx.broken.append(("correspondence", name, {"label": label, "first_mismatch": first, "indices": (mism or "")[:400]}))
            for name, key, what, idxf in model_oracles:
                viol = res.get(name)
                if viol is None or viol == "[]":
                    continue
                lines = []
                if idxf and os.path.exists(os.path.join(ctx.work, idxf)):
                    lines = open(os.path.join(ctx.work, idxf)).read().split("\n")
                for m in re.findall(r"\d+", viol.split(":")[0])[:20]:
                    i = int(m)
                    line = lines[i] if i < len(lines) else "case %d" % i
                    ctx.hits.append({"key": key(line) if callable(key) else key, "oracle": "model-oracle: " + name, "what": what,
                                     "case": line})
            if post_cases:
                post_cases(ctx, res)
    ctx.assumptions = list(assumptions)
    return ctx.finish(checker or ("bin/build-coq; coqc Audit_*/Obl_*/Cases* (lib/core.py); go test -overlay " + (harness[0] if harness else "")),
                      COMMON_TRUSTED + list(trusted), unproved)
