import re
from checks.generic import standard

def _seq_key(line):
    m = re.match(r"shape=(\S+)", line or "")
    return "C11:model-oracle:sequence-accept-outside:" + (m.group(1) if m else "unknown")

def run(ctx):
    return standard(ctx,
        props=[("Props.C11", ["c11_roundtrip", "c11_extract_minted", "c11_iff", "c11_only_v4",
                              "c11_malformed_never_widens", "c11_numeric_prefix", "c11_refresh_same_blocks", "c11_old_decoder_panics",
                              "c11_refresh_sound", "c11_refresh_complete", "c11_refresh_chain_same", "c11_refresh_chain_reach",
                              "c11_narrowing_by_base_refuted",
                              "c11_canon_wf", "c11_mint_parse_exact", "c11_mint_parse_numeric", "c11_mint_parse_readback",
                              "c11_iff_conn", "c11_iff_conn_mint", "c11_resumed_history_independent", "c11_sequence_sound",
                              "c11_sequence_history_independent", "c11_resume_cache_refuted"])],
        harness=("TestVerif_C11", ["kmd/common.go", "kmd/creds.go", "kmd/consts.go", "kmd/c11.go", "kmd/c11_resume.go"]),
        cases=("CasesC11.v", [("c11_verify_mismatches", "VerifyIPRestrictedX509CertIP on certificates minted from CIDR texts (any address of the block) = model verify_ip on mint_request (canonicalised by the model)"),
                              ("c11_wf_mismatches", "every requested block list is something a CIDR text can denote (hypothesis of c11_mint_parse_exact) and its canonical form is well-formed"),
                              ("c11_extract_mismatches", "ExtractIPNets of the minted certificate = model extract = canonical forms of the requested blocks"),
                              ("c11_malformed_mismatches", "verdict on corrupted extensions = model verify_ip"),
                              ("c11_refresh_mismatches", "refresh requests carrying every minting parameter (equal / narrower / wider / disjoint / malformed netblocks, other identities, durations, unknown parameters): answer, identity and netblocks of the returned certificate = model refresh", "CasesC11R.idx"),
                              ("c11_resume_mismatches", "sequences of requests on one server (inside/outside peers, full and RESUMED handshakes, with and without a verified chain; refresh and /certgen/<automation user>): the verdict of every step = model run (auth_ip: no resumption flag, no history)", "CasesC11S.idx")], "CasesC11.idx"),
        model_oracles=[("c11_resume_violating", _seq_key, "a request of the sequence was admitted although its peer lies in none of the certificate's netblocks (or its connection has no verified chain): the observed verdicts violate c11_sequence_sound as evaluated in Coq", "CasesC11S.idx")],
        trusted=["encoding/asn1 and crypto/x509 parse the extension in front of the model (the model starts at the unmarshalled bit strings)",
                 "net.ParseIP / IPNet.Contains semantics as modelled by peer/contains (octet-wise mask comparison), validated against an independent numeric oracle in the harness",
                 "quick tier: tls.ConnectionState (VerifiedChains, PeerCertificates, DidResume) is built by the harness at handler level; the thorough tier drives real crypto/tls connections with a client session cache from sockets bound inside/outside the block"],
        assumptions=["TLS chain verification is done by crypto/tls; the harness supplies VerifiedChains built from certificates really signed by the state's CA keys"])
