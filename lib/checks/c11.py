from checks.generic import standard

def run(ctx):
    return standard(ctx,
        props=[("Props.C11", ["c11_roundtrip", "c11_extract_minted", "c11_iff", "c11_only_v4",
                              "c11_malformed_never_widens", "c11_numeric_prefix", "c11_refresh_same_blocks", "c11_old_decoder_panics",
                              "c11_refresh_sound", "c11_refresh_complete", "c11_refresh_chain_same", "c11_refresh_chain_reach",
                              "c11_narrowing_by_base_refuted",
                              "c11_canon_wf", "c11_mint_parse_exact", "c11_mint_parse_numeric", "c11_mint_parse_readback"])],
        harness=("TestVerif_C11", ["kmd/common.go", "kmd/creds.go", "kmd/consts.go", "kmd/c11.go"]),
        cases=("CasesC11.v", [("c11_verify_mismatches", "VerifyIPRestrictedX509CertIP on certificates minted from CIDR texts (any address of the block) = model verify_ip on mint_request (canonicalised by the model)"),
                              ("c11_wf_mismatches", "every requested block list is something a CIDR text can denote (hypothesis of c11_mint_parse_exact) and its canonical form is well-formed"),
                              ("c11_extract_mismatches", "ExtractIPNets of the minted certificate = model extract = canonical forms of the requested blocks"),
                              ("c11_malformed_mismatches", "verdict on corrupted extensions = model verify_ip"),
                              ("c11_refresh_mismatches", "refresh requests carrying every minting parameter (equal / narrower / wider / disjoint / malformed netblocks, other identities, durations, unknown parameters): answer, identity and netblocks of the returned certificate = model refresh", "CasesC11R.idx")], "CasesC11.idx"),
        trusted=["encoding/asn1 and crypto/x509 parse the extension in front of the model (the model starts at the unmarshalled bit strings)",
                 "net.ParseIP / IPNet.Contains semantics as modelled by peer/contains (octet-wise mask comparison), validated against an independent numeric oracle in the harness"],
        assumptions=["TLS chain verification is done by crypto/tls; the harness supplies VerifiedChains built from certificates really signed by the state's CA keys"])
