import re
from checks.generic import standard

_WHAT = "the observed answer violates the property predicate as evaluated in Coq: a weak, unknown, unparsable or absent key was answered with something other than a client error (a certificate, a 5xx, a panic)"

def _path(line):
    m = re.search(r"path=(\S+)", line)
    return m.group(1) if m else "?"

def run(ctx):
    return standard(ctx,
        props=[("Props.C10", ["c10_strong", "c10_strong_complete", "c10_pipeline", "c10_weak_is_client_error",
                              "c10_decoder_total", "c10_old_rsa_refuted",
                              "c10_pipeline_parse_explicit", "c10_single_parse_paths", "c10_disagreeing_parsers_refuted",
                              "c10_weak_is_client_error_every_path", "c10_weak_is_client_error_one_configuration", "c10_pipeline_every_configuration", "c10_deny_before_strength_refuted",
                              "c10_pem_walk_total", "c10_pem_walk_sound", "c10_pem_skip_unguarded_refuted", "c10_role_parameter",
                              "c10_claim_access_total", "c10_claim_access_sound", "c10_unguarded_index_refuted", "c10_header_assertion",
                              "c10_upload_refused_or_admissible", "c10_framed_upload_refused_or_admissible", "c10_framed_upload_total", "c10_unguarded_transcoder_refuted"])],
        harness=("TestVerif_C10", ["kmd/common.go", "kmd/creds.go", "kmd/consts.go", "kmd/c10.go", "kmd/c11.go", "kmd/tokens.go", "kmd/c04.go", "kmd/c04peer.go", "kmd/c04carrier.go", "kmd/c11_resume.go", "kmd/c10_tokens.go", "kmd/c10_config.go", "kmd/c10_framing.go"]),
        cases=("CasesC10.v", [("c10_pred_mismatches", "ValidatePublicKeyStrength = model validate on every RSA size 1..4200, curves, Ed25519, others"),
                              ("c10_pipeline_mismatches", "status class of the six issuing paths = model pipeline on the key corpus"),
                              ("c10_file_mismatches", "SSH key files of the authorized_keys grammar (pairs of keys): status class = model pipeline2 on the key the real validator approved", "CasesC10F.idx"),
                              ("c10_agree_mismatches", "hypothesis of c10_pipeline_parse_explicit: the key inside every returned SSH certificate is the key the real validator approved", "CasesC10F.idx"),
                              ("c10_cfg_mismatches", "key deny list {one foreign fingerprint, several + malformed entries, fingerprints of strong corpus keys} x weak / unknown / unparsable key corpus (+ strong controls) x the six issuing paths: status class = model pipeline_cfg (look-up after the strength check; per path observed whether it consults the list)", "CasesC10G.idx"),
                              ("c10_pem_mismatches", "PEM structure (first block of another type, several blocks, bytes after the last END line, headers, degenerate texts) at the cloud-role and X.509 paths: status class / panic = model pem_pipeline on the block list the real pem.Decode delivers", "CasesC10P.idx"),
                              ("c10_param_mismatches", "pubkey form parameter of the role / refresh paths (encodings: padding, alphabets, white space, repeated values, DER with trailing / concatenated / truncated content): status class = model param_pipeline on what base64 and the DER parser deliver for each value", "CasesC10R.idx"),
                              ("c10_claim_mismatches", "getAuthInfoFromAuthJWT on well-signed tokens with dropped / type-confused claims: accepted (user, level, expiry, issued-at) or refused = model get_auth_info on the same payload", "CasesC10J.idx"),
                              ("c10_framing_mismatches", "byte-level framing of every key upload (byte order marks, NULs, gzip magic in front; stray bytes behind; odd / even cuts; UTF-16 transcodings with and without mark) x the six issuing paths: status class / panic = model upload pipeline (normalize with the normalisations observed for the path, then pipeline_of on what the real parser makes of the normalised text)", "CasesC10X.idx")], "CasesC10.idx"),
        model_oracles=[("c10_cfg_violating", lambda line: "C10:model-oracle:weak-not-client-error:%s:deny-list-configured" % _path(line), _WHAT, "CasesC10G.idx"),
                       ("c10_param_violating", lambda line: "C10:model-oracle:malformed-parameter-not-client-error:%s" % _path(line), _WHAT, "CasesC10R.idx"),
                       ("c10_framing_violating", lambda line: "C10:model-oracle:framed-upload-not-client-error:%s" % _path(line), "the observed answer violates the property predicate as evaluated in Coq: a framed key upload that is not an admissible key after normalisation was answered with something other than a client error (a certificate, a 5xx, a panic)", "CasesC10X.idx"),
                       ("c10_pem_violating", lambda line: "C10:model-oracle:malformed-pem-not-client-error:%s" % _path(line), _WHAT, "CasesC10P.idx")],
        trusted=["key parsers (x509.ParsePKIXPublicKey, ssh.ParseAuthorizedKey, pem) run in front of the model; the model starts at the parsed key description (algorithm, modulus bits, exponent, curve)",
                 "fake STS endpoint for the cloud-role path (harness verifFakeSTS)"],
        assumptions=["absence of panics in library parsers is tested (mutation fuzzing through every path), not proved"],
        unproved=["panic-freedom of third-party/library parsers: fuzzing only (keymaster's own extension decoder is covered by c10_decoder_total / C11)"])
