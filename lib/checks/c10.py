from checks.generic import standard

def run(ctx):
    return standard(ctx,
        props=[("Props.C10", ["c10_strong", "c10_strong_complete", "c10_pipeline", "c10_weak_is_client_error",
                              "c10_decoder_total", "c10_old_rsa_refuted",
                              "c10_pipeline_parse_explicit", "c10_single_parse_paths", "c10_disagreeing_parsers_refuted",
                              "c10_weak_is_client_error_every_path",
                              "c10_claim_access_total", "c10_claim_access_sound", "c10_unguarded_index_refuted", "c10_header_assertion"])],
        harness=("TestVerif_C10", ["kmd/common.go", "kmd/creds.go", "kmd/consts.go", "kmd/c10.go", "kmd/c11.go", "kmd/tokens.go", "kmd/c04.go", "kmd/c10_tokens.go"]),
        cases=("CasesC10.v", [("c10_pred_mismatches", "ValidatePublicKeyStrength = model validate on every RSA size 1..4200, curves, Ed25519, others"),
                              ("c10_pipeline_mismatches", "status class of the six issuing paths = model pipeline on the key corpus"),
                              ("c10_file_mismatches", "SSH key files of the authorized_keys grammar (pairs of keys): status class = model pipeline2 on the key the real validator approved", "CasesC10F.idx"),
                              ("c10_agree_mismatches", "hypothesis of c10_pipeline_parse_explicit: the key inside every returned SSH certificate is the key the real validator approved", "CasesC10F.idx"),
                              ("c10_claim_mismatches", "getAuthInfoFromAuthJWT on well-signed tokens with dropped / type-confused claims: accepted (user, level, expiry, issued-at) or refused = model get_auth_info on the same payload", "CasesC10J.idx")], "CasesC10.idx"),
        trusted=["key parsers (x509.ParsePKIXPublicKey, ssh.ParseAuthorizedKey, pem) run in front of the model; the model starts at the parsed key description (algorithm, modulus bits, exponent, curve)",
                 "fake STS endpoint for the cloud-role path (harness verifFakeSTS)"],
        assumptions=["absence of panics in library parsers is tested (mutation fuzzing through every path), not proved"],
        unproved=["panic-freedom of third-party/library parsers: fuzzing only (keymaster's own extension decoder is covered by c10_decoder_total / C11)"])
