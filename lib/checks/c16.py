import os, re
import core
import racelog
from checks.generic import COMMON_TRUSTED, compile_gen, first_index

TRUSTED = [
    "atomicity of one storage operation (one SQL statement / one committed transaction in storage.go) and of one map access under its mutex: the granularity of the interleaving model",
    "the instrumented copies of storage.go / 2fa_totp.go / 2fa_u2f.go generated at check time differ from the files of the tree only by inserted verifYield(..) calls (lib/checks/c16.py)",
    "the deterministic scheduler of the harness (one request runs at a time between parking points); SQLite standing in for the production database",
    "tools/extract/locks.go: lexical lock-state walker (an access it cannot classify fails the obligation)",
    "Go race detector for the randomised concurrent mixes",
    "the wrapping database/sql driver of harness/kmd/c16_stall.go (delegates to go-sqlite3; numbers and holds operations) stands for a slow primary database; the hold time is the longest time.After(..) argument of storage.go as resolved by regular expressions in lib/checks/c16.py (+1.5 s, capped at 15 s quick / 40 s thorough): a longer time-out is not outlasted",
    "tools/extract/c16_copies.go: syntactic (no type checker): lock-holding types are the package's struct declarations with a sync / atomic value field; copies made through interfaces, closures capturing a dereferenced value or reflection are not seen",
    "the fake OAuth2 provider of the harness accepts any authorization code any number of times",
]

YIELD = 'verifYield("%s")'

def instrument(ctx):
    """instrumented copies of the files that contain the parking points; returns (overlay dict, counts)"""
    d = os.path.join(core.REPO, "cmd", "keymasterd")
    outdir = os.path.join(ctx.work, "instrumented")
    os.makedirs(outdir, exist_ok=True)
    overlay, counts = {}, {}
    path = os.path.join(d, "storage.go")
    src = open(path).read()
    n = 0
    for fn, point in (("LoadUserProfile", "Load"), ("SaveUserProfile", "Save"), ("DeleteUserProfile", "Del")):
        m = re.search(r"func \(\w+ \*RuntimeState\) %s\(" % fn, src)
        if not m:
            continue
        i = src.find("{\n", m.end())
        if i < 0:
            continue
        src = src[:i + 2] + "\t" + (YIELD % point) + "\n" + src[i + 2:]
        n += 1
    counts["storage.go"] = n
    src, nl = loaded_points(src)
    counts["storage.go:row-read points"] = nl
    dst = os.path.join(outdir, "storage.go")
    open(dst, "w").write(src)
    overlay[path] = dst
    # writes of RuntimeState fields that happen after start-up (regenerated table shared_field_writes):
    # a parking point in front of each, taken only when the mutex is free at that moment
    pub = {}
    for fn, field, where in field_writes(ctx):
        f, _, line = where.partition(":")
        if f != "storage.go" and line.isdigit():
            pub.setdefault(f, {})[int(line)] = field
    for f in sorted(set(("2fa_totp.go", "2fa_u2f.go", "unseal.go", "auth_oauth2.go")) | set(pub)):
        path = os.path.join(d, f)
        if not os.path.exists(path):
            continue
        out, n, npub = [], 0, 0
        for lineno, line in enumerate(open(path).read().split("\n"), 1):
            m = re.match(r"^(\s*)[\w.]*[Mm]utex\.Lock\(\)\s*$", line)
            if m:
                out.append(m.group(1) + (YIELD % "Lock"))
                n += 1
            if lineno in pub.get(f, {}):
                m = re.match(r"^(\s*)(\w+)\.%s\b" % re.escape(pub[f][lineno]), line)
                if m:
                    out.append('%sverifYieldIfFree("Pub", &%s.Mutex)' % (m.group(1), m.group(2)))
                    npub += 1
            out.append(line)
        counts[f] = n
        if f in pub:
            counts[f + ":published-field writes"] = "%d of %d" % (npub, len(pub[f]))
        dst = os.path.join(outdir, f)
        open(dst, "w").write("\n".join(out))
        overlay[path] = dst
    return overlay, counts

def _match_close(src, i, open_ch, close_ch):
    """index of the bracket that closes the one at src[i] (strings / runes / comments skipped), or -1"""
    depth, j, n = 0, i, len(src)
    while j < n:
        c = src[j]
        if c == '"' or c == "'":
            j += 1
            while j < n and src[j] != c:
                j += 2 if src[j] == "\\" else 1
        elif c == "`":
            j = src.find("`", j + 1)
            if j < 0:
                return -1
        elif src.startswith("//", j):
            j = src.find("\n", j)
            if j < 0:
                return -1
            continue
        elif c == open_ch:
            depth += 1
        elif c == close_ch:
            depth -= 1
            if depth == 0:
                return j
        j += 1
    return -1

def loaded_points(src):
    """A parking point between the moment LoadUserProfile has the row and its return: `verifYield("Loaded")`
    (a) as the first statement of every select clause of LoadUserProfile that RECEIVES A VALUE from a channel
    (`case x := <-ch:` - the row read by the helper goroutine arrives here) and (b) after every statement of the
    function that ends with a row scan (`….Scan(…)` alone on its statement; the helper goroutine is not a
    scheduled request, so the point inside it is inert).  Returns (source, number of points)."""
    m = re.search(r"func \(\w+ \*RuntimeState\) LoadUserProfile\(", src)
    if not m:
        return src, 0
    i = src.find("{\n", m.end())
    if i < 0:
        return src, 0
    end = _match_close(src, i, "{", "}")
    if end < 0:
        return src, 0
    body = src[i:end]
    inserts = []      # (offset in body, text)
    for c in re.finditer(r"\n([ \t]*)case\s+[\w, ]+:?=\s*<-\s*[\w.]+\s*:[ \t]*(?=\n)", body):
        inserts.append((c.end(), "\n" + c.group(1) + "\t" + (YIELD % "Loaded")))
    for c in re.finditer(r"\.Scan\(", body):
        j = _match_close(body, c.end() - 1, "(", ")")
        if j < 0:
            continue
        k = body.find("\n", j)
        if k < 0 or body[j + 1:k].strip() != "":
            continue
        ls = body.rfind("\n", 0, c.start()) + 1
        # indentation of the line on which the statement starts (walk back over continuation lines is not needed:
        # the point goes on its own line after the statement)
        ind = re.match(r"[ \t]*", body[ls:]).group(0)
        inserts.append((k, "\n" + ind + (YIELD % "Loaded")))
    for off, txt in sorted(inserts, reverse=True):
        body = body[:off] + txt + body[off:]
    return src[:i] + body + src[end:], len(inserts)

_UNIT_MS = {"Nanosecond": 1e-6, "Microsecond": 1e-3, "Millisecond": 1.0, "Second": 1000.0, "Minute": 60000.0, "Hour": 3600000.0}

def _dur_ms(expr):
    """milliseconds of a constant duration expression (time.Second * 5, 5 * time.Second, time.Duration(3) * time.Minute, time.Second), else None"""
    expr = expr.strip().rstrip(",;")
    num = r"(?:time\.Duration\(\s*(\d+)\s*\)|(\d+))"
    m = re.fullmatch(num + r"\s*\*\s*time\.(\w+)", expr)
    if m and m.group(3) in _UNIT_MS:
        return float(m.group(1) or m.group(2)) * _UNIT_MS[m.group(3)]
    m = re.fullmatch(r"time\.(\w+)\s*\*\s*" + num, expr)
    if m and m.group(1) in _UNIT_MS:
        return float(m.group(2) or m.group(3)) * _UNIT_MS[m.group(1)]
    m = re.fullmatch(r"time\.(\w+)", expr)
    if m and m.group(1) in _UNIT_MS:
        return _UNIT_MS[m.group(1)]
    return None

def storage_hold_ms(ctx):
    """how long the stall driver holds a storage operation: longer than every time-out the storage layer
    itself has.  Regenerated: the arguments of time.After(..) in storage.go, resolved through the constant /
    variable / field assignments of the package; + 1.5 s.  Returns (milliseconds, what was found)."""
    d = os.path.join(core.REPO, "cmd", "keymasterd")
    srcs = {}
    for f in sorted(os.listdir(d)):
        if f.endswith(".go") and not f.endswith("_test.go"):
            srcs[f] = open(os.path.join(d, f)).read()
    found = {}
    for m in re.finditer(r"time\.After\(([^()]*(?:\([^()]*\))?[^()]*)\)", srcs.get("storage.go", "")):
        arg = m.group(1).strip()
        v = _dur_ms(arg)
        if v is None:
            name = re.split(r"[.\s]", arg)[-1]
            if re.fullmatch(r"\w+", name or ""):
                for txt in srcs.values():
                    for a in re.finditer(r"\b%s\s*(?::=|=)\s*([^\n]+)" % re.escape(name), txt):
                        w = _dur_ms(a.group(1).split("//")[0])
                        if w is not None:
                            v = max(v or 0, w)
        if v is not None:
            found[arg] = v
    longest = max(found.values()) if found else 2000.0
    cap = 40000 if ctx.tier == "thorough" else 15000
    return int(min(longest + 1500, cap)), found

def _frame_fn(line):
    m = re.match(r"^(\S.*)\(.*\)$", line)
    return m.group(1) if m else line

FATAL_MAP = re.compile(r"^fatal error: (concurrent map [a-z ]+)$", re.M)

def absorb_fatal(ctx, log, pid="C16"):
    """The Go runtime aborts the process when it notices two goroutines inside one map at the same time
    ("fatal error: concurrent map writes" ...): the daemon-aborting outcome the statement names, not a broken
    harness.  One hit with the handlers found in the goroutine dump: the goroutine that noticed, and any other
    goroutine that is inside a map operation."""
    m = FATAL_MAP.search(log or "")
    if not m:
        return 0
    dump = log[m.end():]
    blocks = re.split(r"\n(?=goroutine \d+ \[)", dump)
    def handler_of(block):
        lines = block.split("\n")
        for i, l in enumerate(lines):
            if l.startswith("\t") or not l.strip() or l.startswith("goroutine ") or l.startswith("created by"):
                continue
            loc = lines[i + 1].strip() if i + 1 < len(lines) else ""
            base = os.path.basename(loc.split(":")[0])
            if ("/keymaster/" in loc or loc.startswith(core.REPO)) and not base.startswith("zz_verif_") and "/go/pkg/mod/" not in loc:
                return racelog.short_fn(_frame_fn(l.strip())), "%s:%s" % (base, loc.split(":")[1].split(" ")[0] if ":" in loc else "?")
        return None
    first = None
    others = []
    for b in blocks:
        if not b.startswith("goroutine "):
            continue
        h = handler_of(b)
        if first is None and "[running]" in b.split("\n")[0]:
            first = h or ("?", "?")
            continue
        if not h:
            continue
        head = b.split("\n")[0]
        if re.search(r"^(runtime\.map\w+|internal/runtime/maps\.)", b, re.M):
            others.insert(0, h)          # inside a map operation right now
        elif re.search(r"\[(runnable|running)", head):
            lines = [l for l in b.split("\n")[1:] if l.strip()]
            # executing keymaster code (the map access may be inlined into it)
            if len(lines) > 1 and ("/keymaster/" in lines[1] or lines[1].strip().startswith(core.REPO)) and "zz_verif_" not in lines[1]:
                others.append(h)
    first = first or ("?", "?")
    other = others[0] if others else ("?", "?")
    fns = sorted([first[0], other[0]])
    ctx.hits.append({"key": "%s:fatal-concurrent-map:%s|%s" % (pid, fns[0], fns[1]), "kind": "schedule",
                     "oracle": "the process survives its requests: the Go runtime aborts the whole daemon when two goroutines are inside one map at once",
                     "what": "fatal error: %s — noticed in %s (%s); another goroutine inside (or about to enter) a map operation: %s (%s)" % (m.group(1), first[0], first[1], other[0], other[1]),
                     "case": {"sites": [list(first), list(other)]}, "observed": log[m.start():m.start() + 3000]})
    return 1

def field_writes(ctx):
    """(function, field, file:line) of the non-init rows of the regenerated shared_field_writes table"""
    p = os.path.join(ctx.work, "gen", "Tables.v")
    if not os.path.exists(p):
        return []
    txt = open(p).read()
    i = txt.find("Definition shared_field_writes")
    if i < 0:
        return []
    out = []
    for m in re.finditer(r'\("([^"]*)"%string, "([^"]*)"%string, "([^"]*)"%string, "([^"]*)"%string, "([^"]*)"%string\);? \(\* ([^ ]+) \*\)', txt[i:txt.find("].", i)]):
        if m.group(4) != "init":
            out.append((m.group(1), m.group(2), m.group(6)))
    return out

def run(ctx):
    ctx.audit("Props.C16", ["c16_lock_discipline", "c16_handlers_disciplined", "c16_old_unlocked_delete_refuted", "c16_no_torn_profile",
                            "c16_spacing_atomic", "c16_segments_are_runs", "c16_lost_update_refuted", "c16_double_spend_refuted",
                            "c16_delete_undone_refuted", "c16_publication_safe", "c16_split_unseal_refuted",
                            "c16_u2f_once_at_storage_granularity", "c16_u2f_double_spend_refuted", "c16_ssegments_are_runs",
                            "c16_no_write_after_answer", "c16_respond_is_last", "c16_abandoned_write_refuted",
                            "c16_oauth_pool_disciplined", "c16_lock_copy_refuted", "c16_blocked_only_by_running_request",
                            "c16_u2f_no_replay_after_overlap", "c16_u2f_no_replay_after_overlap_seg", "c16_u2f_no_replay_replayed_schedule",
                            "c16_u2f_reissue_replay_refuted", "c16_reissue_disciplined", "c16_reissue_invisible_at_storage_granularity",
                            "c16_boot_no_replay_after_overlap", "c16_oauth_no_replay_after_overlap",
                            "c16_load_linearizable", "c16_reader_leaves_no_trace", "c16_view_login_are_readers", "c16_planting_reader_refuted"])
    gen = ctx.extract()
    files = ["kmd/common.go", "kmd/creds.go", "kmd/c16.go", "kmd/c16_stall.go", os.path.join(ctx.work, "gen", "mux_gen.go")]
    overlay, counts = instrument(ctx)
    good = counts.get("storage.go") == 3 and counts.get("storage.go:row-read points", 0) >= 1
    ctx.obligations.append(("instrumentation: parking points inserted %s" % counts, good, "storage.go needs 3 + at least one point after the row read of LoadUserProfile"))
    if not good:
        ctx.broken.append(("correspondence", "instrumentation", "could not find LoadUserProfile/SaveUserProfile/DeleteUserProfile in storage.go: %s" % counts))
    hold, timeouts = storage_hold_ms(ctx)
    ctx.dist["storage_timeouts_ms_found_in_storage.go"] = {k: v for k, v in timeouts.items()}
    ctx.dist["stall_hold_ms"] = hold
    ok, result, log = ctx.go_harness("cmd/keymasterd", "TestVerif_C16", files, timeout=2400, extra_overlay=overlay, env={"VERIF_C16_HOLD_MS": str(hold)})
    ok2, result2, log2 = ctx.go_harness("cmd/keymasterd", "TestVerif_C16Race", files, race=True, timeout=2400)
    nrace = racelog.absorb(ctx, log2, "C16")
    nfatal = absorb_fatal(ctx, log2) + absorb_fatal(ctx, log)
    ctx.obligations.append(("no runtime abort ('fatal error: concurrent map ...') in the concurrent rounds", nfatal == 0, "%d aborts" % nfatal))
    ctx.obligations.append(("race-detector: %s rounds of 24 concurrent requests" % ((result2 or {}).get("extra", {}).get("rounds", "?")),
                            result2 is not None and nrace == 0, "%d race reports" % nrace))
    if compile_gen(ctx, ("Tables.v",)):
        ctx.gen_obligations("Obl_C16.v", ["c16_lock_table", "c16_one_mutex_per_map", "c16_table_covers_maps",
                                          "c16_field_writes_locked", "c16_one_mutex_per_field", "c16_field_table_covers",
                                          "c16_no_lock_copies", "c16_lock_holder_table_covers"])
    if result is not None:
        res = ctx.eval_cases(os.path.join(ctx.work, "CasesC16.v"), "CasesC16.v")
        if res is not None:
            n = res.get("c16_ncases", "?")
            mism = res.get("c16_mismatches")
            label = "every enumerated schedule: answers and final profiles of the real handlers = Model.Conc.run_seg (%s schedules)" % n
            if mism == "[]":
                ctx.obligations.append(("corr:" + label, True, "no mismatch"))
            else:
                ctx.obligations.append(("corr:" + label, False, "mismatch indices %s" % (mism or "missing")[:200]))
                first = None
                i = first_index(mism)
                p = os.path.join(ctx.work, "CasesC16.idx")
                if i is not None and os.path.exists(p):
                    lines = open(p).read().split("\n")
                    if i < len(lines):
                        first = lines[i]
                ctx.broken.append(("correspondence", "c16_mismatches", {"first_mismatch": first, "indices": (mism or "")[:400]}))
            n = res.get("c16r_ncases", "?")
            mism = res.get("c16r_mismatches")
            label = "a one-time value presented once more after each enumerated schedule in which it was honoured: answer of the real handler = Model.Conc.run_seg (%s replays)" % n
            if mism == "[]":
                ctx.obligations.append(("corr:" + label, True, "no mismatch"))
            else:
                ctx.obligations.append(("corr:" + label, False, "mismatch indices %s" % (mism or "missing")[:200]))
                first = None
                i = first_index(mism)
                p = os.path.join(ctx.work, "CasesC16R.idx")
                if i is not None and os.path.exists(p):
                    lines = open(p).read().split("\n")
                    if i < len(lines):
                        first = lines[i]
                ctx.broken.append(("correspondence", "c16r_mismatches", {"first_mismatch": first, "indices": (mism or "")[:400]}))
            n = res.get("c16u_ncases", "?")
            mism = res.get("c16u_mismatches")
            label = "unseal || key-serving requests from a sealed start, every enumerated schedule: answers of the real handlers = Model.Conc.run_seg (%s schedules)" % n
            if mism == "[]":
                ctx.obligations.append(("corr:" + label, True, "no mismatch"))
            else:
                ctx.obligations.append(("corr:" + label, False, "mismatch indices %s" % (mism or "missing")[:200]))
                first = None
                i = first_index(mism)
                p = os.path.join(ctx.work, "CasesC16U.idx")
                if i is not None and os.path.exists(p):
                    lines = open(p).read().split("\n")
                    if i < len(lines):
                        first = lines[i]
                ctx.broken.append(("correspondence", "c16u_mismatches", {"first_mismatch": first, "indices": (mism or "")[:400]}))
    if os.environ.get("VERIF_SHOW_FAILED"):
        for o in ctx.obligations:
            if not o[1]:
                print("# failed: %s -- %s" % (str(o[0])[:160], str(o[2])[:300]), flush=True)
        for k, n, d in ctx.broken:
            print("# broken: %s %s -- %s" % (k, n, str(d)[:600]), flush=True)
    ctx.assumptions = ["requests are served by one keymasterd process; several processes sharing one database are outside the model"]
    return ctx.finish("bin/build-coq; coqc Audit_Props_C16 / Obl_C16 / CasesC16 (lib/core.py); go test -overlay (instrumented storage.go) TestVerif_C16; go test -race TestVerif_C16Race",
                      COMMON_TRUSTED + TRUSTED,
                      ["data-race freedom of the compiled program: lock table (syntactic) + race detector (dynamic), not a theorem about Go's memory model",
                       "serializability of load-modify-save handlers is FALSE (c16_lost_update_refuted, c16_double_spend_refuted, c16_delete_undone_refuted): recorded as known findings per handler pair and schedule shape"])
