import os, re, threading
import core
from checks.generic import COMMON_TRUSTED, compile_gen, first_index

PROPS = ["c15_roundtrip", "c15_profile_roundtrip", "c15_profile_canon_idempotent", "c15_profile_save_load",
         "c15_profile_case_is_property", "c15_profile_identity_refuted", "c15_sync_mirror", "c15_sync_completes", "c15_mirror_reads", "c15_atomic",
         "c15_restart_keeps_stores", "c15_restart_outage_reads", "c15_copier_turn", "c15_copier_lag", "c15_ghost_is_run",
         "c15_outage_reads", "c15_outage_writes", "c15_dead_frozen", "c15_cleanup_invisible",
         "c15_cleanup_purges", "c15_reads_unexpired", "c15_old_outage_reported_refuted", "c15_old_mirror_refuted",
         "c15_old_atomic_refuted_cursor", "c15_old_atomic_refuted_eager", "c15_old_stale_writeback_refuted",
         "c15_retry_reuses_cursors_refuted", "c15_restart_wipes_refuted",
         "c15_journal_transparent", "c15_atomic_journal", "c15_no_journal_refuted", "c15_weak_journal_refuted"]

# coq/obl/Obl_C15.v over work/C15/gen/ConstsC15.v (journal_mode / synchronous of the connections that the real
# initDB opened, probed by the harness): the precondition of c15_atomic_journal holds for the daemon as configured
OBLS = ["c15_cache_probed", "c15_cache_is_transactional", "c15_atomic_as_configured",
        "c15_cache_journal_synced", "c15_atomic_as_configured_power"]

CASES = [("c15_history_mismatches", "storage histories (statement-level faults of every kind, transient and standing; restarts of the daemon) on real SQLite = model run (results of every op, both stores after every synchronisation and every restart)", "CasesC15.idx"),
         ("c15_handler_mismatches", "driven handler requests in every outage mode = model handler classes (what reaches the primary, cache untouched, served or refused)", "CasesC15h.idx"),
         ("c15_restart_handler_mismatches", "second-factor checks and readers after a restart during an outage = model (Restart; Handler)", None)]

# Model/Storage.v classify: the conclusion of the property's theorem evaluated on the observation of the
# first step of a mismatching history
VCLASS = {1: ("sync-reported-complete-not-mirror", "copyDBIntoSQLite returned nil and the cache is not the mirror of the primary (c15_sync_mirror, c15_atomic: success => the new content)"),
          2: ("sync-mixture", "after a failed copyDBIntoSQLite the cache is neither its previous nor its new content (c15_atomic)"),
          3: ("sync-reported-failed-new-content", "copyDBIntoSQLite returned an error although the cache holds the new content (c15_atomic: failure => the old content)"),
          4: ("sync-does-not-complete", "an un-faulted copyDBIntoSQLite with a readable primary returned an error (c15_sync_completes)"),
          5: ("sync-changed-primary", "copyDBIntoSQLite changed the primary (c15_atomic)"),
          6: ("restart-changed-store", "a restart of the daemon on the same data directory changed a store (c15_restart_keeps_stores)"),
          7: ("outage-read", "a read during an outage was not answered with the cache's content, flagged fromCache (c15_outage_reads)")}

TRUSTED = ["SQLite (mattn/go-sqlite3) transaction semantics ON A CONNECTION THAT KEEPS A ROLLBACK JOURNAL IN A FILE OR A WAL: statements inside a transaction become durable together at COMMIT, a rolled-back transaction (tx.Rollback, or the recovery after a killed process; with synchronous >= normal also after a power loss) leaves the previous content — the precondition is CHECKED on every run (PRAGMA journal_mode / synchronous probed on several connections of the handles initDB opened; obligations c15_cache_is_transactional / c15_cache_journal_synced; Model/StorageJournal.v says what happens without it), the conclusion is exercised with a fault at every statement and on a cache larger than the page cache, not proved",
           "the harness replaces the handles initDB opened by handles of the wrapping driver on the same files; the per-connection settings of the real handles (journal_mode, synchronous, cache_size, cache_spill, temp_store, mmap_size, busy_timeout, query_only, secure_delete, ...) that differ from a plain connection are replayed on every connection of the wrapping driver (PRAGMA statements at Open); locking_mode is reported but not carried over, other DSN parameters (_txlock, mode, cache=shared) are not seen",
           "the wrapping database/sql driver (harness/kmd/faultdb.go) numbers Query/Exec/Prepare/Begin/Commit/rows.Next calls in program order and fails the k-th (or every one from the k-th on) with an error value of the chosen kind (generic, sqlite3.Error{SQLITE_BUSY}, sqlite3.Error{SQLITE_LOCKED}, driver.ErrBadConn, context.DeadlineExceeded); the model's statement list is compared with it through the fault index; Rollback and Close calls are never failed",
           "database/sql's own repetition of DB.Query / DB.Begin / Stmt.Exec on driver.ErrBadConn is part of the model (st_retried); it is what the real database/sql of the toolchain does in the runs, not proved about it",
           "outages of the primary are simulated: hang = remoteDBQueryTimeout 0 (as the project's own cache test), closed pool = closed *sql.DB, fail-fast at prepare / query / row fetch = the wrapping driver failing every read of the primary file at that stage (with and without the other statements failing too) under a 20 ms read deadline; PostgreSQL is not available offline",
           "a restart of the daemon = a second RuntimeState from loadVerifyConfigFile / initDB on the same data directory, the first one's handles closed, its background copier stopped; the process boundary itself (exit, exec) is not crossed",
           "software U2F token (harness/kmd/vdevice.go) for registrations and WebAuthn assertions"]

UNPROVED = ["encoding/gob itself stays trusted library code: proved (c15_profile_roundtrip, Model/Profile.v) is that the content of a userProfile (U2F registrations, WebAuthn credentials, TOTP secrets, bootstrap OTP, pending data; maps by key, nil = empty) is stable under gob's documented zero-value rules, for every profile; that the real encoder behind SaveUserProfile / LoadUserProfile and the cache obeys those rules is COMPARED on the generated profiles (Go canonical strings, and the same (saved, loaded) pairs evaluated inside Coq: c15_profile_mismatches), not proved",
            "the Go -> Coq rendering of a profile abstracts byte strings longer than 14 bytes to length + 48 bits of SHA-256, a u2f.Registration to its Raw bytes, SessionData.Extensions to its sorted listing and times to Unix nanoseconds; c15_profile_save_load takes the codec's content behaviour (dec (enc p) = gob_roundtrip p) as its premise, the storage model's blobs stay numbers",
            "which handler belongs to which model class is established by driving it (20 requests); handlers that need a WebAuthn attestation (RegisterFinish) or e-mail (self-service bootstrap OTP) are only probed generically"]


def run(ctx):
    ctx.audit("Props.C15", PROPS)
    ctx.extract()
    files = ["kmd/common.go", "kmd/creds.go", "kmd/faultdb.go", "kmd/vdevice.go", "kmd/storeenv.go", "kmd/c15.go",
             os.path.join(ctx.work, "gen", "mux_gen.go")]
    ok, result, log = ctx.go_harness("cmd/keymasterd", "TestVerif_C15", files, timeout=1500)
    compile_gen(ctx, ("Routes.v", "Tables.v", "Consts.v"))
    if result is not None:
        if compile_gen(ctx, ("ConstsC15.v",)) and os.path.exists(os.path.join(ctx.work, "gen", "ConstsC15.v")):
            ctx.gen_obligations("Obl_C15.v", OBLS)
        else:
            ctx.obligations.append(("gen:c15_cache_is_transactional", False, "the harness wrote no probed connection settings"))
            ctx.broken.append(("obligation", "gen:ConstsC15.v", "work/C15/gen/ConstsC15.v missing or rejected"))
        # the profile pairs are a case file of their own, compiled while CasesC15.v is evaluated
        pbox = {}
        pfile = os.path.join(ctx.work, "CasesC15p.v")
        pth = None
        if os.path.exists(pfile):
            pth = threading.Thread(target=lambda: pbox.update(r=ctx.coqc(pfile, timeout=1800)))
            pth.start()
        res = ctx.eval_cases(os.path.join(ctx.work, "CasesC15.v"), "CasesC15.v")
        if pth is not None:
            pth.join()
        pres = {}
        prc, pout = pbox.get("r", (1, "the harness wrote no CasesC15p.v"))
        if prc == 0:
            for m in re.finditer(r"^(\w+) =\s*(.*?)\n\s*: ", pout, re.S | re.M):
                pres[m.group(1)] = " ".join(m.group(2).split())
        else:
            ctx.obligations.append(("corr:CasesC15p.v", False, "case file rejected"))
            ctx.broken.append(("correspondence", "CasesC15p.v", pout[-2000:]))
        if res is not None:
            n = res.get("c15_ncases", "?")
            for name, label, idxfile in CASES:
                mism = res.get(name)
                if mism == "[]":
                    ctx.obligations.append(("corr:%s (%s cases in file)" % (label, n), True, "no mismatch"))
                    continue
                ctx.obligations.append(("corr:" + label, False, "mismatch indices %s" % (mism or "missing")[:200]))
                first = None
                i = first_index(mism)
                lines = []
                if idxfile and os.path.exists(os.path.join(ctx.work, idxfile)):
                    lines = open(os.path.join(ctx.work, idxfile)).read().split("\n")
                if i is not None and i < len(lines):
                    first = lines[i]
                ctx.broken.append(("correspondence", name, {"label": label, "first_mismatch": first, "indices": (mism or "")[:400]}))
            # the content of the profile: (saved, loaded) pairs of the real SaveUserProfile / LoadUserProfile in the
            # representation of Model/Profile.v; model prediction canon (gob_roundtrip saved) = canon loaded
            pm = pres.get("c15_profile_mismatches")
            npairs = pres.get("c15_profile_npairs", "?")
            plabel = "(saved, loaded) profile pairs through the real SaveUserProfile / LoadUserProfile (primary and cache): canon (gob_roundtrip saved) = canon loaded (Model/Profile.v)"
            plines = []
            pp = os.path.join(ctx.work, "CasesC15p.idx")
            if os.path.exists(pp):
                plines = open(pp, errors="replace").read().split("\n")
            if pm == "[]" and npairs not in ("?", "0"):
                ctx.obligations.append(("corr:%s (%s pairs)" % (plabel, npairs), True, "no mismatch"))
            else:
                ctx.obligations.append(("corr:" + plabel, False, "mismatch indices %s (%s pairs)" % ((pm or "missing")[:200], npairs)))
                i = first_index(pm)
                ctx.broken.append(("correspondence", "c15_profile_mismatches",
                                   {"label": plabel, "first_mismatch": plines[i] if i is not None and i < len(plines) else None, "indices": (pm or "")[:400]}))
            # ... and the property's own conclusion on the observation: canon saved = canon loaded
            pv = first_index(pres.get("c15_profile_violating") or "[]")
            if pv is not None:
                ctx.hits.append({"key": "C15:model-oracle:profile-content-changed",
                                 "oracle": "the canonical content (Model/Profile.v canon, evaluated inside Coq) of the profile handed to SaveUserProfile and of what LoadUserProfile returned for that user",
                                 "what": "a stored profile was not read back with the content that was saved (c15_profile_roundtrip)",
                                 "case": {"pair": plines[pv] if pv < len(plines) else None, "case_index": pv},
                                 "observed": {"class": "profile-content-changed", "pairs": (pres.get("c15_profile_violating") or "")[:200]}})
            # round 2: a mismatching history on which the OBSERVATION violates the property is a failing input
            viol = res.get("c15_violating") or "[]"
            lines = []
            p = os.path.join(ctx.work, "CasesC15.idx")
            if os.path.exists(p):
                lines = open(p).read().split("\n")
            seen = set()
            for m in re.finditer(r"\((\d+),\s*(\d+)\)", viol):
                i, v = int(m.group(1)), int(m.group(2))
                cls, what = VCLASS.get(v, ("class-%d" % v, "the observation violates the property"))
                if cls in seen:
                    continue
                seen.add(cls)
                ctx.hits.append({"key": "C15:model-oracle:" + cls, "oracle": "the conclusion of the property's theorem evaluated (inside Coq) on the observed step of a history that leaves the model",
                                 "what": what, "case": {"history": lines[i] if i < len(lines) else None, "case_index": i},
                                 "observed": {"class": cls}})
    ctx.assumptions = ["the source tables are read as one snapshot each (no concurrent writer during a copy)",
                       "expiry decisions compare with the harness's clock reading; generated expiries stay >= 15 min away from now except in the one scenario aligned to the second"]
    return ctx.finish("bin/build-coq; coqc Audit_*/Cases* (lib/core.py); go test -overlay TestVerif_C15",
                      COMMON_TRUSTED + TRUSTED, UNPROVED)
