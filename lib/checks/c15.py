from checks.generic import standard

def run(ctx):
    return standard(ctx,
        props=[("Props.C15", ["c15_roundtrip", "c15_sync_mirror", "c15_sync_completes", "c15_mirror_reads", "c15_atomic",
                              "c15_outage_reads", "c15_outage_writes", "c15_dead_frozen", "c15_cleanup_invisible",
                              "c15_cleanup_purges", "c15_reads_unexpired", "c15_old_outage_reported_refuted", "c15_old_mirror_refuted", "c15_old_atomic_refuted_cursor",
                              "c15_old_atomic_refuted_eager", "c15_old_stale_writeback_refuted"])],
        harness=("TestVerif_C15", ["kmd/common.go", "kmd/creds.go", "kmd/faultdb.go", "kmd/vdevice.go", "kmd/storeenv.go", "kmd/c15.go"]),
        cases=("CasesC15.v", [("c15_history_mismatches", "storage histories with statement-level faults on real SQLite = model run (results of every op, both stores after every synchronisation)"),
                              ("c15_handler_mismatches", "driven handler requests in up/slow/dead mode = model handler classes (what reaches the primary, cache untouched, served or refused)")],
               "CasesC15.idx"),
        trusted=["SQLite (mattn/go-sqlite3) transaction semantics: statements inside a transaction become durable together at COMMIT, a rolled-back transaction leaves the previous content — exercised with a fault at every statement, not proved",
                 "the wrapping database/sql driver (harness/kmd/faultdb.go) numbers Query/Exec/Prepare/Begin/Commit/rows.Next calls in program order; the model's statement list is compared with it through the fault index",
                 "outages of the primary are simulated: hang = remoteDBQueryTimeout 0 (as the project's own cache test), closed pool = closed *sql.DB, fail-fast at prepare / query / row fetch = the wrapping driver failing every read of the primary file at that stage (with and without the other statements failing too) under a 20 ms read deadline; PostgreSQL is not available offline",
                 "software U2F token (harness/kmd/vdevice.go) for registrations and WebAuthn assertions"],
        assumptions=["the source tables are read as one snapshot each (no concurrent writer during a copy)",
                     "expiry decisions compare with the harness's clock reading; generated expiries stay >= 15 min away from now except in the one scenario aligned to the second"],
        unproved=["the gob encoding round trip of userProfile (U2F registrations, WebAuthn credentials, TOTP secrets, bootstrap OTP, pending data) is property-tested through the real Save/Load and the cache, not proved",
                  "which handler belongs to which model class is established by driving it (20 requests); handlers that need a WebAuthn attestation (RegisterFinish) or e-mail (self-service bootstrap OTP) are only probed generically"],
        timeout=1500)
