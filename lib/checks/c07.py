from checks.generic import standard

def run(ctx):
    return standard(ctx,
        props=[("Props.C07", ["c07_accept_sound", "c07_final", "c07_evict", "c07_reject_keeps_other", "c07_refresh",
                              "c07_refusal_any_diagnostic", "c07_refusal_final", "c07_account_state_refused", "c07_diag_sensitive_refuted", "c07_diag_sensitive_masked_by_second_pattern",
                              "c07_first_pattern_decides", "c07_later_pattern_user_refused",
                              "c07_outage_login_pure", "c07_rows_confirmed", "c07_backend",
                              "c07_cache_only_while_primary_silent", "c07_cache_silent_while_primary_answers", "c07_primary_row_decides", "c07_evicted_in_primary_refused",
                              "c07_sticky_fallback_refuted", "c07_sticky_fallback_refresh_refuted",
                              "c07_old_text_test_refuted", "c07_other_code_no_verdict", "c07_old_expired_record_refuted", "c07_old_evict_cache_refuted",
                              "c07_evict_primary_outage_refuted"])],
        harness=("TestVerif_C07", ["kmd/common.go", "kmd/creds.go", "kmd/faultdb.go", "kmd/vdevice.go", "kmd/storeenv.go", "kmd/c15.go", "kmd/c07.go"]),
        cases=("CasesC07.v", [("c07_mismatches", "login histories against the in-process LDAPS directory and the SQLite stores = model run (verdict of every login, both stores after every op)"),
                              ("c07_backend_mismatches", "htpassword and command backends on mixed-case user names = backend verdict on the normalised name")],
               "CasesC07.idx"),
        model_oracles=[("c07_renewed_violating", "C07:model-oracle:outage-login-renewed-record", "a login during which no directory server answered changed the user's stored record (record / expiry differ between the snapshots before and after): the conclusion of c07_outage_login_pure fails on this observed history", "CasesC07.idx"),
                       ("c07_stale_violating", "C07:model-oracle:cache-decided-while-primary-answers", "no directory server answered, the primary store answers, and the login was accepted although the primary's current row is not a genuine current hash of that password for that user: the conclusion of c07_primary_row_decides fails on this observed history", "CasesC07.idx")],
        trusted=["symbolic signatures: a stored record verifies iff keymaster's key produced it (go-jose RS256 verification, exercised with attacker-key, edited-payload and alg-none records)",
                 "Argon2 hash comparison = equality of the hashed password (authutil.Argon2CompareHashAndPassword, exercised with real hashes)",
                 "the directory's answers and the LDAP wire protocol are environment: in-process LDAPS server (vjeantet/ldapserver), 'down' = connections dropped before the TLS handshake, 'erroring' = result codes Busy/Unavailable/OperationsError/Other/UnwillingToPerform/InsufficientAccessRights/InappropriateAuthentication with assorted diagnostics; refusals = result code 49 with no diagnostic, a plain sentence, or Active Directory sub statuses 52e/525/530/531/532/533/701/773/775/57",
                 "clock advances are simulated by re-issuing every stored record with a correspondingly earlier expiry through the state's own signing function (model time = real time + offset)",
                 "storage model of C15 (Model/Storage.v) incl. SQLite transaction semantics"],
        assumptions=[
                     "nobody but keymaster can produce a genuinely signed record (EUF-CMA of the JWS signature)"],
        unproved=["c07_evict holds while the primary can be written; with the primary unreachable at the moment of the rejection the hash survives (c07_evict_primary_outage_refuted, known finding)"],
        timeout=1500)
