from checks.generic import standard

def run(ctx):
    return standard(ctx,
        props=[("Props.C12", ["c12_release_sound", "c12_idtoken", "c12_userinfo", "c12_userinfo_origin", "c12_nothing_else"]),
               ("Props.C04", ["c04_matrix"])],
        harness=("TestVerif_C12", ["kmd/common.go", "kmd/creds.go", "kmd/consts.go", "kmd/tokens.go", "kmd/c04.go", "kmd/c12.go"]),
        obl=("Obl_C12.v", ["c12_16h", "c12_code_life", "c12_kinds", "c12_idtoken_16h"]),
        cases=("CasesC12.v", [("c12_product_mismatches", "released/refused of the token endpoint = model on the full product of the quantifier"),
                              ("c12_release_mismatches", "claims of every released ID token and access token, and the userinfo answer, = model"),
                              ("c12_token_mismatches", "single token requests (code age 0..57700 s around the 300 s expiry, malformed requests, header/form precedence) = model"),
                              ("c12_authorize_mismatches", "authorization step: code claims / refusal = model"),
                              ("c12_userinfo_mismatches", "userinfo on access tokens with mutated claims and on every other kind = model")], "CasesC12.idx"),
        trusted=["symbolic cryptography as in C04 (verification succeeds iff trusted signer, allowed algorithm, unaltered bytes); in histories a presented token that verifies was emitted earlier by the server (predicate valid)",
                 "crypto/sha256 + base64 (the S256 transform enters the model as the input tr_vhash), AES-GCM/RSA-OAEP sealing of the challenge (symbolic VSealed: opens only with the code's own jti)",
                 "url.QueryUnescape of Basic credentials and form parsing in front of the model; CanRedirectToURL / CorsOriginAllowed verdicts are inputs (C13)",
                 "whom checkAuth admitted at the authorization step is an input (C01/C06)",
                 "go-jose verification of the ID token under the served JWKS is the harness's oracle for 'verifies under the published JWKS'"],
        assumptions=["clock: model evaluated at the readings taken before and after the sweep; all codes are >= 100 s away from their expiry"],
        extra_gen=("TokenConsts.v",), timeout=2400)
