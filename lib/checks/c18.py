import os
from checks.generic import standard

def run(ctx):
    # a broken obligation without a canary: the escalated search is bounded (the first run already renders every
    # page in its variants with the wrapper family and the stored canaries)
    os.environ.setdefault("VERIF_ESCALATION_S", "240")
    # an escalated run (thorough volume under a wall-clock limit) bounds its generator so that it ends with a verdict:
    # the focus stage and the dictionary probes first, route loops stop starting new routes after the budget
    henv = {"VERIF_C18_BUDGET_S": os.environ.get("VERIF_C18_BUDGET_S", "120")} if os.environ.get("VERIF_ESCALATED") else None
    return standard(ctx,
        props=[("Props.C18", ["c18_escape_safe", "c18_hidden_input", "c18_old_input_refuted", "c18_escaped_fields_inert", "c18_document_no_raw", "c18_page_fields_inert", "c18_typed_failure_refuted", "c18_raw_field_refuted", "c18_field_contexts_safe", "c18_quoted_value", "c18_unquoted_value",
                                 "c18_hand_attr_quoted_inert", "c18_hand_attr_unquoted_blankfree", "c18_hand_attr_unquoted_refuted",
                                 "c18_stored_fields_inert", "c18_stored_raw_refuted", "c18_part_quoted_inert", "c18_part_unquoted_refuted", "c18_email_wrapper_reaches_part"])],
        harness=("TestVerif_C18", ["kmd/common.go", "kmd/creds.go", "kmd/c18.go", "kmd/c18b.go", "kmd/c18c.go", "kmd/vdevice.go", os.path.join(ctx.work, "gen", "c18_admin_gen.go")]),
        obl=("Obl_C18.v", ["c18_raw_sinks", "c18_login_input_escaped", "c18_direct_writes", "c18_templates_html", "c18_text_templates_offline", "c18_html_typed_writers", "c18_field_contexts", "c18_handbuilt_quoting", "c18_admin_routes_listed"]),
        cases=("CasesC18.v", [("c18_mismatches", "VALUE attribute of the hidden INPUT in served pages = html_escape(ensureHTMLSafeLoginDestination(dest))"),
                             ("c18_failure_mismatches", "writeFailureResponse = failure_response of the model: declared type, body bytes, rendered-as-document verdict", "CasesC18f.idx"),
                             ("c18_escaper_mismatches", "html/template's rendering of a field in text / quoted-attribute / unquoted-attribute context = render_field of the model", "CasesC18e.idx"),
                             ("c18_attr_mismatches", "the raw attribute value an HTML tokenizer reads (attr_read of the model) is the whole rendered field: hidden INPUT, second-factor pages with nested canaries, html/template quoted / unquoted renderings", "CasesC18a.idx"),
                             ("c18_part_mismatches", "wrapped probes: wherever a rendering of the inner payload stands inside an attribute value of a served page, the value the tokenizer reads does not end inside it (c18_part_quoted_inert, c18_quoted_value, c18_unquoted_value)", "CasesC18p.idx")], "CasesC18.idx"),
        env=henv,
        violating=[("c18_violating", "request-text-ends-attribute-value", "CasesC18a.idx"),
                   ("c18_part_violating", "request-text-part-ends-attribute-value", "CasesC18p.idx")],
        trusted=["html/template: that it recognises the context of a field as tools/extract/c18_contexts.go does (the escapers of the text, quoted and unquoted attribute contexts themselves are modelled and compared byte for byte); its URL filter/normaliser and the script/style/CSS escapers (no field of the current templates needs them)",
                 "golang.org/x/net/html tokenizer as the HTML5 parser of the oracle",
                 "tools/extract: table of conversions to template.HTML and friends"],
        assumptions=["url.Parse(..).String() is an arbitrary function in the theorem (the proof does not depend on it)"],
        unproved=["the context analysis of html/template itself (which escaper it picks for a field) is library code: tied by the regenerated context table + byte-level comparison of real renderings, and by canary probes of every route"])
