from checks.generic import standard

def run(ctx):
    return standard(ctx,
        props=[("Props.C18", ["c18_escape_safe", "c18_hidden_input", "c18_old_input_refuted", "c18_escaped_fields_inert", "c18_document_no_raw", "c18_page_fields_inert", "c18_typed_failure_refuted", "c18_raw_field_refuted"])],
        harness=("TestVerif_C18", ["kmd/common.go", "kmd/creds.go", "kmd/c18.go"]),
        obl=("Obl_C18.v", ["c18_raw_sinks", "c18_login_input_escaped", "c18_direct_writes", "c18_templates_html", "c18_text_templates_offline", "c18_html_typed_writers"]),
        cases=("CasesC18.v", [("c18_mismatches", "VALUE attribute of the hidden INPUT in served pages = html_escape(ensureHTMLSafeLoginDestination(dest))"),
                             ("c18_failure_mismatches", "writeFailureResponse = failure_response of the model: declared type, body bytes, rendered-as-document verdict", "CasesC18f.idx")], "CasesC18.idx"),
        trusted=["html/template contextual auto-escaping of ordinary template fields (exercised by canaries, not modelled)",
                 "golang.org/x/net/html tokenizer as the HTML5 parser of the oracle",
                 "tools/extract: table of conversions to template.HTML and friends"],
        assumptions=["url.Parse(..).String() is an arbitrary function in the theorem (the proof does not depend on it)"],
        unproved=["ordinary template fields: html/template auto-escaping is trusted library code, covered by canary probes of every route"])
