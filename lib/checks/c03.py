import os, re
import core
from checks.c17 import compile_gen

TRUSTED = [
    "Coq 8.16.1 kernel incl. vm_compute (case evaluation, refutation witness); no native_compute",
    "time.ParseDuration runs in front of the model (its int64 result is the model's input; the theorem quantifies over all integers)",
    "uint64(float64) conversion modelled as truncation + two's complement (amd64); float rounding of Duration.Seconds() is exact for |d| <= 24h",
    "harness-compiled constants (Consts.v) — compiled against the current tree by the Go compiler",
    "cloud-role template lifetime: probed (NotAfter-NotBefore of the template the library hands to its certificate generator, library defaults) and observed through the real endpoint with the issuer the loader built, behind a fake STS (http.DefaultClient transport)",
    "configuration knobs are found by reflection over AppConfigFile (numeric, duration, lifetime-named strings); a knob of another kind (a nested list of structs, a pointer) is not varied",
]

def corr(ctx, res, name, label):
    mism = res.get(name)
    if mism == "[]":
        ctx.obligations.append(("corr:" + label, True, "no mismatch"))
        return True
    ctx.obligations.append(("corr:" + label, False, "mismatch indices %s" % (mism or "?")[:200]))
    return False

def idx_line(ctx, mism):
    m = re.search(r"\[(\d+)", mism or "")
    first = None
    if m:
        for line in open(os.path.join(ctx.work, "CasesC03.idx")):
            if line.startswith(m.group(1) + "\t"):
                first = line.strip()
    return {"first_mismatch": first, "indices": (mism or "")[:400]}

def model_oracle(ctx, res, name, cls, what):
    viol = res.get(name)
    if viol is None or viol == "[]":
        return
    lines = {}
    try:
        for line in open(os.path.join(ctx.work, "CasesC03.idx")):
            lines[line.split("\t", 1)[0]] = line.strip()
    except OSError:
        pass
    for m in re.findall(r"\d+", viol.split(":")[0])[:20]:
        ctx.hits.append({"key": "C03:model-oracle:" + cls, "oracle": "model-oracle: " + name,
                         "what": "the observed output violates the property predicate as evaluated in Coq: " + what,
                         "case": lines.get(m, "case " + m)})

def run(ctx):
    ctx.audit("Props.C03", ["c03_ssh_bound", "c03_x509_bound", "c03_too_long_refused",
                            "c03_nonpositive_refused", "c03_old_refuted",
                            "c03_upgrade_keeps_auth_instant", "c03_bound_after_upgrades",
                            "c03_effective_window", "c03_config_independent", "c03_fixed_paths_ignore_request",
                            "c03_effective_window_every_ca", "c03_window_independent_of_ca",
                            "c03_not_yet_valid_ca_starts_now", "c03_nested_validity_refuted",
                            "c03_nested_validity_agrees_when_ca_valid", "c03_obs_ok_not_future",
                            "c03_obs_ok_not_beyond_limit"])
    gen = ctx.extract()
    ok, result, log = ctx.go_harness("cmd/keymasterd", "TestVerif_C03",
                                     ["kmd/common.go", "kmd/creds.go", "kmd/consts.go", "kmd/c03.go",
                                      os.path.join(ctx.work, "gen", "mux_gen.go")])
    if result is not None:
        rc, out = ctx.coqc(os.path.join(ctx.work, "gen", "Consts.v"))
        if rc != 0:
            ctx.broken.append(("obligation", "gen:Consts.v", out[-1500:]))
        else:
            ctx.gen_obligations("Obl_C03.v", ["c03_cap_is_24h", "c03_role_le_45d", "c03_aws_le_24h", "c03_24h", "c03_every_path_every_config", "c03_every_path_every_ca_validity"])
            res = ctx.eval_cases(os.path.join(ctx.work, "CasesC03.v"), "c03_validity_vs_model")
            if res is not None:
                n = res.get("c03_ncases")
                if not corr(ctx, res, "c03_mismatches", "validity window of %s responses = model (ssh, x509, kubernetes)" % n):
                    first = None
                    m = re.search(r"\[(\d+)", res.get("c03_mismatches") or "")
                    if m:
                        for line in open(os.path.join(ctx.work, "CasesC03.idx")):
                            if line.startswith(m.group(1) + "\t"):
                                first = line.strip()
                    ctx.broken.append(("correspondence", "c03_validity_vs_model", {"first_mismatch": first, "indices": (res.get("c03_mismatches") or "")[:400]}))
                if not corr(ctx, res, "c03_aws_mismatches", "cloud-role validity within 24 h"):
                    ctx.broken.append(("correspondence", "c03_aws_validity", res.get("c03_aws_mismatches")))
                if not corr(ctx, res, "c03_role_mismatches", "role/refresh validity = maxRoleRequestingCertDuration"):
                    ctx.broken.append(("correspondence", "c03_role_validity", res.get("c03_role_mismatches")))
                if not corr(ctx, res, "c03_config_mismatches", "validity window on every path under %s configurations (one reflected knob at an extreme value each) = model effective_window for that configuration" % res.get("c03_nconfigs")):
                    ctx.broken.append(("correspondence", "c03_config_validity", idx_line(ctx, res.get("c03_config_mismatches"))))
                if not corr(ctx, res, "c03_ca_mismatches", "validity window on every X.509 issuing path under %s installed CA validities (NotBefore an hour ago / now / in 40 minutes x NotAfter in years / in 10 minutes) = model effective_window_ca (which ignores the CA's dates)" % res.get("c03_ncas")):
                    ctx.broken.append(("correspondence", "c03_ca_validity", idx_line(ctx, res.get("c03_ca_mismatches"))))
                # model oracle: mismatching cases on which the OBSERVATION violates the property's own predicate
                # (obs_starts_in_future / obs_ends_too_late evaluated in Coq) carry their input
                model_oracle(ctx, res, "c03_violating_future", "future", "the issued certificate starts after the clock reading taken right after the answer")
                model_oracle(ctx, res, "c03_violating_toolong", "toolong", "the issued certificate ends later than the moment of issuance + requested duration / path limit (or the authenticated-at instant + cap)")
    ctx.assumptions = ["clock readings are taken by the harness immediately before and after each request; the model must agree for some reading in that interval (+-1 s)"]
    return ctx.finish("bin/build-coq; coqc Audit/Obl_C03/CasesC03; go test -overlay TestVerif_C03", TRUSTED)
