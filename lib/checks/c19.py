import os
import re
import core
from concurrent.futures import ThreadPoolExecutor
from checks.generic import compile_gen, first_index, COMMON_TRUSTED

PROPS = ["c19_wire_only_public", "c19_no_private_on_wire", "c19_private_stays_local", "c19_private_file_mode", "c19_old_existing_mode_refuted", "c19_agent_replace", "c19_agent_replace_repeated", "c19_install_is_upsert", "c19_other_labels_untouched", "c19_normalised_comment_refuted", "c19_agent_replace_faulty", "c19_best_effort_cleanup_refuted",
         "c19_offered_accepted_spec", "c19_offered_certified_any_ca", "c19_server_keys_enumerated", "c19_value_form_signer_refuted", "c19_old_p384_refuted", "c19_wire_only_public_web", "c19_no_private_on_wire_web",
         "c19_only_designated_agent", "c19_designated_agent_upsert", "c19_no_agent_adds_nothing", "c19_unusable_agent_adds_nothing",
         "c19_install_only_designated", "c19_agent_discovery_refuted"]

TRUSTED = [
    "USB token access stubbed: harness/stubs/flynn_hid_nocgo.go is overlaid into github.com/flynn/hid and the client is built with CGO_ENABLED=0 (no libudev on this machine); the U2F-device second factor of the client is not exercised",
    "the client (cmd/keymaster) and the daemon (cmd/keymasterd) are two `package main`: the real handlers are served over TLS by the server harness test binary, the real setupCerts runs in the client harness test binary (coordination through files in the work directory)",
    "the recording RoundTripper sees requests at the HTTP level (httputil.DumpRequestOut: request line, headers incl. cookies, body), not TLS records or HPACK frames",
    "the byte search looks for the big-endian secret numbers (RSA d, primes, CRT values; ECDSA d; Ed25519 seed) in the recorded bytes and in their percent / base-64 / hex decodings at every alignment; an encrypted or otherwise transformed leak would not be seen",
    "x/crypto/ssh/agent keyring as the SSH agent (identities keyed by public blob, as OpenSSH's agent)",
    "tools/extract c19.go: pattern alternatives, rsaKeySize, serialisation / private-marshal / file-write tables",
    "which agent: recording decoy keyrings listen at the conventional unix-socket places ($TMPDIR/ssh-*/agent.*, $TMPDIR/ssh-agent.sock, $HOME/.ssh/agent*, $HOME/.gnupg/S.gpg-agent.ssh, $XDG_RUNTIME_DIR/{ssh-agent.socket,openssh_agent,keyring/ssh,gnupg/S.gpg-agent.ssh}, /tmp/ssh-*/agent.*) with TMPDIR/HOME/XDG_RUNTIME_DIR pointing into a scratch directory; an agent contacted elsewhere is seen only through the success flag / the missing key file; the Windows named-pipe branch is not driven",
    "no Ed25519 CA in the generated daemon configuration: the optional Ed25519 request is answered 422 and the client goes on without it (key checks of the server still passed)",
]

# further correspondences printed by the same case file: (definition, idx file, label, count definition)
EXTRA_CORR = {
    "CasesC19A.v": [("c19al_mismatches", "CasesC19AL.idx", "labels: listing after every installation of the real WithAddedKeyUpsertCertIntoAgentConnection, again and again under one label and its neighbours, for every class of label byte string (plain, space, tab, line end, control bytes, multi-byte characters, Unicode spaces, 3-5 kB, empty, prefix of another, other case, outer spaces, space runs, random bytes) = model install_cert (%s installations)", "c19al_ncases"),
                    ("c19ae_mismatches", "CasesC19AE.idx", "which agent (library): success flag and the listing of EVERY agent of the scene (the one SSH_AUTH_SOCK names and the decoys at conventional places) after WithAddedKeyUpsertCertIntoAgent / UpsertCertIntoAgent in every agent environment situation = model world_upsert (%s scenes)", "c19ae_ncases")],
    "CasesC19S.v": [("c19k_mismatches", "CasesC19K.idx", "server key material: daemon states built through the configuration path with every CA key file (main CA RSA / P-256 / P-384 / P-521 as PKCS#8, PKCS#1 / SEC1, OpenSSH; Ed25519 CA absent, PKCS#8, OpenSSH; sealed variants; key files of the wrong kind) x every key type the client offers through certgen ssh and x509: daemon starts or not, answer per key type = model load_signers / ssh_answer_of / x509_certified (%s configurations)", "c19k_ncases")],
    "CasesC19.v": [("c19l_mismatches", "CasesC19L.idx", "labels (client): the agent's listing after every run of insertSSHCertIntoAgentORWriteToFilesystem, run after run with file prefixes / user names of every label class = model install_cert (%s runs)", "c19l_ncases"),
                   ("c19w_mismatches", "CasesC19W.idx", "client runs with the web-browser login (stored CLI token, verifyToken, browser command, cookie received on the local listener): recorded requests, files, agent labels = model setup_wire_web / install (%s runs)", "c19w_ncases"),
                   ("c19i_mismatches", "CasesC19I.idx", "which agent (client): agents of the scene and files under HOME after insertSSHCertIntoAgentORWriteToFilesystem in every agent environment situation = model install_ssh_env (%s scenes)", "c19i_ncases")],
}
# (definition, class, idx file, oracle text)
VIOLATING = {
    "CasesC19A.v": [("c19al_violating", "agent-label", "CasesC19AL.idx", "after an installation under a label the observed listing does not show exactly the new certificate under that label, or still holds a certificate an earlier installation under the label put there, or lost another identity"),
                    ("c19a_violating", "agent-replace", "CasesC19A.idx", "after an installation the observed agent listing breaks 'exactly one certificate under the label, nothing else removed, nothing added on error'"),
                    ("c19ae_violating", "private-key-to-undesignated-agent", "CasesC19AE.idx", "the new identity (private key + certificate) is observed in an agent that SSH_AUTH_SOCK does not name")],
    "CasesC19.v": [("c19l_violating", "agent-label", "CasesC19L.idx", "after a run of the client the agent's listing does not show exactly the new certificate under filePrefix-userName, or still holds a certificate an earlier run under that label put there, or lost another identity"),
                   ("c19_violating", "private-exposed", "CasesC19.idx", "a recorded request carries private key material or a private key file is accessible to group/others"),
                   ("c19w_violating", "private-exposed", "CasesC19W.idx", "a recorded request of a web-login run carries private key material or a private key file is accessible to group/others"),
                   ("c19i_violating", "private-key-to-undesignated-agent", "CasesC19I.idx", "the new identity is observed in an agent that SSH_AUTH_SOCK does not name"),
                   ("c19i_violating_mode", "key-file-mode", "CasesC19I.idx", "a private key file under HOME is accessible to group/others after the installation")],
    "CasesC19U.v": [("c19u_violating", "private-file-mode", "CasesC19U.idx", "the observed mode of the private key file has group/other bits")],
    "CasesC19S.v": [("c19s_violating", "offered-refused", "CasesC19S.idx", "the server refuses a key of a type the client offers"),
                    ("c19k_violating", "offered-refused-ca", "CasesC19K.idx", "a daemon running with this CA key material gives no certificate for a key of a type the client offers although the CA for it is configured")],
}

def corr(ctx, res, name, label, idxfile):
    mism = res.get(name)
    if mism == "[]":
        ctx.obligations.append(("corr:" + label, True, "no mismatch"))
        return
    ctx.obligations.append(("corr:" + label, False, "mismatch indices %s" % (mism or "missing")[:200]))
    first = None
    i = first_index(mism)
    p = os.path.join(ctx.work, idxfile)
    if i is not None and os.path.exists(p):
        lines = open(p).read().split("\n")
        if i < len(lines):
            first = lines[i][:3000]
    ctx.broken.append(("correspondence", name, {"label": label, "first_mismatch": first, "indices": (mism or "")[:400]}))

def violating(ctx, res, name, klass, idxfile, oracle):
    """round-2 addendum: indices (printed by the case file) of the mismatching cases whose OBSERVATION breaks the
    property predicate as evaluated in Coq -> oracle hits C19:model-oracle:<class> carrying the case line"""
    val = res.get(name)
    if not val or val == "[]":
        return
    lines = []
    p = os.path.join(ctx.work, idxfile)
    if os.path.exists(p):
        lines = open(p).read().split("\n")
    for i in [int(x) for x in re.findall(r"(\d+)", val)][:20]:
        case = lines[i] if i < len(lines) else "case #%d" % i
        ctx.hits.append({"key": "C19:model-oracle:" + klass, "oracle": oracle + " (property predicate evaluated in Coq on the observed output of a case that differs from the model)",
                         "what": case[:800], "case": {"index": i, "line": case[:3000]}, "kind": "input"})

def env_for(ctx, pkgname):
    p = os.path.join(ctx.work, "c19env_%s.go" % pkgname)
    open(p, "w").write(open(os.path.join(core.VERIF, "harness", "base", "c19env.go")).read().replace("package verifbase", "package " + pkgname, 1))
    return p

def base_for(ctx, pkgname):
    p = os.path.join(ctx.work, "base_%s.go" % pkgname)
    open(p, "w").write(open(os.path.join(core.VERIF, "harness", "base", "base.go")).read().replace("package verifbase", "package " + pkgname, 1))
    return p

def hid_dir():
    import glob
    d = sorted(glob.glob(os.path.expanduser("~/go/pkg/mod/github.com/flynn/hid@*")))
    return d[-1] if d else None

def run(ctx):
    ctx.audit("Props.C19", PROPS)
    ctx.extract()
    for f in ("c19_server.json", "c19_client_done"):
        p = os.path.join(ctx.work, f)
        if os.path.exists(p):
            os.remove(p)
    stub = {}
    if hid_dir():
        stub[os.path.join(hid_dir(), "zz_verif_stub.go")] = os.path.join(core.VERIF, "harness", "stubs", "flynn_hid_nocgo.go")
    nocgo = {"CGO_ENABLED": "0", "GODEBUG": "goindex=0"}
    with ThreadPoolExecutor(max_workers=4) as ex:
        fs = ex.submit(ctx.go_harness, "cmd/keymasterd", "TestVerif_C19S",
                       ["kmd/common.go", "kmd/creds.go", "kmd/consts.go", "kmd/c19s.go", os.path.join(ctx.work, "gen", "mux_gen.go")], timeout=1200)
        fc = ex.submit(ctx.go_harness, "cmd/keymaster", "TestVerif_C19", [base_for(ctx, "main"), env_for(ctx, "main"), "client/c19c.go"],
                       env=nocgo, extra_overlay=stub, timeout=1200)
        fa = ex.submit(ctx.go_harness, "lib/client/sshagent", "TestVerif_C19A", [base_for(ctx, "sshagent"), env_for(ctx, "sshagent"), "sshagent/c19a.go"], timeout=900)
        fu = ex.submit(ctx.go_harness, "lib/client/util", "TestVerif_C19U", [base_for(ctx, "util"), "clientutil/c19u.go"], timeout=900)
        try:
            c_ok, c_res, c_log = fc.result()
        finally:
            # never leave the server waiting
            open(os.path.join(ctx.work, "c19_client_done"), "w").write("done")
        s_ok, s_res, s_log = fs.result()
        a_ok, a_res, a_log = fa.result()
        u_ok, u_res, u_log = fu.result()
    if compile_gen(ctx, names=("Tables.v",)):
        ctx.gen_obligations("Obl_C19.v", ["c19_serialises_public_only", "c19_private_to_0600_files", "c19_offered_accepted", "c19_offered_accepted_all", "c19_offered_certified_all_ca"])
    jobs = []
    if c_res is not None:
        jobs.append(("CasesC19.v", "c19_mismatches", "CasesC19.idx", "client runs: recorded requests (kind, key material), files and modes under HOME, agent labels = model (%s runs)", "c19_ncases"))
    if s_res is not None:
        jobs.append(("CasesC19S.v", "c19s_mismatches", "CasesC19S.idx", "server verdict on %s keys of the types the client offers = server_accepts over the regenerated pattern", "c19s_ncases"))
    if a_res is not None:
        jobs.append(("CasesC19A.v", "c19a_mismatches", "CasesC19A.idx", "agent listing after every operation = model (%s operations)", "c19a_ncases"))
    if u_res is not None:
        jobs.append(("CasesC19U.v", "c19u_mismatches", "CasesC19U.idx", "mode of the private key file after every generation (existing file modes x umasks x regenerations) = model write_private (%s generations)", "c19u_ncases"))
    with ThreadPoolExecutor(max_workers=4) as ex:
        outs = list(ex.map(lambda j: ctx.eval_cases(os.path.join(ctx.work, j[0]), "c19_vs_model:" + j[0]), jobs))
    for j, res in zip(jobs, outs):
        if res is not None:
            corr(ctx, res, j[1], j[3] % res.get(j[4], "?"), j[2])
            for extra in EXTRA_CORR.get(j[0], []):
                corr(ctx, res, extra[0], extra[2] % res.get(extra[3], "?"), extra[1])
            for v in VIOLATING.get(j[0], []):
                violating(ctx, res, *v)
    ctx.assumptions = ["the agent keeps identities with unique public blobs (hypothesis NoDup of c19_agent_replace; true of OpenSSH's agent and of the keyring used here)"]
    return ctx.finish("bin/build-coq; coqc Audit_Props_C19/Obl_C19/CasesC19*; go test -overlay TestVerif_C19S (cmd/keymasterd) + TestVerif_C19 (cmd/keymaster, CGO_ENABLED=0) + TestVerif_C19A (lib/client/sshagent)",
                      COMMON_TRUSTED + TRUSTED,
                      ["'no byte of the private key is sent' is a taint theorem over the model's request builders plus a byte search on the recorded traffic of real runs and a syntactic table of the serialisation sites; it is not a proof about Go's encoders",
                       "login paths driven: password-only, password + local TOTP, and the web-browser login (lib/client/webauth) with the CLI token in the token file; VIP push, Okta, the U2F device (stubbed) and the branch of the web login that reads the token from the terminal (needs a tty on fd 0) are not"])
