"""C07, logins that overlap in time (harness/kmd/c07conc.go, Model/PwFlight.v): the second case file of the
   C07 harness, evaluated after the first one (standard(..., post_cases=c07c.post))."""
import os, re

CASEFILE = "CasesC07c.v"
IDXFILE = "CasesC07c.idx"
LABEL = ("overlapping logins (same user x {right, wrong, other wrong} passwords, other users, edits of the backend's table "
         "while logins wait) against a slow scripted backend behind the real login handler: verdict of every login and the "
         "set of (user, password) pairs put to the backend = model run of the same interleaving")
ORACLES = [
    ("c07_flight_accepts_violating", "C07:model-oracle:login-accepted-against-backend-verdict-on-its-own-password",
     "a login was ACCEPTED although the backend's verdict on that login's own (user, password) at the moment of its answer is a "
     "refusal (it overlapped other logins): the conclusion of c07_verdict_per_password fails on this observed interleaving"),
    ("c07_flight_refuses_violating", "C07:model-oracle:login-refused-against-backend-verdict-on-its-own-password",
     "a login was REFUSED although the backend's verdict on that login's own (user, password) at the moment of its answer is an "
     "acceptance (it overlapped other logins): the conclusion of c07_verdict_per_password fails on this observed interleaving"),
    ("c07_flight_not_asked_violating", "C07:model-oracle:accepted-login-never-put-to-the-backend",
     "a login was accepted and its (user, password) was never put to the backend: the second part of c07_verdict_per_password "
     "(the backend is asked exactly the logins' own pairs) fails on this observed interleaving"),
]

def post(ctx, _res):
    path = os.path.join(ctx.work, CASEFILE)
    if not os.path.exists(path):
        ctx.obligations.append(("corr:" + LABEL, False, "case file missing"))
        ctx.broken.append(("correspondence", "c07_flight_mismatches", {"label": LABEL, "first_mismatch": None, "indices": "case file %s was not written" % CASEFILE}))
        return
    res = ctx.eval_cases(path, CASEFILE)
    if res is None:
        return
    lines = []
    ip = os.path.join(ctx.work, IDXFILE)
    if os.path.exists(ip):
        lines = open(ip).read().split("\n")
    n = res.get("c07_flight_ncases", "?")
    mism = res.get("c07_flight_mismatches")
    if mism == "[]":
        ctx.obligations.append(("corr:%s (%s cases in file)" % (LABEL, n), True, "no mismatch"))
    else:
        ctx.obligations.append(("corr:" + LABEL, False, "mismatch indices %s" % (mism or "missing")[:200]))
        m = re.search(r"\[(\d+)", mism or "")
        first = None
        if m and int(m.group(1)) < len(lines):
            first = lines[int(m.group(1))]
        ctx.broken.append(("correspondence", "c07_flight_mismatches", {"label": LABEL, "first_mismatch": first, "indices": (mism or "")[:400]}))
    for name, key, what in ORACLES:
        viol = res.get(name)
        if viol is None or viol == "[]":
            continue
        for m in re.findall(r"\d+", viol.split(":")[0])[:20]:
            i = int(m)
            line = lines[i] if i < len(lines) else "case %d" % i
            ctx.hits.append({"key": key, "oracle": "model-oracle: " + name, "what": what, "case": line})
