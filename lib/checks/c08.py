import os, re
import core
from checks.generic import COMMON_TRUSTED, first_index

THEOREMS = ["c08_self_or_admin", "c08_admin_only", "c08_other_tokens_need_u2f", "c08_admin_by_config",
            "c08_rolecert", "c08_ok_authorized", "c08_profile_untouched", "c08_failure_untouched",
            "c08_only_target_changes", "c08_history", "c08_cache", "c08_cache_window",
            "c08_cache_granted_has_source", "c08_login_subject", "c08_case_variant_is_other_user",
            "c08_roles_admin_justified", "c08_roles_admin_has_source", "c08_roles_never_promoted",
            "c08_authorize_is_gate_extra", "c08_gate_and_authorize", "c08_gate_and_authorize_may_act", "c08_obs_cell_is_spec",
            "c08_rolecert_exact_identity", "c08_rolecert_unconfigured_refused", "c08_rolecert_identity_nonempty",
            "c08_refresh_identity_is_own", "c08_rolecert_any_path", "c08_refresh_form_identity_refuted", "c08_obs_refresh_cell_is_spec"]

TRUSTED = [
    "checkAuth runs in front of the model: the model starts from the authenticated (user, level) of a valid session cookie or a verified keymaster client-certificate chain (Model/Auth.v is the model of checkAuth, lemma authenticate_is_check_auth relates the two; c08_gate_and_authorize composes the C06 gate model with the handler tests, route by route)",
    "profile storage (SQLite, gob) is a map from user to profile; the harness reads the raw rows of every user before and after each request",
    "cryptographic verification of a submitted U2F registration / TOTP code is an input of the model; the harness produces genuine ones with a software U2F / WebAuthn ('none' attestation) token and the TOTP secret",
    "the group directory is gitdb on local directories (the production user-info backend, configured through the YAML keys) and an unparsable LDAP URL for 'directory does not answer'; a real LDAP server is not exercised",
    "go/ast extractor table of profile-store call sites (tools/extract/c08.go): syntactic classification of the user-name argument",
    "the clock of the production admincache.Cache is replaced through an accessor overlaid into keymasterd/admincache at check time (harness/admincache/export.go); Get and Put see the same reading within one IsAdminUser call in the traces (distinct readings are exercised op by op in the package-level harness)",
]

def corr(ctx, res, name, label, idxfile=None):
    mism = res.get(name)
    if mism == "[]":
        ctx.obligations.append(("corr:" + label, True, "no mismatch"))
        return
    ctx.obligations.append(("corr:" + label, False, "mismatch indices %s" % (mism or "missing")[:200]))
    first = None
    i = first_index(mism)
    if i is not None and idxfile and os.path.exists(os.path.join(ctx.work, idxfile)):
        lines = open(os.path.join(ctx.work, idxfile)).read().split("\n")
        if i < len(lines):
            first = lines[i]
    ctx.broken.append(("correspondence", name, {"label": label, "first_mismatch": first, "indices": (mism or "")[:400]}))

def model_oracle(ctx, res, name, idxfile):
    """round 2: mismatching cells whose OBSERVATION violates the property's own predicate (cell_violating,
    Proofs/AuthzObs.v) become oracle hits, so that the VIOLATION line carries the failing input"""
    viol = res.get(name)
    if viol is None or viol == "[]":
        return
    lines = []
    if os.path.exists(os.path.join(ctx.work, idxfile)):
        lines = open(os.path.join(ctx.work, idxfile)).read().split("\n")
    for m in re.findall(r"\d+", viol.split(":")[0])[:20]:
        i = int(m)
        line = lines[i] if i < len(lines) else "case %d" % i
        op = re.search(r"\bop=(\w+)", line)
        what = "rows-changed" if not re.search(r"changed=\[\]", line) else "success"
        ctx.hits.append({"key": "C08:model-oracle:%s:%s" % (op.group(1) if op else "?", what),
                         "oracle": "model-oracle: " + name,
                         "what": "on this management request the observed response / stored rows violate the property's predicate "
                                 "(a changed row that neither its owner nor an administrator who may act accounts for, or a success "
                                 "for somebody who may not act on the effective target): cell_violating, proved equivalent to the "
                                 "conclusions of c08_history / c08_self_or_admin / c08_ok_authorized / c08_rolecert on one request",
                         "case": line})

def run(ctx):
    ctx.audit("Props.C08", THEOREMS)
    ctx.extract()
    export = {os.path.join(core.REPO, "keymasterd/admincache/zz_verif_export.go"):
              os.path.join(core.VERIF, "harness", "admincache", "export.go")}
    ok, result, log = ctx.go_harness("cmd/keymasterd", "TestVerif_C08",
                                     ["kmd/common.go", "kmd/creds.go", "kmd/consts.go", "kmd/c08.go", "kmd/c08_refresh.go",
                                      os.path.join(ctx.work, "gen", "mux_gen.go")], extra_overlay=export, timeout=1500)
    ok2, result2, log2 = ctx.go_harness("keymasterd/admincache", "TestVerif_C08Cache", ["admincache/c08_cache.go"],
                                        extra_overlay=export, timeout=600)
    if result is not None:
        good = True
        for f in ("Consts.v", "ConstsC08.v", "Tables.v"):
            rc, out = ctx.coqc(os.path.join(ctx.work, "gen", f))
            if rc != 0:
                ctx.broken.append(("obligation", "gen:" + f, out[-1500:]))
                good = False
        if good:
            ctx.gen_obligations("Obl_C08.v", ["c08_bits", "c08_u2f_bit_distinct", "c08_five_minutes", "c08_reevaluated_every_5min", "c08_store_sites"])
        res = ctx.eval_cases(os.path.join(ctx.work, "CasesC08.v"), "c08_cells_vs_model")
        if res is not None:
            corr(ctx, res, "c08_mismatches", "response class and stored rows of %s management requests = Model.Authz.step" % res.get("c08_ncases", "?"), "CasesC08.idx")
            model_oracle(ctx, res, "c08_violating", "CasesC08.idx")
            corr(ctx, res, "c08_refresh_mismatches", "response class, CN of the returned certificate and stored rows of %s requests to /v1/refreshRoleRequestingCert (form identity absent / own / other configured / admin / unknown, body and query, IP-restricted certificate inside / outside its netblock, user certificate, session, none) = Model.Authz.refresh_step" % res.get("c08_refresh_ncases", "?"), "CasesC08Refresh.idx")
            model_oracle(ctx, res, "c08_refresh_violating", "CasesC08Refresh.idx")
            corr(ctx, res, "c08_trace_mismatches", "answers of IsAdminUser / isAutomationAdmin (direct calls, /users/, /admin/addUser, role-certificate requests) on %s role-lookup histories (clock, directory answers/failures, production cache) = Model.AdminCache.ranswers" % res.get("c08_ntraces", "?"), "CasesC08Trace.idx")
    if result2 is not None:
        res2 = ctx.eval_cases(os.path.join(ctx.work, "CasesC08Cache.v"), "c08_cache_vs_model")
        if res2 is not None:
            corr(ctx, res2, "c08_cache_mismatches", "admincache Get/Put on %s op traces under an injected clock = Model.AdminCache.crun" % res2.get("c08_cache_ntraces", "?"), "CasesC08Cache.idx")
    ctx.assumptions = ["the requests of the matrix carry no Origin/Referer header (CSRF handling belongs to C06)",
                       "one IsAdminUser call per request decides the verdict (profileHandler asks a second time only to decide whether to show a link)"]
    unproved = ["refresh endpoint: whether the peer address lies inside the presented certificate's netblocks is C11's subject (a certificate presented from outside is 'no credential' in this model); revocation of the presented certificate is not modelled"]
    return ctx.finish("bin/build-coq; coqc Audit_Props_C08/Obl_C08/CasesC08/CasesC08Cache (lib/checks/c08.py); go test -overlay TestVerif_C08 (cmd/keymasterd), TestVerif_C08Cache (keymasterd/admincache)",
                      COMMON_TRUSTED + TRUSTED, unproved)
