import os
import core
from checks.generic import standard, compile_gen, first_index, COMMON_TRUSTED

PROPS = ["c20_published", "c20_published_sites", "c20_site_verdict_needed", "c20_issue_delivered",
         "c20_nonblocking", "c20_order", "c20_order_complete", "c20_lagging_reader_complete",
         "c20_roundtrip", "c20_expire", "c20_expire_only_old", "c20_history", "c20_loop_request", "c20_loop_saved",
         "c20_old_aws_refuted", "c20_old_roundtrip_refuted", "c20_old_expire_refuted",
         "c20_stalled_subscriber", "c20_waiting_fanout_refuted", "c20_save_atomic", "c20_saves_last_renamed",
         "c20_backup_rename_refuted", "c20_startup_name_only", "c20_startup_leftover",
         "c20_issue_delivered_churn", "c20_count_keyed_table_refuted",
         "c20_read_pure", "c20_history_reader_independent", "c20_mutating_reader_refuted",
         "c20_expire_keeps_future", "c20_retention_keeps_young", "c20_code_u64_is_model", "c20_code_u64_keeps_future",
         "c20_clock_before_retention_wraps", "c20_age_subtraction_same_in_past", "c20_age_subtraction_refuted"]

TRUSTED = [
    "encoding/gob and bufio between saveEvents and loadEvents (run for real on every save/reload; the model has 'a complete document of generation g' or 'something the decoder rejects'); Dominator fsutil.CreateRenamingWriter/Close is modelled as its list of file operations (open f~, write, fsync, close, rename, remove) and run for real with injected faults; the file system itself is names -> contents with atomic rename (no directory fsync, no delayed allocation)",
    "Go channel semantics: a buffered channel of capacity k accepts a non-blocking send iff it holds fewer than k elements (the model's try_send); the Go scheduler / memory model",
    "harness/eventnotifier/verif_export.go: registers a subscriber channel as handleConnection does, through reflection on the transmitChannels map (one history also uses the real CONNECT stream); TestVerif_C20S uses only the exported ServeHTTP with a hijackable writer over net.Pipe and the exported Publish* methods",
    "the 4 s watchdog around every publishing operation in TestVerif_C20S stands for 'does not return' (8 s in TestVerif_C20)",
    "the recorder harness sets CreateTime of the event just recorded (recordEvent stamps time.Now() itself); expiry and load read the real clock; 'the clock is stepped back by d' is every stored CreateTime moved forward by d (the code's tests involve the clock and CreateTime only through their difference, as long as neither is near 0 or 2^64)",
    "tools/extract c20.go: signing-site table (handler reachability by name, lexical order of publish and response) and notifier send table",
    "fake STS endpoint in front of the cloud-role path",
    "subscriber churn (harness/kmd/c20k.go): the instant a new connection is registered is taken to be just before the first event it is handed (settle publications are made until it is handed one); a disconnect is complete when ServeHTTP has returned; a connection that has not been handed an event after 2 s (25 ms once four such waits have run out) is not waited for again before the end of its history",
    "readers of the history (harness/httpd/c20h.go): routes, parameter names and candidate values come from a syntactic harvest of the eventmon/httpd sources (go/parser at run time: Handle/HandleFunc arguments; FormValue / PostFormValue / Query().Get / Form / PostForm / Header accessors; token-like string literals); the handlers are reached through http.DefaultServeMux after one StartServer(0, ...) whose *EventRecorder is a harness-made value pointed at the recorder under test before every request; a reader is modelled by its effect on the read-out it is handed (any function) — that the tree's readers are the httpd handlers (the only senders on RequestEventsChannel) is by grep, not proved",
]

def corr(ctx, res, name, label, idxfile):
    mism = res.get(name)
    if mism == "[]":
        ctx.obligations.append(("corr:" + label, True, "no mismatch"))
        return
    ctx.obligations.append(("corr:" + label, False, "mismatch indices %s" % (mism or "missing")[:200]))
    first = None
    i = first_index(mism)
    p = os.path.join(ctx.work, idxfile)
    if i is not None and os.path.exists(p):
        lines = open(p).read().split("\n")
        if i < len(lines):
            first = lines[i][:3000]
    ctx.broken.append(("correspondence", name, {"label": label, "first_mismatch": first, "indices": (mism or "")[:400]}))

def violating(ctx, res, name, klass, idxfile, oracle):
    """round-2 addendum: mismatching cases whose OBSERVATION violates the property's own predicate (evaluated in
    Coq) become oracle hits with the case as the failing input"""
    import re
    val = res.get(name)
    if not val or val == "[]":
        return
    lines = []
    p = os.path.join(ctx.work, idxfile)
    if os.path.exists(p):
        lines = open(p).read().split("\n")
    for i in [int(x) for x in re.findall(r"(\d+)", val)][:20]:
        case = lines[i] if i < len(lines) else "case #%d" % i
        ctx.hits.append({"key": "C20:model-oracle:%s" % klass, "oracle": oracle, "what": case[:600],
                         "case": {"index": i, "line": case[:3000]}, "kind": "history"})

def run(ctx):
    ctx.audit("Props.C20", PROPS)
    ctx.extract()
    export = os.path.join(core.VERIF, "harness", "eventnotifier", "verif_export.go")
    base = os.path.join(ctx.work, "base_eventrecorder.go")
    open(base, "w").write(open(os.path.join(core.VERIF, "harness", "base", "base.go")).read().replace("package verifbase", "package eventrecorder", 1))
    base_h = os.path.join(ctx.work, "base_httpd.go")
    open(base_h, "w").write(open(os.path.join(core.VERIF, "harness", "base", "base.go")).read().replace("package verifbase", "package httpd", 1))
    from concurrent.futures import ThreadPoolExecutor
    with ThreadPoolExecutor(max_workers=4) as ex:
        # readers of the history: the handlers of eventmon/httpd in front of a real recorder
        f4 = ex.submit(ctx.go_harness, "eventmon/httpd", "TestVerif_C20H", [base_h, "httpd/c20h.go"])
        # subscribers on the production connection path only (no file added to the notifier package)
        f3 = ex.submit(ctx.go_harness, "cmd/keymasterd", "TestVerif_C20S",
                       ["kmd/common.go", "kmd/creds.go", "kmd/c20s.go", "kmd/c20k.go", os.path.join(ctx.work, "gen", "mux_gen.go")])
        f1 = ex.submit(ctx.go_harness, "cmd/keymasterd", "TestVerif_C20",
                       ["kmd/common.go", "kmd/creds.go", "kmd/consts.go", "kmd/c20.go", os.path.join(ctx.work, "gen", "mux_gen.go")],
                       extra_overlay={os.path.join(core.REPO, "keymasterd", "eventnotifier", "zz_verif_export.go"): export})
        f2 = ex.submit(ctx.go_harness, "eventmon/eventrecorder", "TestVerif_C20R", [base, "eventrecorder/c20r.go", "eventrecorder/c20f.go"])
        ok, result, log = f1.result()
        rec_ok, rec_result, rec_log = f2.result()
        s_ok, s_result, s_log = f3.result()
        h_ok, h_result, h_log = f4.result()
    if compile_gen(ctx, names=("Tables.v",)):
        ctx.gen_obligations("Obl_C20.v", ["c20_sites_cover", "c20_sends_nonblocking", "c20_sites_publish", "c20_sites_reported"])
    jobs = []
    if result is not None:
        jobs.append(("CasesC20.v", "c20_hist_mismatches", "CasesC20.idx",
                     "notifier: channel occupancy after every step and the streams read by every subscriber = model (%s steps)", "c20_ncases"))
    if rec_result is not None:
        shards = int((rec_result.get("extra") or {}).get("shards", 1))
        for n in ["CasesC20R.v"] + ["CasesC20R_%d.v" % i for i in range(1, shards)]:
            jobs.append((n, "c20r_mismatches", "CasesC20R.idx",
                         "recorder (" + n + "): expiry flags and per-user lists after every save/reload and at the end = model (%s operations)", "c20r_ncases"))
    if s_result is not None:
        jobs.append(("CasesC20S.v", "c20s_mismatches", "CasesC20S.idx",
                     "subscribers on the production connection path with every lag 0..15 and two that stop reading: no operation blocks, queue of a reader never full, stream handed to each reader = the published sequence, to a stalled one = what the model's queue accepted (%s publishes and reads)", "c20s_ncases"))
    if s_result is not None and os.path.exists(os.path.join(ctx.work, "CasesC20K.v")):
        jobs.append(("CasesC20K.v", "c20k_mismatches", "CasesC20K.idx",
                     "subscriber churn on the production connection path (every order of connects and disconnects up to six operations, longer random ones, something published after each): the stream handed to every connection = the model's table keyed by the connection's own channel (%s connects, disconnects, publishes and reads)", "c20k_ncases"))
    if rec_result is not None:
        jobs.append(("CasesC20L.v", "c20l_mismatches", "CasesC20L.idx",
                     "recorder event loop: every history answer and every saved file = model (%s scenarios)", "c20l_ncases"))
    if h_result is not None and os.path.exists(os.path.join(ctx.work, "CasesC20H.v")):
        jobs.append(("CasesC20H.v", "c20h_mismatches", "CasesC20H.idx",
                     "readers of the history (every route of eventmon/httpd x the parameters it reads x candidate values, harvested from the package source) between the last event and the save, then a restart: every read-out after a reader ran, the saved file and the restarted recorder = the model's loop with readers that only look (%s reader requests)", "c20h_ncases"))
    if rec_result is not None and os.path.exists(os.path.join(ctx.work, "CasesC20T.v")):
        jobs.append(("CasesC20T.v", "c20t_mismatches", "CasesC20T.idx",
                     "recorder start through New() on a saved history file whose entries are stamped ahead of the clock (seconds .. more than the retention), mixed with recent and expired ones: the history answered = the model's start-up on that file (%s starts)", "c20t_ncases"))
    if rec_result is not None and os.path.exists(os.path.join(ctx.work, "CasesC20F.v")):
        jobs.append(("CasesC20F.v", "c20f_mismatches", "CasesC20F.idx",
                     "recorder save with a crash point or a failing file operation, then a restart through New(): what it comes back with = what the model's save with the same crash / fault index leaves under the history name (%s saves)", "c20f_ncases"))
    with ThreadPoolExecutor(max_workers=4) as ex:
        outs = list(ex.map(lambda j: ctx.eval_cases(os.path.join(ctx.work, j[0]), "c20_vs_model:" + j[0]), jobs))
    for j, res in zip(jobs, outs):
        if res is not None:
            corr(ctx, res, j[1], j[3] % res.get(j[4], "?"), j[2])
            if j[1] == "c20r_mismatches":
                violating(ctx, res, "c20r_violating", "reload", j[2],
                          "property predicate evaluated in Coq on the observed dumps: a save and restart comes back with the entries of the state observed before it that are within the retention, in the same order")
                violating(ctx, res, "c20r_future_lost", "event-from-future", j[2],
                          "property predicate evaluated in Coq on the observed dumps: an entry stamped later than the clock of a save-and-restart or of an hourly expiry (so not older than the retention) is still there in the dump taken right after it")
            if j[1] == "c20t_mismatches":
                violating(ctx, res, "c20t_violating", "event-from-future", j[2],
                          "property predicate evaluated in Coq on the observed start: every entry of the history file stamped later than the clock of the starting process is in the history it answers")
            if j[1] == "c20f_mismatches":
                violating(ctx, res, "c20f_violating", "history-lost", j[2],
                          "property predicate evaluated in Coq on the observed restart: with a previous generation on disk the recorder comes back with it or with the new one")
                corr(ctx, res, "c20u_mismatches", "recorder start-up next to leftover files and on a damaged file: what New() comes back with = the model's start-up, which looks at the history file's own name only (%s directories)" % res.get("c20u_ncases", "?"), "CasesC20U.idx")
                violating(ctx, res, "c20u_violating", "startup-leftover", "CasesC20U.idx",
                          "property predicate evaluated in Coq on the observed start-up: a start on a good history file comes back with that history whatever lies next to it")
            if j[1] == "c20h_mismatches":
                violating(ctx, res, "c20h_violating", "history-changed-by-reader", j[2],
                          "property predicate evaluated in Coq on the observations: every read-out handed out after a reader ran, the saved file and what the restarted recorder comes back with are the events recorded, in order")
            if j[1] == "c20k_mismatches":
                violating(ctx, res, "c20k_violating", "churn", j[2],
                          "property predicate evaluated in Coq on the observed streams: every connection was handed exactly the events published while it was connected (between its connect and its disconnect), in order")
            if j[1] == "c20s_mismatches":
                violating(ctx, res, "c20s_violating", "stream", j[2],
                          "property predicate evaluated in Coq on the observed streams: every operation returned, every healthy subscriber was handed exactly the published sequence, a stalled one a subsequence of it")
    ctx.assumptions = ["clock readings of one recorder never go backwards (hypothesis `monotone` of c20_history); the wall clock is later than 1970-02-01 (no uint64 wrap of now-31d: hypothesis of c20_code_u64_is_model, the wrap itself is c20_clock_before_retention_wraps); the theorems about entries stamped ahead of the clock (c20_expire_keeps_future, c20_retention_keeps_young) and the recorder correspondence do NOT assume a monotone clock",
                       "subscriber identity: a detached channel stays in the model's list with live=false instead of being deleted from the map"]
    return ctx.finish("bin/build-coq; coqc Audit_Props_C20/Obl_C20/CasesC20/CasesC20R; go test -overlay TestVerif_C20 TestVerif_C20S (cmd/keymasterd) TestVerif_C20R (eventmon/eventrecorder) TestVerif_C20H (eventmon/httpd); coqc CasesC20S/K/L/F/H",
                      COMMON_TRUSTED + TRUSTED)
