import os, re
from checks.generic import standard

THEOREMS = ["c06_gate_sound", "c06_identity_real", "c06_never_denied", "c06_deny_no_position", "c06_never_outside", "c06_never_outside_blocks", "c06_never_outside_numeric",
            "c06_obs_gate_is_spec", "c06_obs_route_is_spec", "c06_obs_identity_is_spec",
            "c06_cookie_window", "c06_cookie_outside_window_refused", "c06_grace_refuted",
            "c06_basic_only_without_cookie", "c06_webui_without_password", "c06_csrf",
            "c06_routes", "c06_public_no_effect", "c06_csrf_partial", "c06_csrf_nonget",
            "c06_login_mints_password_only", "c06_login_ignores_attached", "c06_login_session_needs_second_factor", "c06_login_row_is_issuer", "c06_login_carry_refuted", "c06_obs_login_is_spec",
            "c06_get_state_changers", "c06_get_effects_refuted", "c06_old_manage_refuted", "c06_old_register_finish_refuted", "c06_old_auth_finish_refuted", "c06_old_tls_refuted",
            "c06_verdict_history_independent", "c06_history_pointwise", "c06_gate_sound_after_history", "c06_verdict_memo_refuted"]
THEOREMS += ["c06_ip_extension_never_plain", "c06_ip_extension_cert_alone", "c06_extension_only_under_role_ca", "c06_obs_role_is_spec", "c06_role_issuer_by_key_type_refuted"]   # fifth wave, C06-I

def _field(line, name, default="?"):
    m = re.search(r"\b%s=(\S+)" % name, line or "")
    return m.group(1) if m else default

# keys of the model oracle: the defect shape (handler, credential class), never incidental values
def _gate_key(line):
    return "C06:model-oracle:gate-admits:%s" % _field(line, "class")

def _login_key(line):
    return "C06:model-oracle:login-minted-level:%s" % _field(line, "class")

def _hist_key(line):
    m = re.search(r"\t(\S+?):(look-alike-first|genuine-first|long-lived-daemon) ", line or "")
    return "C06:model-oracle:history:%s" % (m.group(1) if m else "?")
def _role_key(line):
    return "C06:model-oracle:role-cert:%s" % _field(line, "class")

def _route_key(line):
    return "C06:model-oracle:route:%s:%s" % (_field(line, "handler"), _field(line, "class"))

GATE_WHAT = ("checkAuth admitted an identity / level on this case although the conclusion of c06_gate_sound "
             "(the request proves that identity at that level, the level has a bit of the mask, no foreign origin on a non-GET) "
             "evaluates to false on the observation (gate_conclusion, proved equivalent to the statement)")
ROUTE_WHAT = ("a protected effect was observed, or an identity was logged, on this case although the request is not accepted by the "
              "route's declared gate (acceptsb / identity_okb evaluated on the observation, proved equivalent to the conclusion of c06_routes)")

ROLE_WHAT = ("a certificate that was found to carry the address delegation extension (minted by a role endpoint of this very daemon, presented with the chains crypto/x509 verifies "
             "against the service port's client-CA pool) was let in at another level than the IP-certificate level, from a peer outside its netblock, or by a route whose mask takes no IP "
             "certificates: the conclusion of c06_ip_extension_cert_alone (role_conclusion, proved equivalent) evaluates to false on the observation")

LOGIN_WHAT = ("the login route set a session cookie on this case although the conclusion of c06_login_mints_password_only (level = the password level exactly, "
              "subject = the normalised user of the login credential, that credential a verified password - whatever auth_cookie / client certificate is attached) "
              "evaluates to false on the observed subject and level (login_conclusion, proved equivalent to the statement)")

def run(ctx):
    return standard(ctx,
        props=[("Props.C06", THEOREMS)],
        harness=("TestVerif_C06", ["kmd/common.go", "kmd/creds.go", "kmd/consts.go", "kmd/vdevice.go", "kmd/c06.go", "kmd/c06_hist.go", "kmd/c06_role.go"]),
        obl=("Obl_C06.v", ["c06_routes_classified", "c06_no_stale_rows", "c06_keys_unique", "c06_x509_issuing_sites"]),
        cases=("CasesC06.v", [("c06_gate_mismatches", "checkAuth (user, level, status, issue instant) = model check_auth on every shape (single credentials and certificate x cookie x basic-auth combinations) x mask x method x origin x deny list", "CasesC06_gate.idx"),
                              ("c06_route_mismatches", "per route of the regenerated mux: logged identity = model, observed effects within the model's"),
                              ("c06_window_gate_mismatches", "checkAuth on session cookies minted around the request (exp / nbf a few seconds to an hour before and after the clock, iat in the future, with and without a basic-auth header) = model check_auth at a clock reading inside the interval measured around the call (nanoseconds; no other tolerance)", "CasesC06_wgate.idx"),
                              ("c06_window_route_mismatches", "the same cookies through representative routes (certgen, profile, TOTP generation, token manager, OpenID authorization, U2F sign request): logged identity and effects = model run at a clock reading inside the measured interval", "CasesC06_wroute.idx"),
                              ("c06_login_mismatches", "the login route as issuer of sessions: login credential (form / Authorization header / both, right and wrong password, unnormalised name) x attached auth_cookie state (none; the same and another user's session of every level; expired, foreign, junk; two cookies) x client certificate x method x Accept: refusal status resp. subject and auth_type of the Set-Cookie decoded under the server's key = model login_handler", "CasesC06_login.idx"),
                              ("c06_history_mismatches", "ordered pairs of requests on one daemon (a genuine credential and a look-alike of it: the same subject and serial number from each other CA, the same key id, the same serial under another subject, the leaf with a one-element chain; the session cookie with one claim altered and re-signed by a foreign key or under the old signature; the IP-restricted certificate from outside on full and resumed sessions; right then wrong password; both orders): every direct checkAuth call with the history of the daemon so far = model verdict_after history request (which has no memory)", "CasesC06_hist.idx"),
                              ("c06_role_mismatches", "role certificates asked from /v1/getRoleRequestingCert and /v1/refreshRoleRequestingCert for every key type on daemons with and without an Ed25519 CA: issuer, address extension and the chains crypto/x509 verifies against the client-CA pool = the issuer model (issue, verified_chains); checkAuth and the routes on these certificates presented from inside / outside their block = check_auth / run on the connection state of the MODEL's issuer", "CasesC06_role.idx"),
                              ("c06_webui_mismatches", "getRequiredWebUIAuthLevel() = model webui_level on every subset of the backend names and on the loaded configurations", "CasesC06_webui.idx")],
               "CasesC06_route.idx"),
        trusted=["signature verification (go-jose, crypto/x509 chain building) is symbolic in the model: the harness knows by construction which token / chain is genuine and the real verifier has to find out from the bytes",
                 "the access log's user field (LoggingWriter.SetUsername, called by every handler right after checkAuth) is the observable for 'admitted as'",
                 "effects are what the response, the two tables, the challenge/push maps and the fake VIP / Okta / STS services can show",
                 "fake Symantec VIP, Okta and AWS STS endpoints; SQLite stands in for PostgreSQL"],
        assumptions=["TLS chain verification is done by crypto/tls; the harness supplies VerifiedChains built from certificates really signed by the state's CA keys",
                     "the password attempt limiter is configured wide open (limiter_ok = true in every case)",
                     "net.SplitHostPort / net.ParseIP (the TCP peer) and asn1.Unmarshal (the address delegation extension) run in front of the model's netblock arithmetic: the peer travels as IPv4 octets (IPv4-mapped included) / other IPv6 / unparsable, the extension as families of (bytes, bit length)"],
        unproved=["handler steps after admission (parameter validation, storage) are one environment bit per request in the route model; the effects of /userinfo and the federated callback are not provoked by the harness (no provider fake), only their refusal is observed; /u2f/RegisterResponse, /webauthn/RegisterFinish, /u2f/SignResponse, /webauthn/AuthFinish, /totp/ValidateNew and /idp/oauth2/token are driven to their effect with genuine material (software token, pending TOTP secret, an authorization code issued by the authorization endpoint), the Okta OTP / push / poll handlers through a fake authn API (the owner of one account has approved her push)"],
        model_oracles=[("c06_gate_violating", _gate_key, GATE_WHAT, "CasesC06_gate.idx"),
                       ("c06_route_violating", _route_key, ROUTE_WHAT, "CasesC06_route.idx"),
                       ("c06_window_gate_violating", _gate_key, GATE_WHAT, "CasesC06_wgate.idx"),
                       ("c06_window_route_violating", _route_key, ROUTE_WHAT, "CasesC06_wroute.idx"),
                       ("c06_login_violating", _login_key, LOGIN_WHAT, "CasesC06_login.idx"),
                       ("c06_history_violating", _hist_key, GATE_WHAT + " - on a daemon with the history named in the case", "CasesC06_hist.idx"),
                       ("c06_role_violating", _role_key, ROLE_WHAT, "CasesC06_role.idx")],
        timeout=1500,
        # the probes restore the profile tables thousands of times: keep the scratch database off the disk
        env=({"TMPDIR": "/dev/shm"} if os.path.isdir("/dev/shm") and os.access("/dev/shm", os.W_OK) else None))
