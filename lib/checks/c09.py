import os, re
import core
import racelog
from checks.generic import COMMON_TRUSTED, compile_gen, first_index

TRUSTED = [
    "symbolic signatures: an artefact is signed only by a signing primitive, and each primitive dereferences state.Signer (the Ed25519 signer is used only behind certGenHandler's test of state.Signer)",
    "atomicity of the actions of the interleaving model = the mutex discipline of unseal.go/app.go; supported by the race detector run, not proved about Go",
    "PGP symmetric decryption (x/crypto/openpgp) and PEM/PKCS parsing in front of the model: the configuration record says which passphrase decrypts and whether the plaintext parses",
    "artefact detection in responses by pattern (PEM CERTIFICATE blocks, *-cert-v01@openssh.com lines, compact JWS with a JSON header carrying alg) over body and all headers",
    "tools/extract: route table of main(); the admin mux (/readyz, /admin/inject) is driven through the handler functions directly, and once behind real TLS / plain HTTP listeners configured like main()'s admin server",
    "the auto-unseal path is driven through loadVerifyConfigFile -> autoUnsealAwsLoop -> aws-sdk-go against a fake cloud inside the test process (instance-metadata service via AWS_EC2_METADATA_SERVICE_ENDPOINT; a TLS listener speaking secretsmanager.GetSecretValue under a throw-away CA, reached through the dialer and root pool of the test binary's http.DefaultTransport); only the loop's first attempt is observed",
    "regenerated table pubkey_writes (tools/extract/c09_pubkeys.go): shape of every assignment to KeymasterPublicKeys, syntactic (append(list, e.Public()) under the lexically held mutex)",
    "the handshake model Model.Seal.handshake (which tls.Config.ClientAuth policy turns which presented certificate into which PeerCertificates / VerifiedChains, or refuses the handshake) is a model of crypto/tls, tied by the listener cases (8 quick, 75 thorough) only; certificates are names, a certificate verifies iff its issuer is in the pool and it has not expired; the handler-level connection records are built by the harness from real x509.Certificate values, the handler itself never verifies anything",
    "stage (e): time knobs are found by reflection over AppConfigFile (time.Duration fields, integer fields named after seconds / intervals); a periodic activity configured in any other way is not reached",
]

def corr(ctx, res, name, label, idxfile, prefix):
    mism = res.get(name)
    if mism == "[]":
        ctx.obligations.append(("corr:" + label, True, "no mismatch"))
        return
    ctx.obligations.append(("corr:" + label, False, "mismatch indices %s" % (mism or "missing")[:200]))
    first = None
    i = first_index(mism)
    if i is not None and os.path.exists(idxfile):
        for line in open(idxfile):
            if line.startswith("%s %d\t" % (prefix, i)):
                first = line.strip()
    ctx.broken.append(("correspondence", name, {"label": label, "first_mismatch": first, "indices": (mism or "")[:400]}))

def model_oracle(ctx, res, name, idxfile, prefix, cls, oracle, what):
    """round 2: the indices of `name` are cases whose OBSERVATION violates the property's predicate as evaluated
    inside Coq; the first one becomes an oracle hit that carries its input (the .idx line)"""
    viol = res.get(name) or "[]"
    for i in [int(x) for x in re.findall(r"\d+", viol)][:1]:
        line = None
        if os.path.exists(idxfile):
            for ln in open(idxfile):
                if ln.startswith("%s %d\t" % (prefix, i)):
                    line = ln.strip()
        ctx.hits.append({"key": "C09:model-oracle:" + cls, "oracle": oracle, "what": what,
                         "case": {"case": line}, "observed": {"violating_cases": viol[:400]}})

def run(ctx):
    ctx.audit("Props.C09", ["c09_sealed_inert", "c09_only_right_pass", "c09_presented_irrelevant", "c09_presented_only_refused", "c09_presented_suffices_refuted",
                            "c09_any_listener", "c09_unverifying_listener_never_unseals", "c09_observation_predicate_sound",
                            "c09_wrong_pass_unchanged", "c09_no_chain_unchanged",
                            "c09_refused_unchanged", "c09_refused_still_sealed", "c09_accepted_iff", "c09_auto_unseal_refused_unchanged", "c09_auto_unseal_only_right_pass", "c09_old_refused_changes_state_refuted",
                            "c09_once_sequential", "c09_once", "c09_no_half_init", "c09_unseal_is_its_body", "c09_published",
                            "c09_published_stable", "c09_writers_keep", "c09_stale_replace_refuted",
                            "c09_readyz_iff_unsealed", "c09_readyz_request_independent", "c09_readyz_reachable", "c09_probe_predicate_sound", "c09_readyz_chatty_refuted",
                            "c09_published_across_restarts", "c09_kept_ca_refuted", "c09_pubkeys_listed_or_loaded", "c09_life_predicate_sound"])
    gen = ctx.extract()
    files = ["kmd/common.go", "kmd/creds.go", "kmd/c09.go", "kmd/c09conn.go", "kmd/c09pub.go", "kmd/c09aws.go", "kmd/c09ready.go", "kmd/c09life.go", os.path.join(ctx.work, "gen", "mux_gen.go")]
    ok, result, log = ctx.go_harness("cmd/keymasterd", "TestVerif_C09", files, timeout=1500)
    ok2, result2, log2 = ctx.go_harness("cmd/keymasterd", "TestVerif_C09Race", files, race=True, timeout=1800)
    nrace = racelog.absorb(ctx, log2, "C09")
    ctx.obligations.append(("race-detector: %s rounds of 8 injections racing 32 requests" % ((result2 or {}).get("extra", {}).get("rounds", "?")),
                            result2 is not None and nrace == 0, "%d race reports" % nrace))
    if compile_gen(ctx, ("Routes.v", "Tables.v")):
        # every write of the published-key list after start-up is an append of a signer's key under the mutex
        # (the hypothesis of c09_published_stable on the writers), over the regenerated table pubkey_writes
        ctx.gen_obligations("Obl_C09.v", ["c09_pubkeys_only_appended", "c09_pubkeys_table_covers"])
        # the sweep of the harness covers the regenerated route table
        routes_v = open(os.path.join(ctx.work, "gen", "Routes.v")).read()
        nroutes = len(re.findall(r"^\s+\(\"", routes_v, re.M))
        probed = (result or {}).get("extra", {}).get("routes_probed")
        ctx.obligations.append(("gen:c09_all_routes_probed", probed == nroutes and nroutes > 0,
                                "%s routes in main(), %s probed while sealed" % (nroutes, probed)))
        if result is not None and probed != nroutes:
            ctx.broken.append(("correspondence", "c09_all_routes_probed", "route table has %s rows, harness probed %s" % (nroutes, probed)))
    if result is not None:
        res = ctx.eval_cases(os.path.join(ctx.work, "CasesC09.v"), "CasesC09.v")
        if res is not None:
            idx = os.path.join(ctx.work, "CasesC09.idx")
            n = res.get("c09_ncases", "?")
            corr(ctx, res, "c09_seq_mismatches", "injection sequences: status, readyz, signer/Ed25519/CA/public-key/ready-message counts after every step = Model.Seal.inject_run (%s cases in file)" % n, idx, "seq")
            model_oracle(ctx, res, "c09_seq_violating_chain", idx, "seq", "unsealed-without-verified-chain",
                         "c09_only_right_pass evaluated (inside Coq, Model.Seal.seq_violation; sound on the model by c09_observation_predicate_sound) on the observed injection sequence",
                         "after an injection whose connection record (http.Request.TLS) has no verified chain with a leaf - nil, empty, or certificates that were only PRESENTED - the real server is unsealed")
            model_oracle(ctx, res, "c09_seq_violating_pass", idx, "seq", "unsealed-with-wrong-passphrase",
                         "c09_only_right_pass evaluated (inside Coq, Model.Seal.seq_violation) on the observed injection sequence",
                         "after an injection whose field is not exactly the passphrase of the key file the real server is unsealed")
            corr(ctx, res, "c09_over_mismatches", "the injection handler behind crypto/tls listeners of each ClientAuth policy x presented certificate (none / self-signed / foreign CA / expired / admin) x passphrase: reached the handler, status, signer afterwards = Model.Seal.inject_over (handshake model + inject)", idx, "over")
            model_oracle(ctx, res, "c09_over_violating", idx, "over", "unverified-cert-over-listener",
                         "c09_any_listener evaluated (inside Coq, Model.Seal.over_case_violates) on the observed outcome of a request over a real crypto/tls listener",
                         "the server is unsealed after a request over a listener that does not verify client certificates, or with a certificate that does not verify against the client CA pool, or with a wrong passphrase")
            corr(ctx, res, "c09_pub_mismatches", "published keys polled over time after the injection, every time knob of the configuration tiny, many foreign keys listed = the state the injection left (Model.Seal.poll_ok)", idx, "pub")
            # round 2: a round in which a poll saw a signing key unpublished is a failing input
            viol = res.get("c09_pub_violating") or "[]"
            for i in [int(x) for x in re.findall(r"\d+", viol)][:1]:
                line = None
                if os.path.exists(idx):
                    for ln in open(idx):
                        if ln.startswith("pub %d\t" % i):
                            line = ln.strip()
                ctx.hits.append({"key": "C09:model-oracle:signing-key-unpublished-after-unseal",
                                 "oracle": "c09_published_stable evaluated (inside Coq) on the observed polls: after the injection answered 200, a poll at which a key that signs is not published or the own cookie is rejected",
                                 "what": "a poll after unsealing saw a signing key missing from the published sets (or the server's own fresh cookie rejected)",
                                 "case": {"round": line}, "observed": {"violating_rounds": viol}})
            corr(ctx, res, "c09_auto_mismatches", "auto-unseal through loadVerifyConfigFile -> autoUnsealAwsLoop -> aws-sdk-go -> fake instance metadata + fake Secrets Manager: state after the loop's first attempt = Model.Seal.unseal_ca on the stored secret", idx, "auto")
            viol = res.get("c09_auto_violating") or "[]"
            for i in [int(x) for x in re.findall(r"\d+", viol)][:1]:
                line = None
                if os.path.exists(idx):
                    for ln in open(idx):
                        if ln.startswith("auto %d\t" % i):
                            line = ln.strip()
                ctx.hits.append({"key": "C09:model-oracle:auto-unseal",
                                 "oracle": "c09_auto_unseal_only_right_pass / c09_auto_unseal_refused_unchanged evaluated (inside Coq) on the observed state after the auto-unseal attempt",
                                 "what": "the auto-unseal path unsealed with a secret that does not decrypt and load every key file, or a failed attempt changed the state",
                                 "case": {"case": line}, "observed": {"violating_cases": viol}})
            corr(ctx, res, "c09_ready_mismatches", "the readiness probe behind a real net/http server in every form a prober asks it (method x query parameters harvested from the handler's source and arbitrary ones x trailing slash x Accept) on sealed / refused / unsealed states: status and signer = Model.SealLife.readyz_probe on the state Model.Seal.inject_all gives", idx, "ready")
            model_oracle(ctx, res, "c09_ready_violating", idx, "ready", "readyz-ready-while-sealed",
                         "c09_readyz_iff_unsealed evaluated (inside Coq, Model.SealLife.probe_violates; never true of the model by c09_probe_predicate_sound) on the observed probe",
                         "a readiness probe was answered 200 while the signer is absent")
            corr(ctx, res, "c09_life_mismatches", "life cycles across restarts on one data directory (same key / rotated key of the same kind / of another kind x directory kept / emptied; a second RuntimeState through loadVerifyConfigFile): signer, keys of /public/sshca, keys of the certificates of /public/x509ca, X.509 issuance after every run = Model.SealLife.life", idx, "life")
            model_oracle(ctx, res, "c09_life_violating", idx, "life", "published-ca-not-for-signing-key",
                         "c09_published_across_restarts evaluated (inside Coq, Model.SealLife.life_case_violates) on the observation after a run: a key of /public/sshca without CA certificate in /public/x509ca, or the requested X.509 certificate is not issued / does not verify under them",
                         "after a restart on a used data directory the published CA certificates are not those of the keys decrypted now")
            corr(ctx, res, "c09_route_mismatches", "every probed request on sealed / half-loaded / unsealed states: emitted artefacts and error class = Model.Seal.run_handler on the signing primitives the request reaches", idx, "route")
    ctx.assumptions = ["the service listener is started by main() only after SignerIsReady; the handler-level guarantee is what is checked here"]
    return ctx.finish("bin/build-coq; coqc Audit_Props_C09 / CasesC09 (lib/core.py); go test -overlay TestVerif_C09; go test -race -overlay TestVerif_C09Race",
                      COMMON_TRUSTED + TRUSTED,
                      ["data-race freedom of the compiled program: race detector on concurrent injections and requests (support, not a theorem)",
                       "that no handler produces a signature without state.Signer: pattern oracle over every route on sealed states, not a theorem about Go"])
