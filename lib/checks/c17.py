import os, re
import core

TRUSTED = [
    "Coq 8.16.1 kernel incl. vm_compute (case evaluation, refutation witness); no native_compute",
    "primitive Uint63 literals only in generated case files (transport), never in models/theorems",
    "tools/extract (go/ast): redirect-sink and pending-destination tables",
    "model of net/http.Redirect + path.Clean + hexEscapeNonASCII (Go 1.24) validated by the correspondence on every run",
    "WHATWG same-origin rule as encoded in Model.Dest.same_origin and harness verifSameOrigin",
]

def run(ctx):
    gen = ctx.extract()
    ctx.audit("Props.C17", ["c17_location", "c17_filter", "c17_old_filter_refuted", "c17_federated", "c17_prompt_flow",
                            "c17_unfiltered_prompt_refuted", "c17_logout", "c17_logout_ctl_refuted"])
    if gen:
        compile_gen(ctx, gen)
        ctx.gen_obligations("Obl_C17.v", ["c17_sinks", "c17_pending", "c17_sinks_nonempty"])
    ok, result, log = ctx.go_harness("cmd/keymasterd", "TestVerif_C17",
                                     ["kmd/common.go", "kmd/c17.go", os.path.join(ctx.work, "gen", "mux_gen.go")])
    if result is not None:
        res = ctx.eval_cases(os.path.join(ctx.work, "CasesC17.v"), "c17_location_vs_http.Redirect")
        if res is not None:
            mism = res.get("c17_mismatches")
            n = res.get("c17_ncases")
            if mism == "[]":
                ctx.obligations.append(("corr:location(model)=Location(impl) on %s cases" % n, True, "no mismatch"))
            else:
                ctx.obligations.append(("corr:location(model)=Location(impl)", False, "mismatch indices %s" % (mism or "?")[:200]))
                first = None
                m = re.search(r"\[(\d+)", mism or "")
                if m:
                    idx = int(m.group(1))
                    for line in open(os.path.join(ctx.work, "CasesC17.idx")):
                        if line.startswith("%d\t" % idx):
                            first = line.strip().split("\t")
                ctx.broken.append(("correspondence", "c17_location_vs_http.Redirect",
                                   {"first_mismatch": first, "indices": (mism or "")[:500]}))
            for name, label, idxfile in (("c17_flow_mismatches", "login prompt of a protected page -> provider round trip: prompt kind and callback Location = model (force_redirect x request-target forms)", "CasesC17flow.idx"),
                                         ("c17_page_mismatches", "hidden login_destination of the login page served for an unauthenticated GET = ensureHTMLSafeLoginDestination(page_destination)", "CasesC17page.idx"),
                                         ("c17_logout_mismatches", "logout Location = model logout_location", "CasesC17logout.idx")):
                mm = res.get(name)
                if mm == "[]":
                    ctx.obligations.append(("corr:" + label, True, "no mismatch"))
                else:
                    ctx.obligations.append(("corr:" + label, False, "mismatch indices %s" % (mm or "missing")[:200]))
                    first = None
                    m2 = re.search(r"\[(\d+)", mm or "")
                    if m2 and os.path.exists(os.path.join(ctx.work, idxfile)):
                        for line in open(os.path.join(ctx.work, idxfile)):
                            if line.startswith("%d\t" % int(m2.group(1))):
                                first = line.strip().split("\t")
                    ctx.broken.append(("correspondence", name, {"first_mismatch": first, "indices": (mm or "")[:500]}))
    ctx.assumptions = ["browser behaviour is represented by the WHATWG rules in same_origin",
                       "url.Parse success/failure enters the model as the parse_fails input computed by the real parser",
                       "r.URL.String() of the request (prompt flow) is an input computed by net/http's own request-line parser",
                       "c17_logout: the user name of a session contains no control byte other than tab/CR/LF (whatever the password backend / identity provider admitted); c17_logout_ctl_refuted shows the hypothesis is needed"]
    return ctx.finish("bin/build-coq && coqc Audit/Obl/Cases files (see lib/core.py); go test -overlay TestVerif_C17", TRUSTED)


def compile_gen(ctx, gen):
    """compile work/<pid>/gen/*.v as KMW.gen.*"""
    for f in ("Routes.v", "Tables.v"):
        p = os.path.join(gen, f)
        if os.path.exists(p):
            rc, out = ctx.coqc(p)
            if rc != 0:
                ctx.broken.append(("obligation", "gen:" + f, out[-1500:]))
