import os, re
import core

TRUSTED = [
    "Coq 8.16.1 kernel incl. vm_compute (case evaluation, refutation witness); no native_compute",
    "primitive Uint63 literals only in generated case files (transport), never in models/theorems",
    "tools/extract (go/ast): redirect-sink, pending-destination and destination-read tables; harvested cookie / parameter names",
    "model of net/http.Redirect + path.Clean + hexEscapeNonASCII (Go 1.24) validated by the correspondence on every run",
    "WHATWG same-origin rule as encoded in Model.Dest.same_origin and harness verifSameOrigin",
    "WHATWG resolution of an observed Location header (special schemes, slash/backslash runs, dot segments) as encoded in harness c17Resolve / c17LocationAllowed and, for the external-URL dimension, Model.DestExt.under_ext (literal-prefix form, stricter)",
]

# (prefix of the definitions printed by the case file, label, idx file, suffix of the model-oracle key)
LISTS = [
    ("c17", "location(model)=Location(impl)", "CasesC17.idx", ""),
    ("c17_flow", "login prompt of a protected page -> provider round trip: prompt kind and callback Location = model (force_redirect x request-target forms)", "CasesC17flow.idx", ":prompt-flow"),
    ("c17_logout", "logout Location = model logout_location", "CasesC17logout.idx", ":logout"),
    ("c17_ext", "daemons with one string knob of the base configuration set to a URL (found by reflection, loaded by the real loader): Location = model location_ext (which ignores the knob)", "CasesC17ext.idx", ":url-knob"),
    ("c17_chan", "request channels other than the form/query value (cookies, headers, JSON body, multipart field, path suffix) do not move the Location: = model req_location / req_federated_location", "CasesC17chan.idx", ":channel"),
]


def idx_lines(ctx, idxfile):
    p = os.path.join(ctx.work, idxfile)
    return open(p).read().split("\n") if os.path.exists(p) else []


def run(ctx):
    # a broken correspondence comes with its failing input from the first run (model oracle below); what is left for
    # the escalated search (DESIGN 2.6: thorough tier + two more seeds) is bounded to five minutes
    os.environ.setdefault("VERIF_ESCALATION_S", "300")
    gen = ctx.extract()
    ctx.audit("Props.C17", ["c17_location", "c17_filter", "c17_old_filter_refuted", "c17_federated", "c17_prompt_flow",
                            "c17_unfiltered_prompt_refuted", "c17_logout", "c17_logout_ctl_refuted",
                            "c17_other_channels_ignored", "c17_channels_same_origin", "c17_no_form_value_profile",
                            "c17_cookie_fallback_refuted", "c17_external", "c17_external_ignored", "c17_no_external",
                            "c17_strip_resolve_refuted"])
    if gen:
        compile_gen(ctx, gen)
        ctx.gen_obligations("Obl_C17.v", ["c17_sinks", "c17_pending", "c17_sinks_nonempty", "c17_filter_reads", "c17_filter_reads_nonempty"])
    ok, result, log = ctx.go_harness("cmd/keymasterd", "TestVerif_C17",
                                     ["kmd/common.go", "kmd/c17.go", "kmd/c17ext.go", os.path.join(ctx.work, "gen", "mux_gen.go")])
    if result is not None:
        res = ctx.eval_cases(os.path.join(ctx.work, "CasesC17.v"), "c17_location_vs_http.Redirect")
        if res is not None:
            n = res.get("c17_ncases")
            for prefix, label, idxfile, shape in LISTS:
                mism = res.get(prefix + "_mismatches")
                count = res.get(prefix + "_nmismatches", "?")
                lines = idx_lines(ctx, idxfile)
                if mism == "[]":
                    ctx.obligations.append(("corr:%s%s" % (label, " on %s cases" % n if prefix == "c17" else ""), True, "no mismatch"))
                else:
                    ctx.obligations.append(("corr:" + label, False, "%s mismatching cases, first indices %s" % (count, (mism or "missing")[:200])))
                    first = None
                    m = re.search(r"\[(\d+)", mism or "")
                    if m and int(m.group(1)) < len(lines):
                        first = lines[int(m.group(1))].split("\t")
                    ctx.broken.append(("correspondence", prefix + "_mismatches" if prefix != "c17" else "c17_location_vs_http.Redirect",
                                       {"first_mismatch": first, "count": count, "indices": (mism or "")[:500]}))
                # the mismatching cases on which the OBSERVED Location is not same-origin (evaluated in Coq): each is a
                # concrete input on which the implementation leaves the origin while the proved model does not
                viol = res.get(prefix + "_offorigin")
                if viol and viol != "[]":
                    for m in re.findall(r"\d+", viol)[:20]:
                        i = int(m)
                        line = lines[i] if i < len(lines) else "case %d" % i
                        ctx.hits.append({"key": "C17:model-oracle:offorigin" + shape, "oracle": "model-oracle: " + prefix + "_offorigin",
                                         "what": "the observed Location is not same-origin (url-knob list: neither same-origin nor under the configured URL, Model.DestExt.allowed) as evaluated in Coq (Model.Dest.same_origin) while the model's Location for the same input is: " + line[:300],
                                         "case": line})
            mm = res.get("c17_page_mismatches")
            label = "hidden login_destination of the login page served for an unauthenticated GET = ensureHTMLSafeLoginDestination(page_destination)"
            if mm == "[]":
                ctx.obligations.append(("corr:" + label, True, "no mismatch"))
            else:
                ctx.obligations.append(("corr:" + label, False, "mismatch indices %s" % (mm or "missing")[:200]))
                first = None
                m2 = re.search(r"\[(\d+)", mm or "")
                lines = idx_lines(ctx, "CasesC17page.idx")
                if m2 and int(m2.group(1)) < len(lines):
                    first = lines[int(m2.group(1))].split("\t")
                ctx.broken.append(("correspondence", "c17_page_mismatches", {"first_mismatch": first, "indices": (mm or "")[:500]}))
    ctx.assumptions = ["browser behaviour is represented by the WHATWG rules in same_origin",
                       "url.Parse success/failure enters the model as the parse_fails input computed by the real parser",
                       "r.URL.String() of the request (prompt flow) is an input computed by net/http's own request-line parser",
                       "whether a multipart field is part of r.Form (the handler parsed the form before FormValue or not) is net/http's decision: both outcomes are admitted by the channel correspondence",
                       "URL-valued configuration knobs: only string fields of the base configuration that are empty in the test configuration are set (one per daemon, at most 12 in the quick tier); a knob the real loader refuses is counted, not reported",
                       "c17_logout: the user name of a session contains no control byte other than tab/CR/LF (whatever the password backend / identity provider admitted); c17_logout_ctl_refuted shows the hypothesis is needed"]
    return ctx.finish("bin/build-coq && coqc Audit/Obl/Cases files (see lib/core.py); go test -overlay TestVerif_C17", TRUSTED)


def compile_gen(ctx, gen):
    """compile work/<pid>/gen/*.v as KMW.gen.*"""
    for f in ("Routes.v", "Tables.v"):
        p = os.path.join(gen, f)
        if os.path.exists(p):
            rc, out = ctx.coqc(p)
            if rc != 0:
                ctx.broken.append(("obligation", "gen:" + f, out[-1500:]))
