from checks.generic import standard

def run(ctx):
    return standard(ctx,
        props=[("Props.C04", ["c04_accept_sound", "c04_storage_both_paths", "c04_cache_arm_without_subject_refuted", "c04_storage_data_type_unbound", "c04_matrix", "c04_single_claim", "c04_single_claim_resigned",
                              "c04_token_one_client", "c04_token_header_silences_body", "c04_token_channel", "c04_code_of_other_client_refused", "c04_body_subject_reading_refuted",
                              "c04_no_side_effect", "c04_update_keeps_expiry", "c04_cli_send_no_extension",
                              "c04_old_storage_exp_refuted"])],
        harness=("TestVerif_C04", ["kmd/common.go", "kmd/creds.go", "kmd/consts.go", "kmd/tokens.go", "kmd/c04.go"]),
        obl=("Obl_C04.v", ["c04_struct_tags", "c04_produced_claims", "c04_kind_strings", "c04_kinds_distinct", "c04_lifetimes"]),
        cases=("CasesC04.v", [("c04_mismatches", "accept/reject, named user and re-issued artefacts of every consumer = model (matrix, mutations, header substitutions, storage column)"),
                              ("c04_corrupt_mismatches", "byte-corrupted artefacts: verdict = model on the base token with the harness's tampered flag"),
                              ("c04_channel_mismatches", "token endpoint, two identity channels (code x header id/secret x body client_id/client_secret x verifier, enumerated by the model): released/refused = model", "CasesC04ch.idx"),
                              ("c04_channel_release_mismatches", "token endpoint, two identity channels: claims of every released ID / access token = model", "CasesC04ch.idx")], "CasesC04.idx"),
        model_oracles=[("c04_channel_violating", "C04:model-oracle:token-released-unjustified", "the token endpoint released tokens on a request for which the model, which provably releases only to the one authenticated client of a genuine, current code (c04_token_one_client), refuses", "CasesC04ch.idx"),
                       ("c04_channel_release_violating", "C04:model-oracle:token-audience-or-subject", "released ID token whose audience, or a code whose subject, is not the one client the request authenticated as (c04_token_one_client)", "CasesC04ch.idx")],
        trusted=["symbolic cryptography: a token verifies iff its signer is one of KeymasterPublicKeys, its header algorithm is one derived from those keys and its bytes are unaltered (EUF-CMA of RS256/ES*/EdDSA and go-jose's implementation are assumed; exercised, not proved, by foreign-key / none / HS256-with-public-key / relabelled / corrupted tokens)",
                 "go-jose JSON decoding in front of the model: the harness decodes the payload of every token it sends into the model's claim list; AES-GCM/RSA-OAEP sealing of the PKCE challenge is symbolic (VSealed)",
                 "clock: the model is evaluated at the two readings taken around each call and must agree for one of them (the generators stay >= 60 s away from every expiry boundary)"],
        assumptions=["who checkAuth admitted in front of SendAuthDocument / authorize is an input (C01/C06)"],
        extra_gen=("TokenConsts.v",), timeout=2400)
