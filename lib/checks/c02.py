from checks.generic import standard

def run(ctx):
    return standard(ctx,
        props=[("Props.C02", ["c02_binding", "c02_signed_by_loaded_signer", "c02_published_for_every_initial_list", "c02_other_user_refused", "c02_extensions", "c02_user_is_normalised",
                              "c02_normalise_idempotent", "c02_old_krb_refuted"])],
        harness=("TestVerif_C02", ["kmd/common.go", "kmd/creds.go", "kmd/consts.go", "kmd/c01.go", "kmd/c02.go"]),
        cases=("CasesC02.v", [("c02_mismatches", "every decoded certificate (names, key id, key, type, CA flag, usages, extension map, verifying CA, organisations, groups, service methods, PKINIT name) and every refusal = model certgen on the same request"),
                              ("c02_login_mismatches", "session subject minted by /api/v0/login = model normalise of the submitted name")], "CasesC02.idx"),
        trusted=["x/crypto/ssh and crypto/x509 encode and decode the certificates (the model's certificate is the abstract certdesc); signatures are checked by the real verifiers against the CA material fetched from /public/sshca and /public/x509ca of the same state",
                 "mvdan.cc/sh shell.Expand is an oracle of the model; the harness calls it on every template string for every user and ships the results",
                 "the directory (group database) answers are inputs of the model; the harness mirrors its lower-case lookup",
                 "strings.ToLower is modelled on ASCII letters only"],
        assumptions=["sessions are minted by the harness with the state's own signer for arbitrary subject strings (any name a password backend could accept); logins through /api/v0/login are exercised for the htpasswd users"])
