import os, re, threading
import core
from checks.generic import standard, first_index

# Model/CertgenObs.v c02_violation: the property's predicate evaluated on the OBSERVED answer of a case
# on which implementation and model differ
VIOLATION_CLASS = {
    1: ("other-user-issued", "a request made on behalf of another user name is refused"),
    2: ("wrong-name", "the certificate names exactly the authenticated user"),
    3: ("wrong-key", "the certificate certifies exactly the submitted key"),
    4: ("not-end-entity", "end-entity user certificate (SSH user type; X.509 non-CA with client-authentication usage)"),
    5: ("not-verifiable", "the certificate verifies under the CA material the server publishes"),
    6: ("extensions", "SSH extensions are exactly the five standard ones plus every configured template with the user name substituted "
                      "(Proofs/CertgenSpec.v spec_ext); when a configured template cannot be expanded for the user nothing may be issued (c02_failed_expansion_refused)"),
    7: ("no-error", "a response without certificate must be an error"),
    8: ("extra-names", "the authenticated user's name is the only identity in the certificate (c02_no_other_names): no further principal, critical option, subject attribute or subject-alternative-name entry"),
    9: ("unverified-account", "a certificate is issued only if the password backend accepts the password for the account the typed name stands for (c02_user_is_normalised)"),
    11: ("not-an-automation-user", "an IP-restricted certificate is an identity only if its common name is byte for byte a configured automation user (c02_identity_is_account)"),
    10: ("session-subject", "the session a login mints is for the account the typed name stands for (c02_identity_is_account)"),
}

def model_oracle(ctx, res, name="c02_violating", idxfile="CasesC02.idx", prefix=""):
    val = res.get(name)
    if not val or val == "[]":
        return
    lines = []
    p = os.path.join(ctx.work, idxfile)
    if os.path.exists(p):
        lines = open(p).read().split("\n")
    seen = {}
    for m in re.finditer(r"\(\s*(\d+)(?:%nat)?\s*,\s*(\d+)\s*\)", val):
        i, cls = int(m.group(1)), int(m.group(2))
        cname, oracle = VIOLATION_CLASS.get(cls, ("class-%d" % cls, "property predicate on the observation"))
        key = "C02:model-oracle:" + prefix + cname
        n = seen.get(key, 0)
        seen[key] = n + 1
        if n >= 20:
            continue
        line = lines[i] if i < len(lines) else "case %d" % i
        ctx.hits.append({"key": key, "oracle": oracle, "what": line.split("\t", 1)[-1][:600], "case": line,
                         "observed": {"index": i, "violation_class": cname}, "kind": "input"})

def base_for(ctx, pkgname):
    p = os.path.join(ctx.work, "base_%s.go" % pkgname)
    open(p, "w").write(open(os.path.join(core.VERIF, "harness", "base", "base.go")).read().replace("package verifbase", "package " + pkgname, 1))
    return p

KRB_CORR = [("c02_krb_mismatches", "lib/certgen changePrintableStringToGeneralString (called directly, overlaid test in lib/certgen) on marshalled PKINIT names for realm x name lengths 0..300 (short / one-octet / two-octet length forms at every nesting level; PrintableString and UTF8String contents) and on truncated / mutated inputs: bytes, error or panic = model patch (Model/DerPatch.v) on the same input"),
            ("c02_krb_encoder_mismatches", "asn1.Marshal(PKInitSANAnotherName{realm, [name]}) = model krb_der realm name (the encoder the theorem c02_krb_patch_tags_only speaks about)")]

def krb_patch(ctx, harness_thread, box):
    """second test binary: the byte patching of the PKINIT name, lib/certgen's own code"""
    harness_thread.join()
    result = box.get("result")
    if result is None:
        return
    res = ctx.eval_cases(os.path.join(ctx.work, "CasesC02K.v"), "CasesC02K.v")
    if res is None:
        return
    lines = []
    p = os.path.join(ctx.work, "CasesC02K.idx")
    if os.path.exists(p):
        lines = open(p).read().split("\n")
    n = res.get("c02k_ncases", "?")
    for name, label in KRB_CORR:
        mism = res.get(name)
        if mism == "[]":
            ctx.obligations.append(("corr:%s (%s cases in file)" % (label, n), True, "no mismatch"))
            continue
        ctx.obligations.append(("corr:" + label, False, "mismatch indices %s" % (mism or "missing")[:200]))
        i = first_index(mism)
        first = lines[i][:3000] if i is not None and i < len(lines) else None
        ctx.broken.append(("correspondence", name, {"label": label, "first_mismatch": first, "indices": (mism or "")[:400]}))
    viol = res.get("c02_krb_violating")
    if viol and viol != "[]":
        for i in [int(x) for x in re.findall(r"\d+", viol)][:20]:
            line = lines[i] if i < len(lines) else "case %d" % i
            ctx.hits.append({"key": "C02:model-oracle:krb-patch-not-tags-only",
                             "oracle": "the observed output of the byte patch is not the input with (at most) the two string tags replaced by 27, of the same length - or the function panicked / refused a well-formed structure (tags_only_b / two_tags_b of Model/DerPatch.v on the observation; c02_krb_patch_tags_only, c02_krb_patch_total)",
                             "what": line.split("\t", 1)[-1][:600], "case": line[:3000], "kind": "input"})

def run(ctx):
    box = {}
    def krb_harness():
        try:
            ok, result, log = ctx.go_harness("lib/certgen", "TestVerif_C02K", [base_for(ctx, "certgen"), "certgen/c02k.go"], timeout=600)
            box["result"] = result
        except Exception as ex:  # noqa
            ctx.broken.append(("correspondence", "harness:TestVerif_C02K", str(ex)[-2000:]))
    kt = threading.Thread(target=krb_harness)
    kt.start()
    orig = ctx.eval_cases
    def eval_cases(vfile, label="correspondence", timeout=1800):
        res = orig(vfile, label, timeout)
        if res is not None:
            model_oracle(ctx, res)
            # the credential kind x name-spelling family (Model/CertgenIdentObs.v ident_violation)
            model_oracle(ctx, res, "c02_ident_violating", "CasesC02ident.idx", "identity:")
        return res
    ctx.eval_cases = eval_cases
    return standard(ctx, post_cases=lambda c, r: krb_patch(c, kt, box),
        props=[("Props.C02", ["c02_binding", "c02_signed_by_loaded_signer", "c02_published_for_every_initial_list", "c02_other_user_refused", "c02_extensions", "c02_extensions_env_independent", "c02_env_shadows_user_refuted",
                              "c02_failed_expansion_refused", "c02_names_injective", "c02_no_other_names", "c02_user_is_normalised",
                              "c02_identity_is_account", "c02_other_spelling_refused", "c02_normalised_name_certified",
                              "c02_normalise_idempotent", "c02_normalise_idempotent_okta", "c02_typed_identity_refuted", "c02_old_krb_refuted",
                              "c02_krb_patch_tags_only", "c02_krb_patch_tags_only_sizes", "c02_krb_patch_total", "c02_krb_patch_length", "c02_old_krb_patch_refuted"])],
        harness=("TestVerif_C02", ["kmd/common.go", "kmd/creds.go", "kmd/consts.go", "kmd/c01.go", "kmd/c02.go", "kmd/c02ident.go"]),
        cases=("CasesC02.v", [("c02_mismatches", "every decoded certificate (names, key id, key, type, CA flag, usages, extension map, verifying CA, organisations, groups, service methods, PKINIT name) and every refusal = model certgen on the same request"),
                              ("c02_login_mismatches", "session subject minted by /api/v0/login = model normalise of the submitted name"),
                              ("c02_ident_mismatches", "credential kind (login by form / by Basic header, Basic header on the request, client certificate, IP-restricted automation certificate) x name spelling (case variants, mail domains, blanks, line feed) x URL segment (as typed / as the account): certificate or refusal, the account the password backend was asked about, the session subject = model ident_certgen / cred_path on the typed name", "CasesC02ident.idx"),
                              ("c02_okta_filter_mismatches", "the model's Okta user-name filter = the compiled default expression on every typed name of the family", None)], "CasesC02.idx"),
        trusted=["encoding/asn1 marshals the PKINIT name that lib/certgen then patches: the model's encoder krb_der is compared with asn1.Marshal on every (realm, name) of the grid, the patch itself (changePrintableStringToGeneralString, derWalk) is modelled byte for byte (Model/DerPatch.v) and proved tags-only and panic-free",
                 "x/crypto/ssh and crypto/x509 encode and decode the certificates (the model's certificate is the abstract certdesc); signatures are checked by the real verifiers against the CA material fetched from /public/sshca and /public/x509ca of the same state",
                 "mvdan.cc/sh shell.Expand is an oracle of the model; the harness calls it on every template string for every user and ships the results (including which templates it rejects for which user)",
                 "the directory (group database) answers are inputs of the model; the harness mirrors its lower-case lookup",
                 "strings.ToLower is modelled on ASCII letters only"],
        assumptions=["sessions are minted by the harness with the state's own signer for arbitrary subject strings (any name a password backend could accept); logins through /api/v0/login are exercised for the htpasswd users"])
