import os, re
from checks.generic import standard
from checks.loopbody import one_pass

TOTP_CLASS = {1: ("totp-spacing", "an attempt got past the spacing test less than two seconds after the user's last evaluated attempt"),
              2: ("totp-accepted-while-locked", "a code was accepted while the lock-out stored before the call was still running"),
              3: ("totp-failure-not-counted", "an evaluated failure is missing from the stored count of consecutive failures"),
              4: ("totp-lockout-short", "the lock-out after this failure ends earlier than the number of consecutive failures demands"),
              5: ("totp-cleanup-forgets", "a cleanup pass lowered the failure count or the lock-out of an entry")}

def idx_line(ctx, name, i):
    p = os.path.join(ctx.work, name)
    if os.path.exists(p):
        lines = open(p).read().split("\n")
        if 0 <= i < len(lines):
            return lines[i][:6000]
    return None

def violating(ctx, res):
    """round-2 addendum: mismatching cases whose OBSERVATION violates the property become oracle hits with their input"""
    for i in [int(x) for x in re.findall(r"\d+", res.get("c14_lookup_violating") or "")][:5]:
        ctx.hits.append({"key": "C14:model-oracle:lookups-per-token", "oracle": "property predicate evaluated in Coq on the observation of a mismatching case: one limiter token buys at most one backend lookup, a refusal none",
                         "what": "observed lookups exceed what one limiter token buys (model: login_step_tries code_tries): " + (idx_line(ctx, "CasesC14_lookup.idx", i) or "case %d" % i),
                         "case": idx_line(ctx, "CasesC14_lookup.idx", i) or i})
    for i in [int(x) for x in re.findall(r"\d+", res.get("c14_okta_violating") or "")][:5]:
        ctx.hits.append({"key": "C14:model-oracle:lookups-per-token:okta", "oracle": "property predicate evaluated in Coq on the observation of a mismatching case: one limiter token buys at most one request to the Okta authn endpoint, a refusal none",
                         "what": "observed requests to the identity provider exceed what one limiter token buys: " + (idx_line(ctx, "CasesC14_okta.idx", i) or "case %d" % i),
                         "case": idx_line(ctx, "CasesC14_okta.idx", i) or i})
    for code in [int(x) for x in re.findall(r"\d+", res.get("c14_totp_violating") or "")][:5]:
        sc, step, cls = code // 1000000, (code % 1000000) // 10, code % 10
        name, what = TOTP_CLASS.get(cls, ("totp-other", "observed transition violates the statement"))
        ctx.hits.append({"key": "C14:model-oracle:" + name, "oracle": "property predicate evaluated in Coq on the observed transition of a mismatching step",
                         "what": "scenario %d step %d: %s" % (sc, step, what),
                         "case": {"scenario": sc, "step": step, "history": idx_line(ctx, "CasesC14_totp.idx", sc)}})

def run(ctx):
    # one pass of the periodic cleanup (an endless loop with a sleep in the tree) as a callable unit
    overlay, hookfiles, ok, detail = one_pass(ctx, "cmd/keymasterd/app.go", "performStateCleanup", "verifCleanupOnce", "c14CleanupOnce")
    ctx.obligations.append(("instrumentation: one pass of performStateCleanup callable (%s)" % detail, ok, detail))
    if not ok:
        ctx.broken.append(("correspondence", "instrumentation", "no loop body found in performStateCleanup (app.go): " + detail))
    return standard(ctx, extra_overlay=overlay, post_cases=violating,
        props=[("Props.C14", ["c14_bucket", "c14_bucket_limiter", "c14_bucket_plus1", "c14_bucket_any_state",
                              "c14_excess_429", "c14_limiter_first", "c14_entry_points",
                              "c14_one_lookup_per_token", "c14_bucket_lookups", "c14_tries_code", "c14_retry_on_error_refuted",
                              "c14_totp_spacing_concurrent", "c14_split_gate_refuted", "c14_config", "c14_old_clamp_refuted",
                              "c14_totp_spacing", "c14_lockout", "c14_lockout_escalates", "c14_fail_count",
                              "c14_totp_per_user", "c14_old_lockout_refuted",
                              "c14_cleanup_invisible", "c14_streak", "c14_lockout_history", "c14_lockout_history_plain", "c14_cleanup_per_user",
                              "c14_read_source_irrelevant", "c14_read_source_any", "c14_source_is_throttle", "c14_cached_no_write", "c14_cached_lenient_refuted",
                              "c14_purging_cleanup_refuted", "c14_count_bounded", "c14_uint32_exact"])],
        harness=("TestVerif_C14", ["kmd/common.go", "kmd/creds.go", "kmd/consts.go", "kmd/c14.go"] + hookfiles),
        obl=("Obl_C14.v", ["c14_totp_consts", "c14_two_seconds", "c14_uint32_consts"]),
        cases=("CasesC14.v", [("c14_cfg_mismatches", "loadVerifyConfigFile's clamps = model clamp_burst/clamp_rate"),
                              ("c14_lim_mismatches", "rate.Limiter.AllowN on explicit time stamps = exact token bucket model (knife edges of half a nanosecond of refill tolerated)"),
                              ("c14_order_mismatches", "ordering probe: what a backend that reads the limiter during its lookup sees, for every entry point = limiter state after Allow() of the model's login_step"),
                              ("c14_lookup_mismatches", "failing password backend (always / now and then / on the first lookup): status and number of lookups of every attempt = login_step_tries code_tries on the attempt's answer stream", "CasesC14_lookup.idx"),
                              ("c14_okta_mismatches", "Okta as password backend (real lib/authenticators/okta against a local authn endpoint answering 200 SUCCESS / MFA_REQUIRED / other / undecodable, 401, 403, 429, 5xx): status and number of requests to the endpoint per attempt = login_step_tries code_tries over okta_answer", "CasesC14_okta.idx"),
                              ("c14_handler_mismatches", "measured handler sequence: every window obeys the theorem's inequality; fresh burst and refill after a pause are let through"),
                              ("c14_totp_src_mismatches", "the same steps with the read source (any attempt may be served from the cache database: remoteDBQueryTimeout = 0 around the call, cache refreshed) and the replay guard: accepted, entry after, remembered and persisted step of the last success = attempt_src on the observed pre-state (a cached attempt writes nothing to the profile, counts and locks like any other)", "CasesC14_totp.idx"),
                              ("c14_totp_mismatches", "validateUserTOTP verdict and rate-limit entry after every attempt, and every entry after every pass of the periodic cleanup, = model with the uint32 counter (simulated time)", "CasesC14_totp.idx")], "CasesC14.idx"),
        trusted=["golang.org/x/time/rate computes in float64; the model is exact and tolerates either verdict within half a nanosecond of refill around the threshold",
                 "time is simulated for validateUserTOTP by shifting the time fields of state.totpLocalRateLimit (the code reads time.Now() itself); comparisons are kept 120 ms off their boundaries",
                 "recording PasswordAuthenticator installed in RuntimeState.passwordChecker stands for the password backend (scripted answer streams: verdict / error); for Okta the real lib/authenticators/okta PasswordAuthenticator talks to a local httptest authn endpoint",
                 "an attempt 'served from the cache' is made with remoteDBQueryTimeout = 0 and the cache database refreshed from the primary immediately before (a probe LoadUserProfile under the same conditions must say fromCache); a STALE cache is not exercised (C15's subject)",
                 "concurrent one-time-code probe: an evaluation is recognised by the verdict (accepted, or the internal error of a second enabled device whose stored secret cannot be decrypted); a throttled attempt answers a plain refusal"],
        assumptions=["arrival times at the limiter are non-decreasing (time.Now() is read just before the limiter's lock is taken; reordering of concurrent requests by microseconds is not modelled)",
                     ],
        timeout=1500)
