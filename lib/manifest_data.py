BASELINE_CMD = "for m in $(cat /w/out/gomods.txt); do MF=$(cd /repo/$m && . /w/out/goenv.sh && gomodflag); (cd /repo/$m && go test $MF -json -vet=off -count=1 -timeout 25m ./...); done"

NOTES = ("All checks: bin/check <Cxx> [--tier quick|thorough]. Each run re-extracts tables from /repo, "
         "re-audits the property theorems (Print Assumptions), runs the Go harness overlaid on the current "
         "tree and evaluates the Coq model on the observed cases. Known findings: known_findings.txt.")

NOT_APPLICABLE = {}

CHECKS = {
 "C01": {
  "text": "Theorems over a branch-by-branch model of checkAuth (CSRF test, client-certificate branch, cookie branch incl. getAuthInfoFromJWT, basic auth) and certGenHandler (sealed test, the sufficientAuthLevel loop with the U2F override, target comparison, method, form, type dispatch): c01_sound (a certificate implies an unsealed server, POST, the URL naming the authenticated user, and a currently valid credential - session, password, keymaster client certificate, IP-restricted certificate inside its blocks - at a level that qualifies), c01_sufficient_iff (the loop decides exactly `qualifies`, for every list of strings and every level mask), c01_password_only_refused / c01_password_session_401, c01_everything_else_refused + c01_refused_is_error (every other request gets a status >= 400 and nothing signed), c01_complete_session/_password/_cert (an orderly request with a qualifying credential is served), c01_strict_refuted (the strict reading of the `password` entry is not what the code does: federated-only, CLI and IP-certificate credentials are served under [password]). Obligations tie the factor bits, the nine method strings and the /certgen/ route to constants regenerated from the current tree. Correspondence: 528 lists (all 512 subsets + order/duplicate/near-miss lists) x 74 credential shapes (really signed, expired, not-yet-valid, foreign-issuer/audience/key, other token kinds, alg:none, HS256-with-public-key, bit-flipped, client certificates of every kind, Origin/Referer, double cookies) x 4 types x 3 methods x sealed/unsealed through the real handler; Coq recomputes the expected class of every case from its index (quick 52 688 requests, thorough the full 937 728); independent Go oracle for 'proves and qualifies'; Accept: text/html and YAML-loaded lists as cross checks.",
  "note": "Trusted: Coq kernel + vm_compute; symbolic signatures (go-jose / crypto/x509 are exercised, not modelled); VerifiedChains set by the harness; parsers in front of the model. Reading fixed (F18): the `password` entry is met by any credential checkAuth accepts. Two defects repaired in the source (empty 200 for an unparsable Origin header; 200 with the 2FA page for HTML clients with an insufficient session).",
  "technique": "Coq proof over all lists/masks/requests + regenerated constants + exhaustive finite enumeration evaluated inside Coq + independent oracle",
 },
 "C02": {
  "text": "TBD",
  "note": "TBD",
  "technique": "TBD",
 },
 "C17": {
  "text": "Theorem c17_location: for every byte string submitted as login_destination and either outcome of url.Parse, the Location emitted by http.Redirect (model of path.Clean, query split, trailing slash, hex escaping) is same-origin under WHATWG rules; proved for all strings by induction. Tied to the code by (a) exhaustive small-scope + adversarial + random differential comparison of the model's Location with the real getLoginDestination/http.Redirect/loginHandler, (b) a regenerated table of every http.Redirect target with an obligation that none reads the request unfiltered.",
  "note": "Trusted: Coq kernel + vm_compute; go/ast extractor; model of net/http.Redirect validated by correspondence; WHATWG rule encoded by hand. 2FA/OAuth handlers share the same filter+sink (checked syntactically), exercised through loginHandler and the function pair.",
  "technique": "Coq proof over all byte strings + differential correspondence + regenerated sink table",
 },
 "C03": {
  "text": "Theorems c03_ssh_bound / c03_x509_bound: for every requested duration (any integer ns or none), authentication instant and clock readings, whatever certGenHandler signs has a validity window that does not wrap the unsigned epoch arithmetic, does not start in the future and ends no later than now+requested, now+cap and authenticated+cap; non-positive and over-long requests are refused; Obl_C03 proves the statement with the literal 24 h / 45 d of the property against constants regenerated from the current tree. Correspondence: ~950 real requests (duration table x session ages x ssh/x509/kubernetes x cookie/client-cert; role and refresh endpoints with duration parameters) compared with the model inside Coq, plus the property inequality as a direct oracle.",
  "note": "Trusted: Coq kernel + vm_compute; time.ParseDuration in front of the model; amd64 float->uint64 semantics for negative values; harness-compiled constants. Cloud-role (AWS) template lifetime is not yet exercised.",
  "technique": "Coq proof over Z (lia) + regenerated constants + differential correspondence",
 },
 "C11": {
  "text": "Theorems over an octet-level model of the RFC 3779 codec and the membership test: c11_roundtrip/c11_extract_minted (decode(encode b) = b for every prefix 0..32 and every masked address), c11_iff (a minted certificate accepts a peer iff the peer lies in one of its blocks; only IPv4/IPv4-mapped peers ever match), c11_malformed_never_widens (for ANY extension content acceptance is witnessed by a literal <=32-bit IPv4 block containing the peer; the decoder is total), c11_refresh_same_blocks. Correspondence: all prefixes x boundary peers minted through the real role endpoint, VerifyIP/ExtractIPNets/refresh endpoint vs the model evaluated in Coq, client-supplied address headers, ~70 corrupted extensions in role-CA-signed certificates; independent numeric oracle.",
  "note": "Trusted: Coq kernel + vm_compute; encoding/asn1, crypto/x509, net.ParseIP in front of the model; TLS chain verification by crypto/tls (harness supplies VerifiedChains of really signed certificates). The equivalence of the octet-wise mask comparison with the numeric prefix comparison is checked by the harness oracle, not proved.",
  "technique": "Coq proof (finite prefix sweep lifted over symbolic octets, induction over block lists) + differential correspondence",
 },
 "C10": {
  "text": "Theorems c10_strong/c10_strong_complete (the strength predicate holds exactly for RSA >= 2048 bits with e >= 65537, NIST curves >= 256 bits, Ed25519), c10_pipeline/c10_weak_is_client_error (parse;validate;sign signs only validated keys, weak ones are client errors), c10_decoder_total (keymaster's own address-extension decoder is total on every bit string). Correspondence: the real ValidatePublicKeyStrength on every RSA modulus size 1..4200 x exponents, curves, Ed25519, DSA, X25519 compared with the model in Coq; the key corpus down all six issuing HTTP paths (ssh, x509, kubernetes, role, refresh, cloud-role behind a fake STS); mutation fuzzing of keys/tokens/parameters through every path under a panic-recording wrapper.",
  "note": "Partial: panic-freedom of library parsers (x509, ssh, pem, jose, multipart) is fuzzing, not a theorem. Trusted: parsers in front of the model, fake STS.",
  "technique": "Coq proof of the decision predicate + exhaustive-size differential sweep + mutation fuzzing (support)",
 },
 "C13": {
  "text": "Theorems over the decision layer of CanRedirectToURL / CorsOriginAllowed / the generic CORS check: c13_decision (acceptance implies https, a real host, no opaque part, empty query, no '..' in the path, a configured domain that equals the host or is separated from it by a dot, and a pattern match when patterns are configured), c13_no_lookalike (a host that merely ends with the domain without a dot boundary never matches, for all strings), c13_own_hosts_match, c13_no_config, c13_cors. Correspondence: ~2200 (thorough 120000) adversarial URLs x 8 client configurations: the real validators vs the model in Coq on the components url.Parse delivers; GET /idp/oauth2/authorize end to end; independent WHATWG host extraction as oracle.",
  "note": "Partial: that net/url and a browser agree on the host of the raw string is differential testing against the harness's WHATWG rules, not a theorem. Trusted: net/url, regexp in front of the model.",
  "technique": "Coq proof of the decision layer over all strings + differential correspondence with WHATWG oracle",
 },
 "C18": {
  "text": "Theorems c18_escape_safe (for every byte string the HTML-escaped text contains no quote or angle bracket) and c18_hidden_input (whatever the URL normaliser in front does, the double-quoted VALUE attribute an HTML5 tokenizer reads from the hand-built hidden INPUT is exactly the escaped destination: it can neither end the attribute nor add one); obligation c18_raw_sinks over a regenerated table of every conversion to template.HTML/JS/URL/HTMLAttr (only literals, escaped values or base-64 may be concatenated). Correspondence: the VALUE attribute of really served login-failure, 2FA and authorize-login pages compared byte for byte with the model; canary payloads in every field, path and header of every route of the regenerated mux x 4 credentials x GET/POST, each HTML response tokenised with x/net/html.",
  "note": "Partial: ordinary template fields rely on html/template auto-escaping (trusted library, probed with canaries, not modelled). Trusted: x/net/html tokenizer as HTML5 parser; extractor table.",
  "technique": "Coq proof over all byte strings + regenerated sink table + byte-level correspondence + canary probing (support)",
 },
}
