package certgen

// C02 (Kerberos SAN): lib/certgen's own byte-level code - changePrintableStringToGeneralString with
// derWalk - called directly on what asn1.Marshal gives for PKInitSANAnotherName{realm, [name]} over a grid
// of realm / name lengths around every DER length-form boundary (127/128, 255/256) and byte classes
// (PrintableString, UTF8String incl. control bytes and multi-byte characters), and on truncated / mutated
// inputs.  Input and output bytes go to Coq, where Model/DerPatch.v `patch` is evaluated on the same input
// (c02_krb_mismatches), `krb_der realm name` is compared with the marshalled bytes
// (c02_krb_encoder_mismatches), and the tags-only predicate is evaluated on the observation (model oracle).
// Go oracle: the output must equal the same structure marshalled by encoding/asn1 with the two strings
// as RawValue{Tag: 27} (an encoding that never went through the patch).

import (
	"bytes"
	"encoding/asn1"
	"fmt"
	"io/ioutil"
	"path/filepath"
	"strings"
	"testing"
	"unicode/utf8"
)

type c02kPrincipal struct {
	Len       int             `asn1:"explicit,tag:0"`
	Principal []asn1.RawValue `asn1:"explicit,tag:1"`
}
type c02kName struct {
	Realm     asn1.RawValue // the [0] wrapper itself: encoding/asn1 writes a RawValue field as it is
	Principal c02kPrincipal `asn1:"explicit,tag:1"`
}
type c02kSAN struct {
	Id    asn1.ObjectIdentifier
	Value c02kName `asn1:"explicit,tag:0"`
}

// outcome of the real function: 0 error, 1 bytes, 2 run-time panic
func c02kCall(in []byte) (out []byte, outcome int) {
	defer func() {
		if r := recover(); r != nil {
			out, outcome = nil, 2
		}
	}()
	buf := append([]byte{}, in...)
	o, err := changePrintableStringToGeneralString(buf)
	if err != nil {
		return nil, 0
	}
	return o, 1
}

func c02kLenClass(n int) string {
	switch {
	case n < 128:
		return "short"
	case n < 256:
		return "long1"
	default:
		return "long2"
	}
}

func c02kString(class int, n int, rnd func(int) int) string {
	printable := "abcdefghijklmnopqrstuvwxyzABCDEFGHIJKLMNOPQRSTUVWXYZ0123456789 '()+,-./:=?"
	var sb strings.Builder
	switch class {
	case 0: // PrintableString
		for sb.Len() < n {
			sb.WriteByte(printable[rnd(len(printable))])
		}
	case 1: // ASCII that is not printable in the ASN.1 sense -> UTF8String
		other := "_@!#$%;<>[]{}|~\"\\^`*&"
		for sb.Len() < n {
			if rnd(3) == 0 {
				sb.WriteByte(other[rnd(len(other))])
			} else {
				sb.WriteByte(printable[rnd(len(printable))])
			}
		}
	case 2: // control bytes (valid UTF-8, one byte each)
		for sb.Len() < n {
			sb.WriteByte(byte(rnd(0x20)))
		}
	default: // multi-byte characters, padded to the byte length
		for sb.Len()+2 <= n {
			sb.WriteString(string(rune(0xc0 + rnd(0x3f))))
		}
		for sb.Len() < n {
			sb.WriteByte('x')
		}
	}
	return sb.String()
}

func TestVerif_C02K(t *testing.T) {
	res := newVerifResult("lib/certgen changePrintableStringToGeneralString called on asn1.Marshal(PKInitSANAnotherName{realm, [name]}) for realm x name lengths 0..300 around the DER length-form boundaries (127/128, 255/256; nested headers switch form at other sums) x byte classes (PrintableString, UTF8String: other ASCII, control bytes, multi-byte), and on every truncation and on random byte mutations (length octets 0x80..0x84, 0xff) of short-form and long-form encodings; non-trivial = some enclosing length is in long form, or the input is malformed")
	r := verifRand()
	rnd := func(n int) int { return r.Intn(n) }
	realmLens := []int{0, 1, 11, 100, 127, 128, 255, 256, 300}
	nameLens := []int{0, 1, 5, 64, 96, 97, 100, 126, 127, 128, 129, 200, 255, 256, 257, 300}
	if verifThorough() {
		for i := 0; i <= 300; i += 7 {
			realmLens = append(realmLens, i)
			nameLens = append(nameLens, i+1)
		}
	}
	type pair struct {
		realm, name string
		what        string
	}
	var pairs []pair
	for _, rl := range realmLens {
		for _, nl := range nameLens {
			pairs = append(pairs, pair{c02kString(0, rl, rnd), c02kString(0, nl, rnd), "printable"})
		}
	}
	for i := 0; i < 60; i++ {
		rc, nc := rnd(4), rnd(4)
		pairs = append(pairs, pair{c02kString(rc, rnd(301), rnd), c02kString(nc, rnd(301), rnd), fmt.Sprintf("classes %d/%d", rc, nc)})
	}
	pairs = append(pairs, pair{"EXAMPLE.COM", strings.Repeat("n", 100), "the repaired case"},
		pair{"EXAMPLE.COM", "a.b-c+d_e", "underscore"}, pair{"EXAMPLE.COM", "jürgen", "umlaut"},
		pair{"EXAMPLE.COM", "user@example.com", "at sign"}, pair{"R\x00M", "a\x00b\x7f", "NUL and DEL"})
	var cases, idx []string
	add := func(kind string, in, out []byte, outcome int, what string) {
		obs := "None"
		if outcome == 1 {
			obs = "(Some " + coqPacked(out) + ")"
		}
		cases = append(cases, fmt.Sprintf("(%s, %s, %s, %s)", kind, coqPacked(in), obs, coqBool(outcome == 2)))
		idx = append(idx, fmt.Sprintf("%d\t%s input=%x observed=%s", len(idx), what, in, map[int]string{0: "error", 1: fmt.Sprintf("%x", out), 2: "PANIC"}[outcome]))
	}
	var bases [][]byte
	for _, p := range pairs {
		if !utf8.ValidString(p.realm) || !utf8.ValidString(p.name) {
			continue
		}
		der, err := asn1.Marshal(PKInitSANAnotherName{Id: []int{1, 3, 6, 1, 5, 2, 2},
			Value: KRB5PrincipalName{Realm: p.realm, Principal: KerberosPrincipal{Len: 1, Principal: []string{p.name}}}})
		if err != nil {
			res.bump("marshal-refused")
			continue
		}
		out, outcome := c02kCall(der)
		shape := c02kLenClass(len(p.realm)) + "-realm:" + c02kLenClass(len(p.name)) + "-name"
		res.eval(fmt.Sprintf("%d|%d|%s", len(p.realm), len(p.name), p.what), len(der) > 129)
		res.bump("krb-patch:" + shape)
		realmGS, _ := asn1.Marshal(asn1.RawValue{Tag: 27, Bytes: []byte(p.realm)})
		want, werr := asn1.Marshal(c02kSAN{Id: []int{1, 3, 6, 1, 5, 2, 2},
			Value: c02kName{Realm: asn1.RawValue{Class: 2, Tag: 0, IsCompound: true, Bytes: realmGS},
				Principal: c02kPrincipal{Len: 1, Principal: []asn1.RawValue{{Tag: 27, Bytes: []byte(p.name)}}}}})
		cs := map[string]interface{}{"realm": fmt.Sprintf("%x", p.realm), "name": fmt.Sprintf("%x", p.name), "realm_len": len(p.realm), "name_len": len(p.name), "input": fmt.Sprintf("%x", der)}
		switch {
		case outcome == 2:
			res.hit(verifHit{Key: "C02:krb-patch:panic:" + shape, Oracle: "the function returns bytes or an error, it never panics", Kind: "input",
				What: fmt.Sprintf("realm of %d bytes, name of %d bytes: run-time panic", len(p.realm), len(p.name)), Case: cs})
		case werr == nil && (outcome != 1 || !bytes.Equal(out, want)):
			res.hit(verifHit{Key: "C02:krb-patch:not-tags-only:" + shape, Oracle: "the patched PKINIT name is byte for byte the structure with the two strings encoded as GeneralString (encoding/asn1 with RawValue{Tag: 27}, never patched)", Kind: "input",
				What:     fmt.Sprintf("realm of %d bytes, name of %d bytes (%s): the function gives %x, wanted %x", len(p.realm), len(p.name), p.what, out, want),
				Case:     cs,
				Observed: fmt.Sprintf("outcome=%d %x", outcome, out)})
		}
		add(fmt.Sprintf("Some (%s, %s)", coqPacked([]byte(p.realm)), coqPacked([]byte(p.name))), der, out, outcome,
			fmt.Sprintf("realm_len=%d name_len=%d (%s) realm=%x name=%x", len(p.realm), len(p.name), p.what, p.realm, p.name))
		if len(bases) < 4 && (len(der) < 70 || (len(der) > 140 && len(der) < 200) || len(der) > 420) {
			ok := true
			for _, b := range bases {
				if (len(b) < 70) == (len(der) < 70) && (len(b) > 420) == (len(der) > 420) {
					ok = false
				}
			}
			if ok {
				bases = append(bases, der)
			}
		}
	}
	// malformed inputs: every truncation of the shortest base, truncations of the others at random places,
	// single-byte mutations with a bias towards header octets and length-form markers
	var mal [][]byte
	var malWhat []string
	if len(bases) > 0 {
		b := bases[0]
		for i := 0; i < len(b); i++ {
			mal = append(mal, b[:i])
			malWhat = append(malWhat, fmt.Sprintf("truncated to %d of %d bytes", i, len(b)))
		}
	}
	marks := []byte{0x80, 0x81, 0x82, 0x83, 0x84, 0xff, 0x00, 0x7f, 0x01, 0x1b}
	nmut := 160
	if verifThorough() {
		nmut = 2000
	}
	for i := 0; i < nmut && len(bases) > 0; i++ {
		b := append([]byte{}, bases[i%len(bases)]...)
		pos := rnd(len(b))
		if rnd(3) > 0 {
			pos = rnd(40) % len(b)
		}
		v := marks[rnd(len(marks))]
		if rnd(4) == 0 {
			v = byte(rnd(256))
		}
		b[pos] = v
		what := fmt.Sprintf("byte %d of %d set to %#02x", pos, len(b), v)
		if rnd(5) == 0 {
			cut := rnd(len(b) + 1)
			b = b[:cut]
			what += fmt.Sprintf(", truncated to %d", cut)
		}
		mal = append(mal, b)
		malWhat = append(malWhat, what)
	}
	for i, b := range mal {
		out, outcome := c02kCall(b)
		res.eval(fmt.Sprintf("mal|%x", b), true)
		res.bump(fmt.Sprintf("krb-patch:malformed:outcome-%d", outcome))
		if outcome == 2 {
			res.hit(verifHit{Key: "C02:krb-patch:panic:malformed", Oracle: "the function returns bytes or an error, it never panics", Kind: "input",
				What: malWhat[i] + ": run-time panic", Case: map[string]interface{}{"input": fmt.Sprintf("%x", b), "what": malWhat[i]}})
		}
		add("None", b, out, outcome, "malformed: "+malWhat[i])
	}
	var sb strings.Builder
	sb.WriteString(coqCaseHeader)
	sb.WriteString("From KM Require Import Base.Cases Model.DerPatch.\n")
	sb.WriteString("(* (Some (realm, name) for a marshalled structure / None for a malformed input, input, observed bytes (None: error or panic), panicked) *)\n")
	sb.WriteString("Definition kcase := (option (bs * bs) * bs * option bs * bool)%type.\n")
	sb.WriteString("Definition kcases : list kcase := [\n " + strings.Join(cases, ";\n ") + "\n].\n")
	sb.WriteString("Definition opt_bs_eqb (a b : option bs) : bool := match a, b with Some x, Some y => bs_eqb x y | None, None => true | _, _ => false end.\n")
	sb.WriteString("Definition c02k_bad (c : kcase) : bool := let '(k, inp, obs, pan) := c in pan || negb (opt_bs_eqb (patch inp) obs).\n")
	sb.WriteString("Definition c02k_enc_bad (c : kcase) : bool := let '(k, inp, obs, pan) := c in match k with Some (r, n) => negb (bs_eqb (krb_der r n) inp) | None => false end.\n")
	sb.WriteString("Definition c02k_violation (c : kcase) : bool := let '(k, inp, obs, pan) := c in\n  if c02k_bad c then (pan || match obs, k with Some out, Some (r, n) => negb (tags_only_b r n inp out) | Some out, None => negb (two_tags_b inp out) | None, Some _ => true | None, None => false end) else false.\n")
	sb.WriteString("Definition c02_krb_mismatches := Eval vm_compute in mismatches c02k_bad kcases.\nPrint c02_krb_mismatches.\n")
	sb.WriteString("Definition c02_krb_encoder_mismatches := Eval vm_compute in mismatches c02k_enc_bad kcases.\nPrint c02_krb_encoder_mismatches.\n")
	sb.WriteString("Definition c02_krb_violating := Eval vm_compute in mismatches c02k_violation kcases.\nPrint c02_krb_violating.\n")
	sb.WriteString("Definition c02k_ncases := Eval vm_compute in length kcases.\nPrint c02k_ncases.\n")
	if err := ioutil.WriteFile(filepath.Join(verifOut(), "CasesC02K.v"), []byte(sb.String()), 0644); err != nil {
		t.Fatal(err)
	}
	ioutil.WriteFile(filepath.Join(verifOut(), "CasesC02K.idx"), []byte(strings.Join(idx, "\n")+"\n"), 0644)
	if len(idx) > 0 {
		s0 := idx[0]
		if len(s0) > 200 {
			s0 = s0[:200]
		}
		res.sample(s0)
	}
	res.write(t, "TestVerif_C02K")
}
