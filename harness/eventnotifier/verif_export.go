package eventnotifier

// Overlaid into keymasterd/eventnotifier at check time (never written under the source tree).
// Gives the harness in cmd/keymasterd a subscriber whose channel it can look at: registration
// and removal are the three statements handleConnection executes around its loop.

import "github.com/Cloud-Foundations/keymaster/proto/eventmon"

const VerifBufferLength = bufferLength

func (n *EventNotifier) VerifAttach() chan eventmon.EventV0 {
	transmitChannel := make(chan eventmon.EventV0, bufferLength)
	n.mutex.Lock()
	n.transmitChannels[transmitChannel] = transmitChannel
	n.mutex.Unlock()
	return transmitChannel
}

func (n *EventNotifier) VerifDetach(transmitChannel chan eventmon.EventV0) {
	n.mutex.Lock()
	delete(n.transmitChannels, transmitChannel)
	n.mutex.Unlock()
}

func (n *EventNotifier) VerifSubscribers() int {
	n.mutex.Lock()
	defer n.mutex.Unlock()
	return len(n.transmitChannels)
}
