package eventnotifier

// Overlaid into keymasterd/eventnotifier at check time (never written under the source tree).
// Gives the harness in cmd/keymasterd a subscriber whose channel it can look at: registration
// and removal are the three statements handleConnection executes around its loop.
//
// The map is handled through reflection so that this file keeps compiling when the VALUE type of
// transmitChannels changes (the production code only ranges over the keys): the key is the
// subscriber's channel; the value is the channel itself when the value type accepts it, a fresh
// channel that is never closed or sent on when the value type is some other channel type (a
// "this subscriber is gone" signal: the harness subscriber never goes away by itself), else the
// zero value.  A key type that does not accept a chan eventmon.EventV0 makes VerifAttach panic:
// TestVerif_C20 then does not complete and TestVerif_C20S (exported API only) covers the ground.

import (
	"reflect"

	"github.com/Cloud-Foundations/keymaster/proto/eventmon"
)

const VerifBufferLength = bufferLength

func (n *EventNotifier) VerifAttach() chan eventmon.EventV0 {
	transmitChannel := make(chan eventmon.EventV0, bufferLength)
	m := reflect.ValueOf(&n.transmitChannels).Elem()
	mt := m.Type()
	k := reflect.ValueOf(transmitChannel)
	if mt.Kind() != reflect.Map || !k.Type().ConvertibleTo(mt.Key()) {
		panic("verif_export: transmitChannels is not a map keyed by event channels: " + mt.String())
	}
	vt := mt.Elem()
	var val reflect.Value
	switch {
	case k.Type().ConvertibleTo(vt):
		val = k.Convert(vt)
	case vt.Kind() == reflect.Chan:
		val = reflect.MakeChan(reflect.ChanOf(reflect.BothDir, vt.Elem()), 0).Convert(vt)
	default:
		val = reflect.Zero(vt)
	}
	n.mutex.Lock()
	m.SetMapIndex(k.Convert(mt.Key()), val)
	n.mutex.Unlock()
	return transmitChannel
}

func (n *EventNotifier) VerifDetach(transmitChannel chan eventmon.EventV0) {
	m := reflect.ValueOf(&n.transmitChannels).Elem()
	n.mutex.Lock()
	m.SetMapIndex(reflect.ValueOf(transmitChannel).Convert(m.Type().Key()), reflect.Value{})
	n.mutex.Unlock()
}

func (n *EventNotifier) VerifSubscribers() int {
	n.mutex.Lock()
	defer n.mutex.Unlock()
	return len(n.transmitChannels)
}
