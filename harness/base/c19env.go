package verifbase

// C19: scenes for "WHICH agent does the client talk to".  Shared by harness/sshagent/c19a.go (library entry
// points that use the default agent location) and harness/client/c19c.go (insertSSHCertIntoAgentORWriteToFilesystem);
// lib/checks/c19.py copies this file into the work directory with the package clause rewritten.
//
// A scene is a scratch directory with t/ (TMPDIR), h/ (HOME), x/ (XDG_RUNTIME_DIR), a/ (where SSH_AUTH_SOCK
// points in most situations), the environment variables set accordingly, and recording keyrings ("decoys")
// listening at the places where ssh agents conventionally live.  Only the socket SSH_AUTH_SOCK names is
// designated; everything else must stay exactly as it was.

import (
	"crypto/sha256"
	"fmt"
	"io/ioutil"
	"net"
	"os"
	"path/filepath"
	"sort"
	"strings"
	"sync"

	"golang.org/x/crypto/ssh"
	"golang.org/x/crypto/ssh/agent"
)

type c19eEntry struct {
	comment string
	blob    string // first 8 bytes of sha256 of the public blob
	cert    bool
}

func (e c19eEntry) coq() string {
	return fmt.Sprintf("mkEntry %s %s %s", coqPacked([]byte(e.comment)), coqPacked([]byte(e.blob)), coqBool(e.cert))
}

func c19eBlobID(blob []byte) string {
	h := sha256.Sum256(blob)
	return string(h[:8])
}

func c19eListing(kr agent.Agent) []c19eEntry {
	keys, err := kr.List()
	if err != nil {
		return nil
	}
	var out []c19eEntry
	for _, k := range keys {
		pk, err := ssh.ParsePublicKey(k.Blob)
		isCert := false
		if err == nil {
			_, isCert = pk.(*ssh.Certificate)
		}
		out = append(out, c19eEntry{k.Comment, c19eBlobID(k.Blob), isCert})
	}
	sort.Slice(out, func(i, j int) bool { return out[i].blob < out[j].blob })
	return out
}

func c19eCoqListing(l []c19eEntry) string {
	var parts []string
	for _, e := range l {
		parts = append(parts, "("+e.coq()+")")
	}
	return "[" + strings.Join(parts, "; ") + "]"
}

func c19eSameListing(a, b []c19eEntry) bool {
	if len(a) != len(b) {
		return false
	}
	for i := range a {
		if a[i] != b[i] {
			return false
		}
	}
	return true
}

// a keyring that remembers what it was asked to do
type c19eRec struct {
	agent.Agent
	mu      sync.Mutex
	adds    []agent.AddedKey
	removes int
	lists   int
}

func (a *c19eRec) Add(k agent.AddedKey) error {
	a.mu.Lock()
	a.adds = append(a.adds, k)
	a.mu.Unlock()
	return a.Agent.Add(k)
}

func (a *c19eRec) Remove(k ssh.PublicKey) error {
	a.mu.Lock()
	a.removes++
	a.mu.Unlock()
	return a.Agent.Remove(k)
}

func (a *c19eRec) List() ([]*agent.Key, error) {
	a.mu.Lock()
	a.lists++
	a.mu.Unlock()
	return a.Agent.List()
}

func (a *c19eRec) added() []agent.AddedKey {
	a.mu.Lock()
	defer a.mu.Unlock()
	return append([]agent.AddedKey(nil), a.adds...)
}

type c19eNode struct {
	path       string
	place      string // the convention the path follows (stable name)
	kind       string // agent | deaf | stale | file | dir
	designated bool   // SSH_AUTH_SOCK names this path
	rec        *c19eRec
	before     []c19eEntry
	l          net.Listener
}

type c19eScene struct {
	root      string
	situation string
	authSock  *string // nil: unset
	tmp       string
	home      string
	xdg       string
	nodes     []*c19eNode
	saved     map[string]*string
	extraDirs []string
}

var c19eSituations = []string{"valid", "valid-conventional-path", "unset", "empty", "stale-socket", "missing-path",
	"regular-file", "closing-socket", "refusing-socket", "directory"}

// the places (relative to the scene root; t = TMPDIR, h = HOME, x = XDG_RUNTIME_DIR) where decoys listen
var c19ePlaces = []struct{ place, rel string }{
	{"tmpdir-ssh-agent", "t/ssh-Zq3kWm81Lp/agent.4711"},
	{"tmpdir-ssh-agent", "t/ssh-a/agent.1"},
	{"tmpdir-socket", "t/ssh-agent.sock"},
	{"home-ssh-agent", "h/.ssh/agent.sock"},
	{"home-ssh-agent", "h/.ssh/agent-host"},
	{"home-gnupg", "h/.gnupg/S.gpg-agent.ssh"},
	{"xdg-ssh-agent", "x/ssh-agent.socket"},
	{"xdg-openssh-agent", "x/openssh_agent"},
	{"xdg-keyring", "x/keyring/ssh"},
	{"xdg-gnupg", "x/gnupg/S.gpg-agent.ssh"},
}

const c19eLongestRel = 28

// a scratch root short enough for unix socket paths (sun_path is about 104 bytes)
func c19eRoot() (string, func(), error) {
	base := filepath.Join(os.TempDir(), "e")
	if len(base)+len("/s999/")+c19eLongestRel <= 100 {
		if err := os.MkdirAll(base, 0700); err != nil {
			return "", nil, err
		}
		return base, func() { os.RemoveAll(base) }, nil
	}
	d, err := ioutil.TempDir("/tmp", "vc19")
	if err != nil {
		return "", nil, err
	}
	return d, func() { os.RemoveAll(d) }, nil
}

func c19eServe(ag agent.Agent, sock string) (net.Listener, error) {
	if err := os.MkdirAll(filepath.Dir(sock), 0700); err != nil {
		return nil, err
	}
	l, err := net.Listen("unix", sock)
	if err != nil {
		return nil, err
	}
	go func() {
		for {
			c, err := l.Accept()
			if err != nil {
				return
			}
			go func() {
				agent.ServeAgent(ag, c)
				c.Close()
			}()
		}
	}()
	return l, nil
}

// a listener that does not speak the agent protocol: closes at once, or answers SSH_AGENT_FAILURE to everything
func c19eServeDeaf(sock string, refuse bool) (net.Listener, error) {
	if err := os.MkdirAll(filepath.Dir(sock), 0700); err != nil {
		return nil, err
	}
	l, err := net.Listen("unix", sock)
	if err != nil {
		return nil, err
	}
	go func() {
		for {
			c, err := l.Accept()
			if err != nil {
				return
			}
			go func() {
				defer c.Close()
				if !refuse {
					return
				}
				for {
					var hdr [4]byte
					if _, err := readFullC19e(c, hdr[:]); err != nil {
						return
					}
					n := int(hdr[0])<<24 | int(hdr[1])<<16 | int(hdr[2])<<8 | int(hdr[3])
					if n < 0 || n > 1<<20 {
						return
					}
					if _, err := readFullC19e(c, make([]byte, n)); err != nil {
						return
					}
					if _, err := c.Write([]byte{0, 0, 0, 1, 5}); err != nil { // SSH_AGENT_FAILURE
						return
					}
				}
			}()
		}
	}()
	return l, nil
}

func readFullC19e(c net.Conn, b []byte) (int, error) {
	n := 0
	for n < len(b) {
		k, err := c.Read(b[n:])
		n += k
		if err != nil {
			return n, err
		}
	}
	return n, nil
}

// newC19eScene builds the scene number `id` under root.  planted(i) says whether decoy place i gets a decoy;
// preload fills a fresh keyring (designated or decoy) with its earlier content.
func newC19eScene(root string, id int, situation string, planted func(i int) bool, preload func(kr agent.Agent, designated bool)) (*c19eScene, error) {
	sc := &c19eScene{root: filepath.Join(root, fmt.Sprintf("s%d", id)), situation: situation, saved: map[string]*string{}}
	sc.tmp, sc.home, sc.xdg = filepath.Join(sc.root, "t"), filepath.Join(sc.root, "h"), filepath.Join(sc.root, "x")
	for _, d := range []string{sc.tmp, sc.home, sc.xdg, filepath.Join(sc.root, "a"), filepath.Join(sc.home, ".ssh")} {
		if err := os.MkdirAll(d, 0700); err != nil {
			return nil, err
		}
	}
	addAgent := func(path, place string, designated bool) error {
		rec := &c19eRec{Agent: agent.NewKeyring()}
		preload(rec.Agent, designated)
		l, err := c19eServe(rec, path)
		if err != nil {
			return fmt.Errorf("%s (%d bytes): %v", path, len(path), err)
		}
		sc.nodes = append(sc.nodes, &c19eNode{path: path, place: place, kind: "agent", designated: designated, rec: rec, before: c19eListing(rec.Agent), l: l})
		return nil
	}
	for i, p := range c19ePlaces {
		if planted(i) {
			if err := addAgent(filepath.Join(sc.root, p.rel), p.place, false); err != nil {
				sc.close()
				return nil, err
			}
		}
	}
	// one more in the machine-wide temporary directory (where ssh-agent binds when TMPDIR is unset)
	if planted(len(c19ePlaces)) && sc.tmp != "/tmp" {
		d := fmt.Sprintf("/tmp/ssh-vc19x%d", os.Getpid())
		if err := os.MkdirAll(d, 0700); err == nil {
			sc.extraDirs = append(sc.extraDirs, d)
			if err := addAgent(filepath.Join(d, fmt.Sprintf("agent.%d", os.Getpid())), "system-tmp-ssh-agent", false); err != nil {
				sc.close()
				return nil, err
			}
		}
	}
	auth := filepath.Join(sc.root, "a", "auth.sock")
	var err error
	switch situation {
	case "valid":
		err = addAgent(auth, "ssh-auth-sock", true)
		sc.authSock = &auth
	case "valid-conventional-path":
		auth = filepath.Join(sc.tmp, "ssh-D3s1gnat3d", "agent.7")
		err = addAgent(auth, "ssh-auth-sock", true)
		sc.authSock = &auth
	case "unset":
	case "empty":
		empty := ""
		sc.authSock = &empty
	case "stale-socket":
		var l net.Listener
		if l, err = net.Listen("unix", auth); err == nil {
			l.(*net.UnixListener).SetUnlinkOnClose(false)
			l.Close()
			sc.nodes = append(sc.nodes, &c19eNode{path: auth, place: "ssh-auth-sock", kind: "stale", designated: true})
		}
		sc.authSock = &auth
	case "missing-path":
		sc.authSock = &auth
	case "regular-file":
		err = ioutil.WriteFile(auth, []byte("not a socket\n"), 0600)
		sc.nodes = append(sc.nodes, &c19eNode{path: auth, place: "ssh-auth-sock", kind: "file", designated: true})
		sc.authSock = &auth
	case "closing-socket", "refusing-socket":
		var l net.Listener
		if l, err = c19eServeDeaf(auth, situation == "refusing-socket"); err == nil {
			sc.nodes = append(sc.nodes, &c19eNode{path: auth, place: "ssh-auth-sock", kind: "deaf", designated: true, l: l})
		}
		sc.authSock = &auth
	case "directory":
		err = os.MkdirAll(auth, 0700)
		sc.nodes = append(sc.nodes, &c19eNode{path: auth, place: "ssh-auth-sock", kind: "dir", designated: true})
		sc.authSock = &auth
	default:
		err = fmt.Errorf("unknown situation %q", situation)
	}
	if err != nil {
		sc.close()
		return nil, err
	}
	set := func(k string, v *string) {
		if old, ok := os.LookupEnv(k); ok {
			o := old
			sc.saved[k] = &o
		} else {
			sc.saved[k] = nil
		}
		if v == nil {
			os.Unsetenv(k)
		} else {
			os.Setenv(k, *v)
		}
	}
	set("SSH_AUTH_SOCK", sc.authSock)
	set("TMPDIR", &sc.tmp)
	set("HOME", &sc.home)
	set("XDG_RUNTIME_DIR", &sc.xdg)
	return sc, nil
}

// close restores the environment, stops the listeners and removes the scene
func (sc *c19eScene) close() {
	for k, v := range sc.saved {
		if v == nil {
			os.Unsetenv(k)
		} else {
			os.Setenv(k, *v)
		}
	}
	sc.saved = map[string]*string{}
	for _, n := range sc.nodes {
		if n.l != nil {
			n.l.Close()
		}
	}
	for _, d := range sc.extraDirs {
		os.RemoveAll(d)
	}
	os.RemoveAll(sc.root)
}

// the agent SSH_AUTH_SOCK names, when there is a working one
func (sc *c19eScene) designatedAgent() *c19eNode {
	for _, n := range sc.nodes {
		if n.designated && n.kind == "agent" {
			return n
		}
	}
	return nil
}

func (sc *c19eScene) coqEnv() string {
	auth := "None"
	if sc.authSock != nil && *sc.authSock != "" {
		auth = "(Some " + coqPacked([]byte(*sc.authSock)) + ")"
	}
	return fmt.Sprintf("(mkEnv %s %s %s %s)", auth, coqPacked([]byte(sc.tmp)), coqPacked([]byte(sc.home)), coqPacked([]byte(sc.xdg)))
}

func (sc *c19eScene) coqWorld() string {
	var parts []string
	for _, n := range sc.nodes {
		nd := map[string]string{"deaf": "NDeaf", "stale": "NStale", "file": "NFile", "dir": "NDir"}[n.kind]
		if n.kind == "agent" {
			nd = "NAgent " + c19eCoqListing(n.before)
		}
		parts = append(parts, fmt.Sprintf("(%s, %s)", coqPacked([]byte(n.path)), nd))
	}
	return "[" + strings.Join(parts, ";\n    ") + "]"
}

// the listing of every agent of the scene now
func (sc *c19eScene) coqObserved() string {
	var parts []string
	for _, n := range sc.nodes {
		if n.kind == "agent" {
			parts = append(parts, fmt.Sprintf("(%s, %s)", coqPacked([]byte(n.path)), c19eCoqListing(c19eListing(n.rec.Agent))))
		}
	}
	return "[" + strings.Join(parts, ";\n    ") + "]"
}

func (sc *c19eScene) describe() string {
	auth := "unset"
	if sc.authSock != nil {
		auth = fmt.Sprintf("%q", *sc.authSock)
	}
	short := func(p string) string {
		if strings.HasPrefix(p, sc.root+"/") {
			return "$R" + p[len(sc.root):]
		}
		return p
	}
	var ds []string
	for _, n := range sc.nodes {
		if !n.designated {
			ds = append(ds, short(n.path))
		}
	}
	return fmt.Sprintf("situation=%s R=%s SSH_AUTH_SOCK=%s TMPDIR=$R/t HOME=$R/h XDG_RUNTIME_DIR=$R/x decoy agents listening at %v", sc.situation, sc.root, short(auth), ds)
}

// the property's own predicate on the scene after an installation of the identity whose certificate blob id is
// newBlob: no agent other than the designated one was given a key or changed
func (sc *c19eScene) oracle(res *verifResult, level string, newBlob string, cs map[string]interface{}) {
	for _, n := range sc.nodes {
		if n.kind != "agent" || n.designated {
			continue
		}
		after := c19eListing(n.rec.Agent)
		adds := n.rec.added()
		gotKey := false
		for _, k := range adds {
			if k.PrivateKey != nil {
				gotKey = true
			}
		}
		for _, e := range after {
			if e.blob == newBlob {
				gotKey = true
			}
		}
		if gotKey {
			res.hit(verifHit{Key: "C19:private-key-to-undesignated-agent:" + sc.situation, Oracle: "the private key reaches only the agent SSH_AUTH_SOCK names (if it works), else only 0600 files", Kind: "input",
				What:     fmt.Sprintf("%s: the agent listening at %s (%s), which SSH_AUTH_SOCK does not name, received the private key and certificate (%d Add calls, %d identities before, %d after); %s", level, n.path, n.place, len(adds), len(n.before), len(after), sc.describe()),
				Case:     cs,
				Observed: map[string]interface{}{"agent": n.path, "place": n.place, "add_calls": len(adds)}})
		} else if !c19eSameListing(n.before, after) {
			res.hit(verifHit{Key: "C19:undesignated-agent-changed:" + sc.situation, Oracle: "an installation leaves every agent that SSH_AUTH_SOCK does not name as it was", Kind: "input",
				What: fmt.Sprintf("%s: the content of the agent at %s (%s) changed (%d identities before, %d after); %s", level, n.path, n.place, len(n.before), len(after), sc.describe()),
				Case: cs, Observed: map[string]interface{}{"agent": n.path, "place": n.place}})
		}
	}
}

// ---------------------------------------------------------------- labels

// a family of labels: the first is the label the client installs under again and again, the others are DIFFERENT
// labels close to it (a prefix, another case, the same with white space added or folded) that share the agent
type c19eLabelFamily struct {
	class  string
	labels []string
}

// classes of label byte strings.  A label is filePrefix + "-" + key type + "-" + user name: both ends come from the
// configuration / the command line / the local account name, nothing restricts their bytes.
func c19eLabelFamilies(rng interface{ Intn(int) int }) []c19eLabelFamily {
	word := func(n int) string {
		const letters = "abcdefghijklmnopqrstuvwxyz"
		b := make([]byte, n)
		for i := range b {
			b[i] = letters[rng.Intn(len(letters))]
		}
		return string(b)
	}
	first, last := word(3+rng.Intn(4)), word(3+rng.Intn(5))
	base := "keymaster-p256-" + first
	ctl := []string{"\x00", "\x01", "\x07", "\x1b[31m", "\x7f", "\x1f"}
	usp := []string{"\u00a0", "\u2003", "\u3000", "\u0085", "\u2028"}
	rnd := make([]byte, 6+rng.Intn(20))
	for i := range rnd {
		rnd[i] = byte(rng.Intn(256))
	}
	long := "keymaster-ed25519-" + strings.Repeat(word(7)+".", 400+rng.Intn(200))
	return []c19eLabelFamily{
		{"plain", []string{base + last, base + last + "2"}},
		{"space", []string{base + " " + last, base + "_" + last, base + last}},
		{"tab", []string{"corp\tsso-rsa-" + first, "corp_sso-rsa-" + first, "corp sso-rsa-" + first}},
		{"newline", []string{base + last + "\n", base + last, base + last + "\r\n"}},
		{"control", []string{base + ctl[rng.Intn(len(ctl))] + last, base + last, base + "_" + last}},
		{"unicode", []string{"keymaster-ed25519-Zo\u00eb\u5c71\u7530" + first, "keymaster-ed25519-Zoe" + first}},
		{"unicode-space", []string{base + usp[rng.Intn(len(usp))] + last, base + " " + last, base + "_" + last}},
		{"long", []string{long, long[:len(long)-1], long + "x"}},
		{"empty", []string{"", " ", "_"}},
		{"prefix", []string{base, base + last, base[:len(base)-1]}},
		{"case", []string{base + last, strings.ToUpper(base + last), strings.Title(base + last)}},
		{"outer-space", []string{" " + base + last + " ", base + last, base + last + " "}},
		{"space-run", []string{base + "  \t " + last, base + " " + last, base + "_" + last}},
		{"bytes", []string{string(rnd), string(rnd) + "\x80", string(rnd[:len(rnd)-1])}},
	}
}
