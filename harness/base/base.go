package verifbase

// Result file, seeds and Coq literal helpers for harnesses that live outside cmd/keymasterd
// (same code as the first part of harness/kmd/common.go).  lib/checks/*.py copies this file into
// the work directory with the package clause rewritten to the package under test.

import (
	"crypto/sha256"
	"encoding/hex"
	"encoding/json"
	"fmt"
	"io/ioutil"
	"math/rand"
	"os"
	"path/filepath"
	"strconv"
	"strings"
	"sync"
	"testing"
)

// ---------------------------------------------------------------- environment

func verifOut() string {
	d := os.Getenv("VERIF_OUT")
	if d == "" {
		d = os.TempDir()
	}
	return d
}

func verifSeed() int64 {
	s, err := strconv.ParseInt(os.Getenv("VERIF_SEED"), 10, 64)
	if err != nil {
		return 1
	}
	return s
}

func verifThorough() bool { return os.Getenv("VERIF_TIER") == "thorough" }

func verifRand() *rand.Rand { return rand.New(rand.NewSource(verifSeed())) }

// ---------------------------------------------------------------- result file

type verifHit struct {
	Key      string      `json:"key"`
	Oracle   string      `json:"oracle"`
	What     string      `json:"what"`
	Kind     string      `json:"kind,omitempty"`
	Case     interface{} `json:"case"`
	Observed interface{} `json:"observed,omitempty"`
	Model    interface{} `json:"model,omitempty"`
}

type verifResult struct {
	mu          sync.Mutex
	Evaluations int                    `json:"evaluations"`
	Distinct    int                    `json:"distinct_nontrivial"`
	Traces      int                    `json:"traces"`
	Rule        string                 `json:"rule"`
	Samples     []interface{}          `json:"samples"`
	Dist        map[string]interface{} `json:"dist"`
	Hits        []verifHit             `json:"oracle_hits"`
	Exhaustive  bool                   `json:"exhaustive"`
	Extra       map[string]interface{} `json:"extra,omitempty"`
	seen        map[string]bool
	counts      map[string]int
}

func newVerifResult(rule string) *verifResult {
	return &verifResult{Rule: rule, Dist: map[string]interface{}{}, seen: map[string]bool{},
		counts: map[string]int{}, Extra: map[string]interface{}{}}
}

// count one evaluation; `projection` identifies the case up to what the property can see;
// nontrivial says whether it reached the interesting branch
func (r *verifResult) eval(projection string, nontrivial bool) {
	r.mu.Lock()
	defer r.mu.Unlock()
	r.Evaluations++
	r.Traces++
	if nontrivial {
		h := sha256.Sum256([]byte(projection))
		k := hex.EncodeToString(h[:8])
		if !r.seen[k] {
			r.seen[k] = true
			r.Distinct++
		}
	}
}

func (r *verifResult) bump(class string) {
	r.mu.Lock()
	r.counts[class]++
	r.mu.Unlock()
}

func (r *verifResult) sample(s interface{}) {
	r.mu.Lock()
	if len(r.Samples) < 8 {
		r.Samples = append(r.Samples, s)
	}
	r.mu.Unlock()
}

func (r *verifResult) hit(h verifHit) {
	r.mu.Lock()
	if len(r.Hits) < 200 {
		r.Hits = append(r.Hits, h)
	}
	r.mu.Unlock()
}

func (r *verifResult) write(t *testing.T, testName string) {
	r.mu.Lock()
	defer r.mu.Unlock()
	for k, v := range r.counts {
		r.Dist[k] = v
	}
	if r.Hits == nil {
		r.Hits = []verifHit{}
	}
	b, err := json.MarshalIndent(r, "", " ")
	if err != nil {
		t.Fatal(err)
	}
	if err := ioutil.WriteFile(filepath.Join(verifOut(), testName+".json"), b, 0644); err != nil {
		t.Fatal(err)
	}
}

// ---------------------------------------------------------------- Coq literals

// seven bytes per primitive 63-bit integer, little endian (decoded by KM.Base.Pack.unpack)
func coqPacked(b []byte) string {
	var sb strings.Builder
	sb.WriteString("(unpack ")
	sb.WriteString(strconv.Itoa(len(b)))
	sb.WriteString(" [")
	for i := 0; i < len(b); i += 7 {
		var w uint64
		for j := 0; j < 7 && i+j < len(b); j++ {
			w |= uint64(b[i+j]) << (8 * uint(j))
		}
		if i > 0 {
			sb.WriteString(";")
		}
		sb.WriteString(strconv.FormatUint(w, 10))
	}
	sb.WriteString("]%uint63)")
	return sb.String()
}

func coqBool(b bool) string {
	if b {
		return "true"
	}
	return "false"
}

func coqZ(v int64) string { return fmt.Sprintf("(%d)%%Z", v) }

const coqCaseHeader = "From Coq Require Import Uint63 List NArith ZArith Bool String.\nFrom KM Require Import Base.Bytes Base.Pack.\nImport ListNotations.\n"

