package admincache

// Overlaid into keymasterd/admincache at check time only (never written under the source tree):
// lets the cmd/keymasterd harness put a controllable clock into the Cache that
// loadVerifyConfigFile built, read its lifetime, and empty it between traces.

import "time"

type verifClock struct{ now func() time.Time }

func (v verifClock) Now() time.Time { return v.now() }

func VerifSetClock(c *Cache, now func() time.Time) {
	c.mu.Lock()
	defer c.mu.Unlock()
	c.clock = verifClock{now}
}

func VerifMaxDuration(c *Cache) time.Duration { return c.maxDuration }

func VerifReset(c *Cache) {
	c.mu.Lock()
	defer c.mu.Unlock()
	c.data = make(map[string]cacheEntry)
}
