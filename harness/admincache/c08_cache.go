package admincache

// C08 — the admin verdict memo, driven in its own package: random and boundary Get/Put traces
// under a controllable clock (the package's own `clock` interface) against Model/AdminCache.v
// (crun), plus a reference oracle in exact arithmetic.

import (
	"crypto/sha256"
	"encoding/hex"
	"encoding/json"
	"fmt"
	"io/ioutil"
	"math/big"
	"math/rand"
	"os"
	"path/filepath"
	"strconv"
	"strings"
	"testing"
	"time"
)

type c08cHit struct {
	Key      string      `json:"key"`
	Oracle   string      `json:"oracle"`
	What     string      `json:"what"`
	Case     interface{} `json:"case"`
	Observed interface{} `json:"observed,omitempty"`
}

type c08cResult struct {
	Evaluations int                    `json:"evaluations"`
	Distinct    int                    `json:"distinct_nontrivial"`
	Traces      int                    `json:"traces"`
	Rule        string                 `json:"rule"`
	Samples     []interface{}          `json:"samples"`
	Dist        map[string]interface{} `json:"dist"`
	Hits        []c08cHit              `json:"oracle_hits"`
	Exhaustive  bool                   `json:"exhaustive"`
}

type c08cClock struct{ t time.Time }

func (c *c08cClock) Now() time.Time { return c.t }

// nanoseconds since Go's zero time, exactly
func c08cNs(t time.Time) *big.Int {
	secs := big.NewInt(t.Unix() + 62135596800)
	secs.Mul(secs, big.NewInt(1000000000))
	return secs.Add(secs, big.NewInt(int64(t.Nanosecond())))
}

func c08cZ(t time.Time) string { return "(" + c08cNs(t).String() + ")%Z" }

type c08cOp struct {
	put   bool
	now   time.Time
	user  int
	admin bool
}

type c08cRef struct {
	admin bool
	ts    time.Time
	set   bool
}

func TestVerif_C08Cache(t *testing.T) {
	seed, err := strconv.ParseInt(os.Getenv("VERIF_SEED"), 10, 64)
	if err != nil {
		seed = 1
	}
	thorough := os.Getenv("VERIF_TIER") == "thorough"
	out := os.Getenv("VERIF_OUT")
	if out == "" {
		out = os.TempDir()
	}
	rng := rand.New(rand.NewSource(seed))
	res := &c08cResult{Rule: "keymasterd/admincache Get/Put under an injected clock = Model.AdminCache.crun; a valid answer is the newest Put for that user and is younger than maxDuration",
		Dist: map[string]interface{}{}, Hits: []c08cHit{}}
	counts := map[string]int{}
	seen := map[string]bool{}
	users := []string{"", "alice", "bob", "Carol", "Alice", "carol"}
	base := time.Date(2026, 10, 1, 12, 0, 0, 0, time.UTC)
	far := time.Date(9000, 1, 1, 0, 0, 0, 0, time.UTC)
	maxds := []time.Duration{5 * time.Minute, 5 * time.Minute, 5 * time.Minute, time.Nanosecond, 0, -time.Second, time.Duration(1<<63 - 1), time.Hour}
	nTraces := 500
	if thorough {
		nTraces = 6000
	}
	var cases, idx []string
	for tr := 0; tr < nTraces; tr++ {
		maxd := maxds[tr%len(maxds)]
		isNil := tr%41 == 40
		clk := &c08cClock{t: base}
		var c *Cache
		if !isNil {
			c = newForTesting(maxd, clk)
		}
		ref := map[int]*c08cRef{}
		n := 2 + rng.Intn(14)
		now := base.Add(time.Duration(rng.Int63n(int64(time.Hour))))
		var ops []c08cOp
		var coqOps, coqOuts, human []string
		lastPut := now
		for i := 0; i < n; i++ {
			// next clock reading: mostly forward, boundaries around the lifetime of the newest Put
			switch k := rng.Intn(16); {
			case k < 4:
				now = now.Add(time.Duration(rng.Int63n(int64(2 * time.Minute))))
			case k == 4:
				now = lastPut.Add(maxd - 1)
			case k == 5:
				now = lastPut.Add(maxd)
			case k == 6:
				now = lastPut.Add(maxd + 1)
			case k == 7:
				now = now.Add(-time.Duration(rng.Int63n(int64(10 * time.Minute)))) // clock steps back
			case k == 8:
				now = now.Add(time.Duration(rng.Int63n(int64(20 * time.Minute))))
			case k == 9 && tr%7 == 0:
				now = far // more than 292 years away: Sub saturates
			case k == 10 && tr%7 == 0:
				now = base.Add(time.Duration(rng.Int63n(int64(time.Hour))))
			case k == 11 && tr%13 == 0:
				now = time.Time{} // the zero time
			case k == 12:
				now = now.Add(time.Duration(rng.Int63n(1000)))
			default:
				now = now.Add(time.Duration(rng.Int63n(int64(6 * time.Minute))))
			}
			op := c08cOp{put: rng.Intn(5) < 2, now: now, user: rng.Intn(len(users)), admin: rng.Intn(2) == 0}
			ops = append(ops, op)
			clk.t = now
			if op.put {
				c.Put(users[op.user], op.admin)
				lastPut = now
				if !isNil {
					ref[op.user] = &c08cRef{admin: op.admin, ts: now, set: true}
				}
				coqOps = append(coqOps, fmt.Sprintf("CPut %s (nm %d) %v", c08cZ(now), op.user, op.admin))
				coqOuts = append(coqOuts, "OPut")
				human = append(human, fmt.Sprintf("put(%s,%s,%v)", now.Format(time.RFC3339Nano), users[op.user], op.admin))
				counts["put"]++
				continue
			}
			isAdmin, valid := c.Get(users[op.user])
			coqOps = append(coqOps, fmt.Sprintf("CGet %s (nm %d)", c08cZ(now), op.user))
			coqOuts = append(coqOuts, fmt.Sprintf("OGet %v %v", isAdmin, valid))
			human = append(human, fmt.Sprintf("get(%s,%s)=%v,%v", now.Format(time.RFC3339Nano), users[op.user], isAdmin, valid))
			counts["get"]++
			if valid {
				counts["get_valid"]++
			}
			// reference oracle, exact arithmetic
			wantAdmin, wantValid := false, false
			if r := ref[op.user]; r != nil {
				wantAdmin = r.admin
				if !r.ts.IsZero() {
					d := new(big.Int).Sub(c08cNs(now), c08cNs(r.ts))
					wantValid = d.Cmp(big.NewInt(int64(maxd))) < 0
				}
			}
			res.Evaluations++
			h := sha256.Sum256([]byte(fmt.Sprintf("%d|%v|%v|%v|%v", maxd, isNil, valid, isAdmin, ref[op.user] != nil)))
			if k := hex.EncodeToString(h[:8]); valid && !seen[k] {
				seen[k] = true
				res.Distinct++
			}
			if valid && !wantValid {
				res.Hits = append(res.Hits, c08cHit{Key: "C08:cache:valid-beyond-lifetime", Oracle: "Get reports a valid entry that is older than maxDuration (or was never put)",
					What: fmt.Sprintf("maxDuration %v: %s", maxd, strings.Join(human, "; ")), Case: human})
			}
			if valid != wantValid || isAdmin != wantAdmin {
				counts["reference_differs"]++
				if !valid && wantValid || isAdmin != wantAdmin {
					res.Hits = append(res.Hits, c08cHit{Key: "C08:cache:reference", Oracle: "Get differs from the newest Put for that user",
						What: fmt.Sprintf("maxDuration %v: got (%v,%v) want (%v,%v): %s", maxd, isAdmin, valid, wantAdmin, wantValid, strings.Join(human, "; ")), Case: human})
				}
			}
		}
		res.Traces++
		cases = append(cases, fmt.Sprintf("((%d)%%Z, %v, [%s], [%s])", int64(maxd), isNil, strings.Join(coqOps, "; "), strings.Join(coqOuts, "; ")))
		idx = append(idx, fmt.Sprintf("maxDuration=%v nil=%v %s", maxd, isNil, strings.Join(human, "; ")))
		if tr < 3 {
			res.Samples = append(res.Samples, idx[len(idx)-1])
		}
	}
	for k, v := range counts {
		res.Dist["cache_"+k] = v
	}
	var sb strings.Builder
	sb.WriteString("From Coq Require Import List NArith ZArith Bool.\nFrom KM Require Import Base.Cases Model.AdminCache.\nImport ListNotations.\nOpen Scope N_scope.\n")
	{
		// the users of the traces as byte strings (the cache is keyed by the Go string)
		var names []string
		for _, u := range users {
			var bs []string
			for _, c := range []byte(u) {
				bs = append(bs, fmt.Sprint(int(c)))
			}
			names = append(names, "["+strings.Join(bs, "; ")+"]")
		}
		sb.WriteString("Definition nm (k : N) : list N := nth (N.to_nat k) [" + strings.Join(names, "; ") + "] [255].\n")
	}
	sb.WriteString("Definition bad_trace (c : Z * bool * list cop * list cout) : bool := let '(maxd, isnil, ops, outs) := c in negb (couts_eqb (crun maxd (if isnil then None else Some []) ops) outs).\n")
	var parts []string
	for off, k := 0, 0; off < len(cases); off, k = off+500, k+1 {
		end := off + 500
		if end > len(cases) {
			end = len(cases)
		}
		sb.WriteString(fmt.Sprintf("Definition traces_%d : list (Z * bool * list cop * list cout) := [\n %s].\n", k, strings.Join(cases[off:end], ";\n ")))
		parts = append(parts, fmt.Sprintf("mismatches_from bad_trace traces_%d %d", k, off))
	}
	sb.WriteString(fmt.Sprintf("Definition c08_cache_ntraces := %d%%N.\nPrint c08_cache_ntraces.\n", len(cases)))
	sb.WriteString("Definition c08_cache_mismatches := Eval vm_compute in (" + strings.Join(parts, " ++ ") + ").\nPrint c08_cache_mismatches.\n")
	if err := ioutil.WriteFile(filepath.Join(out, "CasesC08Cache.v"), []byte(sb.String()), 0644); err != nil {
		t.Fatal(err)
	}
	ioutil.WriteFile(filepath.Join(out, "CasesC08Cache.idx"), []byte(strings.Join(idx, "\n")), 0644)
	b, _ := json.MarshalIndent(res, "", " ")
	if err := ioutil.WriteFile(filepath.Join(out, "TestVerif_C08Cache.json"), b, 0644); err != nil {
		t.Fatal(err)
	}
}
