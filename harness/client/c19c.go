package main

// C19 (client side): the real setupCerts of cmd/keymaster — signers, pre-connect, password login,
// the four certificate requests, agent insertion or key files — against the real keymasterd
// handlers, which the server harness (cmd/keymasterd, another test binary) serves over TLS.
// A recording RoundTripper keeps every request; the oracle searches the recorded bytes (and their
// base-64 / hex / percent decodings) for the private scalars, primes and seeds of the keys the
// client generated.  File modes under HOME and the agent content are compared with the model.

import (
	"bytes"
	"crypto"
	"crypto/ecdsa"
	"crypto/ed25519"
	"crypto/elliptic"
	"crypto/rand"
	"crypto/rsa"
	"crypto/tls"
	"crypto/x509"
	"encoding/base64"
	"encoding/hex"
	"encoding/json"
	"encoding/pem"
	"fmt"
	"io/ioutil"
	"math/big"
	"net"
	"net/http"
	"net/http/cookiejar"
	"net/http/httputil"
	"net/url"
	"os"
	"path/filepath"
	"regexp"
	"sort"
	"strings"
	"syscall"
	"sync"
	"testing"
	"time"

	"github.com/Cloud-Foundations/golib/pkg/log/testlogger"
	"github.com/Cloud-Foundations/keymaster/lib/client/config"
	"github.com/pquerna/otp/totp"
	"golang.org/x/crypto/ssh"
	"golang.org/x/crypto/ssh/agent"
)

// ---------------------------------------------------------------- recording transport

type c19Req struct {
	method, path, query string
	dump                []byte // request line, headers (incl. cookies) and body as sent
}

type c19Recorder struct {
	inner      http.RoundTripper
	mu         sync.Mutex
	reqs       []c19Req
	afterLogin func() // called once, when the answer to the password login has arrived
}

func (r *c19Recorder) RoundTrip(req *http.Request) (*http.Response, error) {
	dump, err := httputil.DumpRequestOut(req, true)
	if err != nil {
		dump = []byte("DUMP FAILED " + err.Error())
	}
	r.mu.Lock()
	r.reqs = append(r.reqs, c19Req{req.Method, req.URL.Path, req.URL.RawQuery, dump})
	r.mu.Unlock()
	resp, err := r.inner.RoundTrip(req)
	if req.URL.Path == "/api/v0/login" && r.afterLogin != nil {
		f := r.afterLogin
		r.afterLogin = nil
		f()
	}
	return resp, err
}

// ---------------------------------------------------------------- agent that remembers what it was given

type c19Agent struct {
	agent.Agent
	mu    sync.Mutex
	added []agent.AddedKey
}

func (a *c19Agent) Add(k agent.AddedKey) error {
	a.mu.Lock()
	a.added = append(a.added, k)
	a.mu.Unlock()
	return a.Agent.Add(k)
}

func c19ServeAgent(t *testing.T, ag agent.Agent, sock string) net.Listener {
	l, err := net.Listen("unix", sock)
	if err != nil {
		t.Fatal(err)
	}
	go func() {
		for {
			c, err := l.Accept()
			if err != nil {
				return
			}
			go func() {
				agent.ServeAgent(ag, c)
				c.Close()
			}()
		}
	}()
	return l
}

// ---------------------------------------------------------------- needles and haystacks

type c19Secret struct {
	key  int // 0 X509, 1 SshMain, 2 SshEd
	name string
	raw  []byte
}

func c19Trim(b []byte) []byte {
	for len(b) > 1 && b[0] == 0 {
		b = b[1:]
	}
	return b
}

// the secret numbers of a private key as big-endian byte strings (every standard encoding —
// PKCS#1, PKCS#8, SEC1, OpenSSH — contains them verbatim)
func c19Secrets(key int, priv interface{}) []c19Secret {
	var out []c19Secret
	add := func(name string, v *big.Int) {
		if v != nil {
			out = append(out, c19Secret{key, name, c19Trim(v.Bytes())})
		}
	}
	switch k := priv.(type) {
	case *rsa.PrivateKey:
		add("rsa.D", k.D)
		for i, p := range k.Primes {
			add(fmt.Sprintf("rsa.prime%d", i), p)
		}
		add("rsa.Dp", k.Precomputed.Dp)
		add("rsa.Dq", k.Precomputed.Dq)
		add("rsa.Qinv", k.Precomputed.Qinv)
	case *ecdsa.PrivateKey:
		add("ecdsa.D", k.D)
	case ed25519.PrivateKey:
		out = append(out, c19Secret{key, "ed25519.seed", k.Seed()})
	case *ed25519.PrivateKey:
		out = append(out, c19Secret{key, "ed25519.seed", k.Seed()})
	}
	return out
}

func c19PublicMarks(key int, priv interface{}) [][]byte {
	var pub crypto.PublicKey
	switch k := priv.(type) {
	case *rsa.PrivateKey:
		pub = &k.PublicKey
	case *ecdsa.PrivateKey:
		pub = &k.PublicKey
	case ed25519.PrivateKey:
		pub = k.Public()
	case *ed25519.PrivateKey:
		pub = k.Public()
	}
	var out [][]byte
	if der, err := x509.MarshalPKIXPublicKey(pub); err == nil {
		out = append(out, der)
	}
	if sp, err := ssh.NewPublicKey(pub); err == nil {
		out = append(out, sp.Marshal())
	}
	return out
}

func c19IsB64(c byte) bool {
	return c >= 'A' && c <= 'Z' || c >= 'a' && c <= 'z' || c >= '0' && c <= '9' || c == '+' || c == '/' || c == '-' || c == '_'
}

func c19IsHex(c byte) bool {
	return c >= '0' && c <= '9' || c >= 'a' && c <= 'f' || c >= 'A' && c <= 'F'
}

// every view of the recorded bytes in which key material could hide: as sent, percent-decoded,
// and each maximal base-64 / hex run decoded at every alignment (line breaks and padding skipped)
func c19Views(data []byte) [][]byte {
	views := [][]byte{data}
	if u, err := url.QueryUnescape(string(data)); err == nil && u != string(data) {
		views = append(views, []byte(u))
	}
	base := len(views)
	for vi := 0; vi < base; vi++ {
		d := views[vi]
		var run []byte
		flush := func() {
			if len(run) >= 20 {
				std := bytes.NewBuffer(nil)
				for _, c := range run {
					switch c {
					case '-':
						std.WriteByte('+')
					case '_':
						std.WriteByte('/')
					default:
						std.WriteByte(c)
					}
				}
				s := std.Bytes()
				for off := 0; off < 4 && off < len(s); off++ {
					part := s[off:]
					part = part[:len(part)/4*4]
					if dec, err := base64.StdEncoding.DecodeString(string(part)); err == nil && len(dec) > 0 {
						views = append(views, dec)
					}
				}
			}
			run = run[:0]
		}
		for i := 0; i < len(d); i++ {
			c := d[i]
			switch {
			case c19IsB64(c):
				run = append(run, c)
			case c == '\r' || c == '\n' || c == '=':
				// PEM line breaks and padding do not end a run
			default:
				flush()
			}
		}
		flush()
		var hx []byte
		flushHex := func() {
			if len(hx) >= 32 {
				for off := 0; off < 2; off++ {
					part := hx[off:]
					part = part[:len(part)/2*2]
					if dec, err := hex.DecodeString(string(part)); err == nil {
						views = append(views, dec)
					}
				}
			}
			hx = hx[:0]
		}
		for i := 0; i < len(d); i++ {
			if c19IsHex(d[i]) {
				hx = append(hx, d[i])
			} else if d[i] != ':' && d[i] != ' ' {
				flushHex()
			}
		}
		flushHex()
	}
	return views
}

func c19Contains(views [][]byte, needle []byte) bool {
	if len(needle) < 12 {
		return false
	}
	for _, v := range views {
		if bytes.Contains(v, needle) {
			return true
		}
	}
	return false
}

// ---------------------------------------------------------------- one run

type c19Run struct {
	pref         string
	agentPresent bool
	second       bool
	otp          bool
	web          bool     // web-browser login (lib/client/webauth) with a stored CLI token
	webToken     string   // the CLI token the user's browser obtained
	browserArgs  []string // what the client handed to the browser command
	user         string
	otpCode      string
	err          error
	reqs         []c19Req
	files        []c19File
	labels       []string // labels of the certificates added to the agent in this run
	listing      []c19Listed
	privs        map[int]interface{}
}

type c19File struct {
	rel     string
	mode    os.FileMode
	private bool
}

type c19Listed struct {
	comment string
	cert    bool
	format  string
}

func c19ParsePrivateFile(path string) interface{} {
	b, err := ioutil.ReadFile(path)
	if err != nil {
		return nil
	}
	if k, err := ssh.ParseRawPrivateKey(b); err == nil {
		return k
	}
	if blk, _ := pem.Decode(b); blk != nil {
		if k, err := x509.ParsePKCS8PrivateKey(blk.Bytes); err == nil {
			return k
		}
		if k, err := x509.ParsePKCS1PrivateKey(blk.Bytes); err == nil {
			return k
		}
		if k, err := x509.ParseECPrivateKey(blk.Bytes); err == nil {
			return k
		}
	}
	return nil
}

func c19LooksPrivate(path string) bool {
	b, err := ioutil.ReadFile(path)
	return err == nil && bytes.Contains(b, []byte("PRIVATE KEY"))
}

var c19PrefCode = map[string]int{"rsa": 0, "p256": 1, "p384": 2}

func TestVerif_C19(t *testing.T) {
	res := newVerifResult("the real setupCerts for every key preference (rsa, p256, p384) x agent present (twice in a row, the agent pre-loaded with an old certificate and a plain key under the client's label and a certificate under another label) / absent (key files), against the real keymasterd handlers over TLS (HTTP/2), password login, plus runs against a daemon that asks for a local TOTP code (typed into the prompt when the client asks); every request recorded at the transport; non-trivial = the run obtained its certificates; distinct by (preference, agent, run)")
	defer ioutil.WriteFile(filepath.Join(verifOut(), "c19_client_done"), []byte("done"), 0644)
	// WHICH agent (needs no server: done while the server harness comes up)
	icases, iidx := c19cEnvCases(t, res, testlogger.New(t))
	lcases, lidx := c19cLabelCases(t, res, testlogger.New(t))
	// the server harness writes its address when it is up
	var info map[string]string
	deadline := time.Now().Add(4 * time.Minute)
	for time.Now().Before(deadline) {
		if b, err := ioutil.ReadFile(filepath.Join(verifOut(), "c19_server.json")); err == nil {
			if json.Unmarshal(b, &info) == nil {
				break
			}
		}
		time.Sleep(200 * time.Millisecond)
	}
	if info == nil {
		res.hit(verifHit{Key: "C19:harness:no-server", Oracle: "harness", What: "the server harness did not come up", Case: "setup"})
		res.write(t, "TestVerif_C19")
		t.Fatal("no server")
	}
	logger := testlogger.New(t)
	caFile := filepath.Join(verifOut(), "c19_ca.pem")
	ioutil.WriteFile(caFile, []byte(info["ca_pem"]), 0644)
	rootCAs, err := maybeGetRootCas(caFile, logger)
	if err != nil {
		t.Fatal(err)
	}
	computeUserAgent()
	oldStdin := os.Stdin
	defer func() { os.Stdin = oldStdin }()

	// material for the agent's earlier content
	caKey, _ := ecdsa.GenerateKey(elliptic.P256(), rand.Reader)
	caSigner, _ := ssh.NewSignerFromKey(caKey)
	oldCert := func(priv crypto.Signer) *ssh.Certificate {
		pub, _ := ssh.NewPublicKey(priv.Public())
		c := &ssh.Certificate{Key: pub, Serial: 7, CertType: ssh.UserCert, KeyId: "old", ValidPrincipals: []string{"alice"},
			ValidAfter: uint64(time.Now().Unix() - 3600), ValidBefore: uint64(time.Now().Unix() + 3600)}
		c.SignCert(rand.Reader, caSigner)
		return c
	}

	var totpSecrets, passwords map[string]string
	json.Unmarshal([]byte(info["totp_secrets"]), &totpSecrets)
	json.Unmarshal([]byte(info["passwords"]), &passwords)
	caFileT := filepath.Join(verifOut(), "c19_ca_totp.pem")
	ioutil.WriteFile(caFileT, []byte(info["totp_ca_pem"]), 0644)
	rootCAsT, err := maybeGetRootCas(caFileT, logger)
	if err != nil {
		t.Fatal(err)
	}
	type spec struct {
		pref         string
		agentPresent bool
		otp          bool
		user         string
		web          bool
	}
	var specs []spec
	for _, pref := range []string{"p256", "p384", "rsa"} {
		for _, agentPresent := range []bool{true, false} {
			specs = append(specs, spec{pref, agentPresent, false, info["user"], false})
		}
	}
	// the one-time-code path (each user can pass TOTP once per 30 s window: one run per user)
	specs = append(specs, spec{"p256", false, true, "bob", false})
	// the web-browser login: the user's browser (played by the harness) logs in and shows the CLI token, the token is
	// in the client's token file, the client verifies it, hands the /sendAuthDocument URL to the browser command and
	// receives the cookie on its local listener
	specs = append(specs, spec{"p256", false, false, info["user"], true})
	if verifThorough() {
		specs = append(specs, spec{"p384", true, true, "admin", false}, spec{"rsa", false, true, "alice", false})
		specs = append(specs, spec{"p384", true, false, info["user"], true}, spec{"rsa", false, false, info["user"], true})
	}
	var runs []*c19Run
	origUmask := syscall.Umask(022)
	syscall.Umask(origUmask)
	defer syscall.Umask(origUmask)
	for _, sp := range specs {
		pref, agentPresent := sp.pref, sp.agentPresent
		{
			home, err := ioutil.TempDir("", "verif_c19_home")
			if err != nil {
				t.Fatal(err)
			}
			defer os.RemoveAll(home)
			var ag *c19Agent
			if agentPresent {
				ag = &c19Agent{Agent: agent.NewKeyring()}
				sock := filepath.Join(home, "agent.sock")
				l := c19ServeAgent(t, ag, sock)
				defer l.Close()
				os.Setenv("SSH_AUTH_SOCK", sock)
				// earlier content: an old certificate of the same key type and a plain key under the
				// label the client uses, and a certificate under somebody else's label
				var oldKey crypto.Signer
				switch pref {
				case "rsa":
					oldKey, _ = rsa.GenerateKey(rand.Reader, 2048)
				case "p256":
					oldKey, _ = ecdsa.GenerateKey(elliptic.P256(), rand.Reader)
				default:
					oldKey, _ = ecdsa.GenerateKey(elliptic.P384(), rand.Reader)
				}
				label := "keymaster-" + pref + "-" + sp.user
				ag.Agent.Add(agent.AddedKey{PrivateKey: oldKey, Certificate: oldCert(oldKey), Comment: label})
				plain, _ := ecdsa.GenerateKey(elliptic.P256(), rand.Reader)
				ag.Agent.Add(agent.AddedKey{PrivateKey: plain, Comment: label})
				other, _ := ecdsa.GenerateKey(elliptic.P256(), rand.Reader)
				ag.Agent.Add(agent.AddedKey{PrivateKey: other, Certificate: oldCert(other), Comment: "somebody-else"})
			} else {
				os.Setenv("SSH_AUTH_SOCK", filepath.Join(home, "no-agent-here.sock"))
			}
			nRuns := 1
			if agentPresent && !sp.otp && !sp.web {
				nRuns = 2
			}
			if !agentPresent && !sp.otp && !sp.web && pref != "rsa" {
				// key files: again into the same HOME, over files that others can read (umask 022), and
				// once more over its own output (umask 077)
				nRuns = 3
			}
			for rn := 0; rn < nRuns; rn++ {
				syscall.Umask(origUmask)
				if !agentPresent && rn > 0 {
					if rn == 1 {
						filepath.Walk(home, func(p string, fi os.FileInfo, err error) error {
							if err == nil && !fi.IsDir() && c19LooksPrivate(p) {
								os.Chmod(p, 0644)
							}
							return nil
						})
						syscall.Umask(022)
					} else {
						syscall.Umask(077)
					}
				}
				run := &c19Run{pref: pref, agentPresent: agentPresent, second: rn == 1, otp: sp.otp, web: sp.web, user: sp.user, privs: map[int]interface{}{}}
				cas, target, password := rootCAs, info["url"], info["password"]
				if sp.otp {
					cas, target, password = rootCAsT, info["totp_url"], passwords[sp.user]
				}
				client, err := getHttpClient(cas, logger)
				if err != nil {
					t.Fatal(err)
				}
				rec := &c19Recorder{inner: client.Transport}
				client.Transport = rec
				pr, pw, _ := os.Pipe()
				pw.WriteString(password + "\n")
				if sp.otp {
					// the code is typed when the client asks for it, i.e. after the login answer
					rec.afterLogin = func() {
						code, err := totp.GenerateCode(totpSecrets[sp.user], time.Now())
						if err != nil {
							t.Error(err)
						}
						run.otpCode = code
						pw.WriteString(code + "\n")
						pw.Close()
					}
				} else {
					pw.Close()
				}
				os.Stdin = pr
				addedBefore := 0
				if ag != nil {
					addedBefore = len(ag.added)
				}
				cfg := config.AppConfigFile{Base: config.BaseConfig{Gen_Cert_URLS: target, PreferredKeyType: pref}}
				var browserDone chan struct{}
				urlFile := filepath.Join(home, keymasterSubdir, "browser-opened")
				if sp.web {
					browser, token, err := c19BrowserLogin(cas, target, sp.user, password)
					if err != nil {
						t.Errorf("web login: %v", err)
						res.hit(verifHit{Key: "C19:harness:web-login", Oracle: "harness", What: "the browser role could not obtain a CLI token: " + err.Error(), Case: pref})
						continue
					}
					run.webToken = token
					os.MkdirAll(filepath.Join(home, keymasterSubdir), 0700)
					ioutil.WriteFile(filepath.Join(home, keymasterSubdir, FilePrefix+".webtoken"), []byte(token+"\n"), 0600)
					script := filepath.Join(home, keymasterSubdir, "browser.sh")
					ioutil.WriteFile(script, []byte("#!/bin/sh\nprintf '%s\\n' \"$@\" >> '"+urlFile+"'\n"), 0700)
					cfg.Base.WebauthBrowser = script
					browserDone = make(chan struct{})
					go c19BrowserOpen(browser, urlFile, browserDone)
				}
				run.err = setupCerts(sp.user, home, cfg, client, logger)
				if browserDone != nil {
					select {
					case <-browserDone:
					case <-time.After(5 * time.Second):
					}
					if b, err := ioutil.ReadFile(urlFile); err == nil {
						run.browserArgs = strings.Split(strings.TrimSpace(string(b)), "\n")
					}
				}
				pr.Close()
				run.reqs = rec.reqs
				// files
				filepath.Walk(home, func(p string, fi os.FileInfo, err error) error {
					if err != nil || fi.IsDir() || fi.Mode()&os.ModeSocket != 0 {
						return nil
					}
					rel, _ := filepath.Rel(home, p)
					run.files = append(run.files, c19File{rel, fi.Mode().Perm(), c19LooksPrivate(p)})
					return nil
				})
				sort.Slice(run.files, func(i, j int) bool { return run.files[i].rel < run.files[j].rel })
				// private keys: X509 from its file, SSH keys from the agent's Add calls or from files
				run.privs[0] = c19ParsePrivateFile(filepath.Join(home, ".ssl", "keymaster.key"))
				if ag != nil {
					for _, k := range ag.added[addedBefore:] {
						run.labels = append(run.labels, k.Comment)
						if strings.Contains(k.Comment, "-ed25519-") {
							run.privs[2] = k.PrivateKey
						} else {
							run.privs[1] = k.PrivateKey
						}
					}
					keys, _ := ag.List()
					for _, k := range keys {
						pk, err := ssh.ParsePublicKey(k.Blob)
						isCert := false
						if err == nil {
							_, isCert = pk.(*ssh.Certificate)
						}
						run.listing = append(run.listing, c19Listed{k.Comment, isCert, k.Format})
					}
				} else {
					run.privs[1] = c19ParsePrivateFile(filepath.Join(home, ".ssh", "keymaster-"+pref))
					run.privs[2] = c19ParsePrivateFile(filepath.Join(home, ".ssh", "keymaster-ed25519"))
				}
				runs = append(runs, run)
			}
		}
	}

	// ---------------------------------------------------------------- oracles and Coq cases
	var cases, idx, webcases, webidx []string
	for _, run := range runs {
		name := fmt.Sprintf("pref=%s agent=%v second=%v otp=%v web-login=%v user=%s", run.pref, run.agentPresent, run.second, run.otp, run.web, run.user)
		cs := map[string]interface{}{"preference": run.pref, "agent_present": run.agentPresent, "second_run": run.second, "one_time_code": run.otp, "web_browser_login": run.web, "user": run.user}
		res.bump("run:" + run.pref)
		res.eval(name, run.err == nil)
		if run.err != nil {
			res.hit(verifHit{Key: "C19:offered-refused:" + run.pref + ":client", Oracle: "the client, offering the key type of its preference, does not get its certificates from the server",
				What: fmt.Sprintf("setupCerts with preferred key type %s failed: %v", run.pref, run.err), Case: cs, Observed: fmt.Sprint(run.err)})
		}
		// (1) nothing private on the wire
		var secrets []c19Secret
		for k, p := range run.privs {
			if p != nil {
				secrets = append(secrets, c19Secrets(k, p)...)
			}
		}
		if run.err == nil && (run.privs[0] == nil || run.privs[1] == nil) {
			res.hit(verifHit{Key: "C19:harness:no-private-keys", Oracle: "harness", What: "could not recover the private keys the client generated (" + name + ")", Case: cs})
		}
		var wire []string
		var wireDesc []string
		sawPublic := false
		for _, rq := range run.reqs {
			views := c19Views(rq.dump)
			var atoms []string
			pwd := info["password"]
			if run.otp {
				pwd = passwords[run.user]
			}
			if bytes.Contains(rq.dump, []byte(url.QueryEscape(pwd))) && rq.path == "/api/v0/login" {
				atoms = append(atoms, "1%N")
			}
			if rq.path == "/api/v0/TOTPAuth" && run.otpCode != "" && bytes.Contains(rq.dump, []byte("OTP="+run.otpCode)) {
				atoms = append(atoms, "1%N")
			}
			if rq.path == "/verifyAuthToken" && run.webToken != "" && bytes.Contains(rq.dump, []byte(run.webToken)) {
				atoms = append(atoms, "1%N")
			}
			for k := 0; k < 3; k++ {
				p := run.privs[k]
				if p == nil {
					continue
				}
				for _, m := range c19PublicMarks(k, p) {
					if c19Contains(views, m) {
						atoms = append(atoms, fmt.Sprintf("%d%%N", 20+k))
						sawPublic = true
						break
					}
				}
			}
			if run.privs[2] == nil && bytes.Contains(rq.dump, []byte("ssh-ed25519 AAAA")) {
				// the optional Ed25519 request was refused, so the key was installed nowhere: its
				// public half is recognised by its type
				atoms = append(atoms, "22%N")
			}
			for _, s := range secrets {
				if c19Contains(views, s.raw) {
					atoms = append(atoms, fmt.Sprintf("%d%%N", 10+s.key))
					res.hit(verifHit{Key: "C19:private-on-wire:" + rq.path, Oracle: "a request carries private key material", Kind: "input",
						What:     fmt.Sprintf("%s %s carries %s of the client's key %d (%d bytes) (%s)", rq.method, rq.path, s.name, s.key, len(s.raw), name),
						Case:     cs,
						Observed: map[string]interface{}{"request": rq.method + " " + rq.path + "?" + rq.query, "secret": s.name}})
					break
				}
			}
			kind := -1
			switch {
			case rq.method == "GET" && (rq.path == "" || rq.path == "/"):
				kind = 0
			case rq.path == "/api/v0/login":
				kind = 1
			case rq.path == "/api/v0/TOTPAuth":
				kind = 5
			case rq.path == "/verifyAuthToken":
				kind = 6
			case strings.HasPrefix(rq.path, "/certgen/") && rq.query == "type=x509":
				kind = 2
			case strings.HasPrefix(rq.path, "/certgen/") && rq.query == "type=x509-kubernetes":
				kind = 3
			case strings.HasPrefix(rq.path, "/certgen/") && rq.query == "type=ssh":
				kind = 4
			default:
				kind = 9
			}
			wire = append(wire, fmt.Sprintf("(%d%%N, [%s])", kind, strings.Join(atoms, "; ")))
			wireDesc = append(wireDesc, fmt.Sprintf("%s %s?%s{%s}", rq.method, rq.path, rq.query, strings.Join(atoms, ",")))
			res.bump("requests")
		}
		// what the client handed to the browser command (the /sendAuthDocument URL: port, user, token)
		if run.web {
			views := c19Views([]byte(strings.Join(run.browserArgs, "\n")))
			for _, s := range secrets {
				if c19Contains(views, s.raw) {
					res.hit(verifHit{Key: "C19:private-on-wire:browser-command-line", Oracle: "the command line of the browser carries private key material", Kind: "input",
						What: fmt.Sprintf("the browser command was given %s of the client's key %d (%s)", s.name, s.key, name), Case: cs})
					break
				}
			}
			opened := false
			for _, a := range run.browserArgs {
				if strings.Contains(a, "/sendAuthDocument?") && strings.Contains(a, "token="+run.webToken) {
					opened = true
				}
			}
			if run.err == nil && !opened {
				res.hit(verifHit{Key: "C19:harness:browser-not-asked", Oracle: "harness", What: "the web login succeeded although the browser command never received the /sendAuthDocument URL (" + name + ")", Case: cs})
			}
			res.bump("web-login-runs")
		}
		if run.err == nil && !sawPublic {
			res.hit(verifHit{Key: "C19:harness:search-blind", Oracle: "harness", What: "the byte search does not even find the PUBLIC keys in the recorded certificate requests (" + name + ")", Case: cs})
		}
		// (2) private keys only in files readable by the user alone; directories too
		var files []string
		for _, f := range run.files {
			if strings.HasPrefix(f.rel, ".keymaster") {
				continue
			}
			if f.private && f.mode&0077 != 0 {
				res.hit(verifHit{Key: "C19:key-file-mode:" + f.rel, Oracle: "a private key file is readable by others", Kind: "input",
					What: fmt.Sprintf("%s has mode %o (%s)", f.rel, f.mode, name), Case: cs, Observed: fmt.Sprintf("%o", f.mode)})
			}
			files = append(files, fmt.Sprintf("(\"%s\"%%string, %d%%N, %s)", f.rel, int(f.mode), coqBool(f.private)))
		}
		// (3) agent: one certificate per label, earlier plain key and foreign certificate untouched
		edOK, k8sOK := false, false
		for _, f := range run.files {
			if f.rel == ".ssl/keymaster-kubernetes.cert" {
				k8sOK = true
			}
			if f.rel == ".ssh/keymaster-ed25519" {
				edOK = true
			}
		}
		for _, l := range run.labels {
			if strings.Contains(l, "-ed25519-") {
				edOK = true
			}
		}
		if run.agentPresent && run.err == nil {
			count := map[string]int{}
			plainKept, foreignKept := false, false
			for _, e := range run.listing {
				if e.cert {
					count[e.comment]++
				}
				if !e.cert && e.comment == "keymaster-"+run.pref+"-"+run.user {
					plainKept = true
				}
				if e.cert && e.comment == "somebody-else" {
					foreignKept = true
				}
			}
			for _, l := range run.labels {
				if count[l] != 1 {
					res.hit(verifHit{Key: "C19:agent-duplicates:" + run.pref, Oracle: "after the client installed its certificate the agent holds more (or fewer) than one certificate with that label", Kind: "history",
						What: fmt.Sprintf("%d certificates labelled %q in the agent (%s)", count[l], l, name), Case: cs, Observed: fmt.Sprint(run.listing)})
				}
			}
			if !plainKept || !foreignKept {
				res.hit(verifHit{Key: "C19:agent-collateral", Oracle: "installing certificates removed an identity that is not a certificate with the client's label", Kind: "history",
					What: fmt.Sprintf("plain key kept=%v, foreign certificate kept=%v (%s)", plainKept, foreignKept, name), Case: cs})
			}
		}
		var labels []string
		for _, l := range run.labels {
			labels = append(labels, fmt.Sprintf("\"%s\"%%string", l))
		}
		if run.err == nil && run.web {
			webcases = append(webcases, fmt.Sprintf(" (%d%%N, %s, %s, %s, \"%s\"%%string,\n  [%s],\n  [%s],\n  [%s])", c19PrefCode[run.pref], coqBool(run.agentPresent), coqBool(edOK), coqBool(k8sOK), run.user,
				strings.Join(wire, "; "), strings.Join(files, "; "), strings.Join(labels, "; ")))
			webidx = append(webidx, fmt.Sprintf("%d\t%s ed=%v k8s=%v wire=%s browser-args=%d files=%v labels=%v", len(webidx), name, edOK, k8sOK, strings.Join(wireDesc, " "), len(run.browserArgs), run.files, run.labels))
		} else if run.err == nil {
			cases = append(cases, fmt.Sprintf(" (%d%%N, %s, %s, %s, %s, \"%s\"%%string,\n  [%s],\n  [%s],\n  [%s])", c19PrefCode[run.pref], coqBool(run.agentPresent), coqBool(edOK), coqBool(k8sOK), coqBool(run.otp), run.user,
				strings.Join(wire, "; "), strings.Join(files, "; "), strings.Join(labels, "; ")))
			idx = append(idx, fmt.Sprintf("%d\t%s ed=%v k8s=%v wire=%s files=%v labels=%v", len(idx), name, edOK, k8sOK, strings.Join(wireDesc, " "), run.files, run.labels))
		}
		res.sample(map[string]interface{}{"run": name, "requests": wireDesc, "error": fmt.Sprint(run.err)})
	}
	var sb strings.Builder
	sb.WriteString(coqCaseHeader)
	sb.WriteString("From KM Require Import Base.Cases Model.Client Model.ClientEnv Model.ClientLabel.\n")
	sb.WriteString("Definition runs : list (N * bool * bool * bool * bool * string * list (N * list N) * list (string * N * bool) * list string) := [\n" + strings.Join(cases, ";\n") + "\n].\n")
	sb.WriteString("Definition c19_mismatches := Eval vm_compute in mismatches (fun c => negb (run_matches c)) runs.\nPrint c19_mismatches.\n")
	// the property predicate on the observation: private material in a recorded request, or a private file open to others
	sb.WriteString("Definition c19_violating := Eval vm_compute in mismatches (fun c => negb (run_matches c) && run_violates c) runs.\nPrint c19_violating.\n")
	sb.WriteString("Definition webruns : list (N * bool * bool * bool * string * list (N * list N) * list (string * N * bool) * list string) := [\n" + strings.Join(webcases, ";\n") + "\n].\n")
	sb.WriteString("Definition c19w_mismatches := Eval vm_compute in mismatches (fun c => negb (web_run_matches c)) webruns.\nPrint c19w_mismatches.\n")
	sb.WriteString("Definition c19w_violating := Eval vm_compute in mismatches (fun c : N * bool * bool * bool * string * list (N * list N) * list (string * N * bool) * list string => negb (web_run_matches c) && (let '(_, _, _, _, _, wire, files, _) := c in existsb (fun r : N * list N => existsb (fun a => (10 <=? a)%N && (a <=? 12)%N) (snd r)) wire || private_file_open files)) webruns.\nPrint c19w_violating.\n")
	sb.WriteString("Definition c19w_ncases := Eval vm_compute in length webruns.\nPrint c19w_ncases.\n")
	sb.WriteString("Definition icases : list icase := [\n" + strings.Join(icases, ";\n") + "\n].\n")
	sb.WriteString("Definition c19i_bad (c : icase) : bool := negb (icheck c).\n")
	sb.WriteString("Definition c19i_mismatches := Eval vm_compute in mismatches c19i_bad icases.\nPrint c19i_mismatches.\n")
	sb.WriteString("Definition c19i_violating := Eval vm_compute in mismatches (fun c => c19i_bad c && iviolates c) icases.\nPrint c19i_violating.\n")
	sb.WriteString("Definition c19i_violating_mode := Eval vm_compute in mismatches (fun c => c19i_bad c && iviolates_mode c) icases.\nPrint c19i_violating_mode.\n")
	sb.WriteString("Definition c19i_ncases := Eval vm_compute in length icases.\nPrint c19i_ncases.\n")
	sb.WriteString("Definition lcases : list lcase := [\n" + strings.Join(lcases, ";\n") + "\n].\n")
	sb.WriteString("Definition c19l_bad (c : lcase) : bool := negb (lcheck c).\n")
	sb.WriteString("Definition c19l_mismatches := Eval vm_compute in mismatches c19l_bad lcases.\nPrint c19l_mismatches.\n")
	sb.WriteString("Definition c19l_violating := Eval vm_compute in mismatches (fun c => c19l_bad c && lviolates c) lcases.\nPrint c19l_violating.\n")
	sb.WriteString("Definition c19l_ncases := Eval vm_compute in fold_left (fun n (c : lcase) => (n + N.of_nat (length (snd c)))%N) lcases 0%N.\nPrint c19l_ncases.\n")
	sb.WriteString("Definition c19_ncases := Eval vm_compute in length runs.\nPrint c19_ncases.\n")
	if err := ioutil.WriteFile(filepath.Join(verifOut(), "CasesC19.v"), []byte(sb.String()), 0644); err != nil {
		t.Fatal(err)
	}
	ioutil.WriteFile(filepath.Join(verifOut(), "CasesC19.idx"), []byte(strings.Join(idx, "\n")+"\n"), 0644)
	ioutil.WriteFile(filepath.Join(verifOut(), "CasesC19I.idx"), []byte(strings.Join(iidx, "\n")+"\n"), 0644)
	ioutil.WriteFile(filepath.Join(verifOut(), "CasesC19L.idx"), []byte(strings.Join(lidx, "\n")+"\n"), 0644)
	ioutil.WriteFile(filepath.Join(verifOut(), "CasesC19W.idx"), []byte(strings.Join(webidx, "\n")+"\n"), 0644)
	res.write(t, "TestVerif_C19")
}

// ---------------------------------------------------------------- which agent

// the client's real insertSSHCertIntoAgentORWriteToFilesystem in every agent environment situation, decoy agents
// listening where agents conventionally live (harness/base/c19env.go): the private key must be in the agent
// SSH_AUTH_SOCK names when that one works, else in the 0600 key file, and in no other agent.
// Observed: the listing of every agent of the scene and the files under HOME; Coq: Model/ClientEnv.v install_ssh_env.
func c19cEnvCases(t *testing.T, res *verifResult, logger *testlogger.Logger) (cases, idx []string) {
	rng := verifRand()
	root, cleanup, err := c19eRoot()
	if err != nil {
		t.Fatal(err)
	}
	defer cleanup()
	oldUmask := syscall.Umask(022)
	defer syscall.Umask(oldUmask)
	caKey, _ := ecdsa.GenerateKey(elliptic.P256(), rand.Reader)
	caSigner, _ := ssh.NewSignerFromKey(caKey)
	serial := uint64(100)
	mkCert := func(priv crypto.Signer) *ssh.Certificate {
		pub, _ := ssh.NewPublicKey(priv.Public())
		serial++
		c := &ssh.Certificate{Key: pub, Serial: serial, CertType: ssh.UserCert, KeyId: "verif", ValidPrincipals: []string{"alice"},
			ValidAfter: uint64(time.Now().Unix() - 60), ValidBefore: uint64(time.Now().Unix() + 3600)}
		c.SignCert(rand.Reader, caSigner)
		return c
	}
	newKey := func(suffix string) crypto.Signer {
		switch suffix {
		case "p256":
			k, _ := ecdsa.GenerateKey(elliptic.P256(), rand.Reader)
			return k
		case "p384":
			k, _ := ecdsa.GenerateKey(elliptic.P384(), rand.Reader)
			return k
		}
		_, k, _ := ed25519.GenerateKey(rand.Reader)
		return k
	}
	suffixes := []string{"p256", "ed25519", "p384"}
	type plan struct {
		situation string
		all       bool
	}
	var plans []plan
	for _, s := range c19eSituations {
		plans = append(plans, plan{s, true})
	}
	extra := 10
	if verifThorough() {
		extra = 150
	}
	for i := 0; i < extra; i++ {
		plans = append(plans, plan{c19eSituations[rng.Intn(len(c19eSituations))], false})
	}
	user := "alice"
	for id, pl := range plans {
		suffix := suffixes[(id+rng.Intn(2))%len(suffixes)]
		label := FilePrefix + "-" + suffix + "-" + user
		mask := rng.Intn(1 << 11)
		if pl.all {
			mask = 1<<11 - 1
		}
		preload := func(kr agent.Agent, designated bool) {
			k1 := newKey("p256")
			kr.Add(agent.AddedKey{PrivateKey: k1, Certificate: mkCert(k1), Comment: label})
			if designated || rng.Intn(2) == 0 {
				k2 := newKey("p256")
				kr.Add(agent.AddedKey{PrivateKey: k2, Comment: label})
			}
		}
		sc, err := newC19eScene(root, id, pl.situation, func(i int) bool { return mask&(1<<uint(i)) != 0 }, preload)
		if err != nil {
			t.Errorf("scene %d: %v", id, err)
			res.hit(verifHit{Key: "C19:harness:scene", Oracle: "harness", What: "could not build the agent scene: " + err.Error(), Case: pl.situation})
			continue
		}
		keyPath := filepath.Join(sc.home, ".ssh", FilePrefix+"-"+suffix)
		existing := ""
		if id%3 == 1 && sc.designatedAgent() == nil {
			// a key file that others can read is already there (only where the client is going to write it: with a
			// working agent the client does not touch key files, an old one would stay as the harness made it)
			ioutil.WriteFile(keyPath, []byte("an older key file\n"), 0644)
			os.Chmod(keyPath, 0644)
			existing = " existing key file 0644"
		}
		priv := newKey(suffix)
		cert := mkCert(priv)
		world, env, desc := sc.coqWorld(), sc.coqEnv(), sc.describe()+existing
		callErr := insertSSHCertIntoAgentORWriteToFilesystem(ssh.MarshalAuthorizedKey(cert), priv, FilePrefix+"-"+suffix, user, keyPath, false, logger)
		n := c19eEntry{label, c19eBlobID(cert.Marshal()), true}
		cs := map[string]interface{}{"situation": pl.situation, "function": "insertSSHCertIntoAgentORWriteToFilesystem", "key_suffix": suffix, "scene": desc, "reported_error": fmt.Sprint(callErr)}
		sc.oracle(res, "client insertSSHCertIntoAgentORWriteToFilesystem", n.blob, cs)
		des := sc.designatedAgent()
		inDesignated := false
		if des != nil {
			for _, e := range c19eListing(des.rec.Agent) {
				if e == n {
					inDesignated = true
				}
			}
		}
		var files []c19File
		filepath.Walk(sc.home, func(p string, fi os.FileInfo, err error) error {
			if err != nil || fi.IsDir() || fi.Mode()&os.ModeSocket != 0 {
				return nil
			}
			rel, _ := filepath.Rel(sc.home, p)
			files = append(files, c19File{rel, fi.Mode().Perm(), c19LooksPrivate(p)})
			return nil
		})
		sort.Slice(files, func(i, j int) bool { return files[i].rel < files[j].rel })
		inFile := false
		if k := c19ParsePrivateFile(keyPath); k != nil {
			if sg, ok := k.(crypto.Signer); ok {
				inFile = fmt.Sprint(sg.Public()) == fmt.Sprint(priv.Public())
			} else if pk, ok := k.(*ed25519.PrivateKey); ok {
				inFile = fmt.Sprint(pk.Public()) == fmt.Sprint(priv.Public())
			}
		}
		var cfiles []string
		for _, f := range files {
			if f.private && f.mode&0077 != 0 {
				res.hit(verifHit{Key: "C19:key-file-mode:" + f.rel, Oracle: "a private key file is readable by others", Kind: "input",
					What: fmt.Sprintf("%s has mode %o after insertSSHCertIntoAgentORWriteToFilesystem; %s", f.rel, f.mode, desc), Case: cs, Observed: fmt.Sprintf("%o", f.mode)})
			}
			cfiles = append(cfiles, fmt.Sprintf("(\"%s\"%%string, %d%%N, %s)", f.rel, int(f.mode), coqBool(f.private)))
		}
		if callErr != nil {
			t.Errorf("insertSSHCertIntoAgentORWriteToFilesystem: %v (%s)", callErr, desc)
			res.hit(verifHit{Key: "C19:harness:install", Oracle: "harness", What: "insertSSHCertIntoAgentORWriteToFilesystem failed: " + callErr.Error(), Case: cs})
		} else if !inDesignated && !inFile {
			res.hit(verifHit{Key: "C19:key-neither-in-designated-agent-nor-file:" + pl.situation, Oracle: "after a successful installation the private key is in the agent SSH_AUTH_SOCK names or in the 0600 key file", Kind: "input",
				What: fmt.Sprintf("success reported, but the private key is neither in the designated agent (working: %v) nor in %s; %s", des != nil, keyPath, desc), Case: cs})
		}
		cases = append(cases, fmt.Sprintf(" (%s,\n   %s,\n   \"%s\"%%string, \"%s\"%%string, %s,\n   %s,\n   [%s])", env, world, suffix, user, n.coq(), sc.coqObserved(), strings.Join(cfiles, "; ")))
		idx = append(idx, fmt.Sprintf("%d\tinsertSSHCertIntoAgentORWriteToFilesystem key=%s %s -> error=%v in-designated-agent=%v in-key-file=%v files=%v", len(idx), suffix, desc, callErr, inDesignated, inFile, files))
		res.bump("which-agent-client:" + pl.situation)
		res.eval(fmt.Sprintf("which-agent-client|%s|%s|%v", pl.situation, suffix, existing != ""), des == nil)
		sc.close()
	}
	return cases, idx
}

// ---------------------------------------------------------------- labels (client level)

// the client's real insertSSHCertIntoAgentORWriteToFilesystem, run after run into the agent SSH_AUTH_SOCK names, with
// file prefixes / user names that make a label of every class (harness/base/c19env.go c19eLabelFamilies): the label is
// filePrefix + "-" + userName.  Observed: the agent's listing after every run; Coq: Model/ClientLabel.v install_cert.
func c19cLabelCases(t *testing.T, res *verifResult, logger *testlogger.Logger) (cases, idx []string) {
	rng := verifRand()
	root, cleanup, err := c19eRoot()
	if err != nil {
		t.Fatal(err)
	}
	defer cleanup()
	oldSock, hadSock := os.LookupEnv("SSH_AUTH_SOCK")
	defer func() {
		if hadSock {
			os.Setenv("SSH_AUTH_SOCK", oldSock)
		} else {
			os.Unsetenv("SSH_AUTH_SOCK")
		}
	}()
	caKey, _ := ecdsa.GenerateKey(elliptic.P256(), rand.Reader)
	caSigner, _ := ssh.NewSignerFromKey(caKey)
	serial := uint64(5000)
	mkCert := func(priv crypto.Signer) *ssh.Certificate {
		pub, _ := ssh.NewPublicKey(priv.Public())
		serial++
		c := &ssh.Certificate{Key: pub, Serial: serial, CertType: ssh.UserCert, KeyId: "verif", ValidPrincipals: []string{"alice"},
			ValidAfter: uint64(time.Now().Unix() - 60), ValidBefore: uint64(time.Now().Unix() + 3600)}
		c.SignCert(rand.Reader, caSigner)
		return c
	}
	newKey := func(i int) (crypto.Signer, string) {
		switch i % 3 {
		case 0:
			k, _ := ecdsa.GenerateKey(elliptic.P256(), rand.Reader)
			return k, "p256"
		case 1:
			_, k, _ := ed25519.GenerateKey(rand.Reader)
			return k, "ed25519"
		}
		k, _ := ecdsa.GenerateKey(elliptic.P384(), rand.Reader)
		return k, "p384"
	}
	// the label the client builds is filePrefix + "-" + userName: cut the wanted label at its last "-"
	split := func(l string) (string, string) {
		if i := strings.LastIndex(l, "-"); i >= 0 {
			return l[:i], l[i+1:]
		}
		return l, l
	}
	show := func(l string) string {
		if len(l) > 60 {
			return fmt.Sprintf("%q...(%d bytes)", l[:40], len(l))
		}
		return fmt.Sprintf("%q", l)
	}
	rounds := 1
	if verifThorough() {
		rounds = 6
	}
	for round := 0; round < rounds; round++ {
		for fi, fam := range c19eLabelFamilies(rng) {
			if fam.class == "long" && round >= 2 {
				continue // kilobyte labels are repeated in every listing: two rounds of them are enough
			}
			type pair struct{ prefix, user, label string }
			var pairs []pair
			seen := map[string]bool{}
			for _, l := range fam.labels {
				p, u := split(l)
				if seen[p+"-"+u] {
					continue
				}
				seen[p+"-"+u] = true
				pairs = append(pairs, pair{p, u, p + "-" + u})
			}
			kr := agent.NewKeyring()
			sock := filepath.Join(root, fmt.Sprintf("l%d_%d", round, fi), "a.sock")
			lst, err := c19eServe(kr, sock)
			if err != nil {
				t.Errorf("label scene: %v", err)
				res.hit(verifHit{Key: "C19:harness:scene", Oracle: "harness", What: "could not serve the agent of a label scene: " + err.Error(), Case: fam.class})
				continue
			}
			os.Setenv("SSH_AUTH_SOCK", sock)
			home := filepath.Join(root, fmt.Sprintf("l%d_%d", round, fi), "h")
			os.MkdirAll(filepath.Join(home, ".ssh"), 0700)
			// somebody else's identities: a plain key under the label, certificates under the neighbouring labels
			fk, _ := newKey(fi)
			kr.Add(agent.AddedKey{PrivateKey: fk, Comment: pairs[0].label})
			for _, nb := range pairs[1:] {
				k, _ := newKey(fi + 1)
				kr.Add(agent.AddedKey{PrivateKey: k, Certificate: mkCert(k), Comment: nb.label})
			}
			start := c19eListing(kr)
			plan := []int{0, 0}
			if len(pairs) > 1 {
				plan = append(plan, 1)
			}
			plan = append(plan, 0)
			type installed struct {
				label int
				blob  string
			}
			var earlier []installed
			var steps, descs []string
			for si, li := range plan {
				pr := pairs[li]
				priv, kind := newKey(fi + si + round)
				cert := mkCert(priv)
				before := c19eListing(kr)
				callErr := insertSSHCertIntoAgentORWriteToFilesystem(ssh.MarshalAuthorizedKey(cert), priv, pr.prefix, pr.user, filepath.Join(home, ".ssh", "key"), false, logger)
				blob := c19eBlobID(cert.Marshal())
				after := c19eListing(kr)
				descs = append(descs, fmt.Sprintf("run %d: %s key, filePrefix %s userName %s -> %d entries", si+1, kind, show(pr.prefix), show(pr.user), len(after)))
				cs := map[string]interface{}{"label_class": fam.class, "function": "insertSSHCertIntoAgentORWriteToFilesystem", "file_prefix_bytes": fmt.Sprintf("%x", c19Clip(pr.prefix)), "user_name_bytes": fmt.Sprintf("%x", c19Clip(pr.user)), "ops": append([]string(nil), descs...)}
				if callErr != nil {
					t.Errorf("insertSSHCertIntoAgentORWriteToFilesystem under %s: %v", show(pr.label), callErr)
					res.hit(verifHit{Key: "C19:harness:install", Oracle: "harness", What: "insertSSHCertIntoAgentORWriteToFilesystem failed: " + callErr.Error(), Case: cs})
				}
				stale, under, reported := 0, 0, "(not listed)"
				for _, old := range earlier {
					if old.label != li || old.blob == blob {
						continue
					}
					for _, e := range after {
						if e.blob == old.blob {
							stale++
						}
					}
				}
				for _, e := range after {
					if e.cert && e.comment == pr.label {
						under++
					}
					if e.blob == blob {
						reported = e.comment
					}
				}
				if stale > 0 || under > 1 {
					res.hit(verifHit{Key: "C19:agent-label-accumulates:" + fam.class, Oracle: "a certificate installed under a label replaces the ones installed under that label before", Kind: "history",
						What: fmt.Sprintf("after run %d of the client with filePrefix %s and userName %s (label class %s) the agent still holds %d certificate(s) that earlier runs with the same label put there; it reports %d certificate(s) under the label and calls the new one %s",
							si+1, show(pr.prefix), show(pr.user), fam.class, stale, under, show(reported)), Case: cs, Observed: stale})
				} else if callErr == nil && (under != 1 || reported != pr.label) {
					res.hit(verifHit{Key: "C19:agent-label-not-kept:" + fam.class, Oracle: "the certificate is in the agent under the label the client was given", Kind: "history",
						What: fmt.Sprintf("after a run with filePrefix %s and userName %s (label class %s) the agent reports %d certificate(s) under the label and calls the new one %s", show(pr.prefix), show(pr.user), fam.class, under, show(reported)), Case: cs, Observed: reported})
				}
				for _, e := range before {
					if (e.cert && e.comment == pr.label) || e.blob == blob {
						continue
					}
					mine := false
					for _, old := range earlier {
						if old.label == li && old.blob == e.blob {
							mine = true
						}
					}
					found := false
					for _, a := range after {
						if a == e {
							found = true
						}
					}
					if !mine && !found {
						res.hit(verifHit{Key: "C19:agent-label-collateral:" + fam.class, Oracle: "installing a certificate under a label leaves identities under other labels (however close) alone", Kind: "history",
							What: fmt.Sprintf("a run under %s removed or renamed the identity %s (certificate: %v)", show(pr.label), show(e.comment), e.cert), Case: cs})
					}
				}
				earlier = append(earlier, installed{li, blob})
				steps = append(steps, fmt.Sprintf("(%s, %s, %s)", coqPacked([]byte(pr.label)), coqPacked([]byte(blob)), c19eCoqListing(after)))
				res.bump("label-client:" + fam.class)
				res.eval(fmt.Sprintf("label-client|%s|%d|%s|%d", fam.class, li, kind, si), si > 0)
			}
			lst.Close()
			cases = append(cases, fmt.Sprintf(" (%s,\n  [%s])", c19eCoqListing(start), strings.Join(steps, ";\n   ")))
			idx = append(idx, fmt.Sprintf("%d\tlabel class %s, label bytes %x (%d bytes); %s", len(idx), fam.class, c19Clip(pairs[0].label), len(pairs[0].label), strings.Join(descs, " | ")))
		}
	}
	return cases, idx
}

func c19Clip(s string) string {
	if len(s) > 48 {
		return s[:48]
	}
	return s
}

// ---------------------------------------------------------------- the user's browser (web login)

var c19JWTPattern = regexp.MustCompile(`eyJ[A-Za-z0-9_-]+\.[A-Za-z0-9_-]+\.[A-Za-z0-9_-]+`)

// the user logs in to keymasterd in the browser and opens the CLI token page
func c19BrowserLogin(rootCAs *x509.CertPool, target, user, password string) (*http.Client, string, error) {
	jar, _ := cookiejar.New(nil)
	browser := &http.Client{Jar: jar, Timeout: 20 * time.Second, Transport: &http.Transport{TLSClientConfig: &tls.Config{RootCAs: rootCAs}}}
	resp, err := browser.PostForm(target+"/api/v0/login", url.Values{"username": {user}, "password": {password}})
	if err != nil {
		return nil, "", err
	}
	ioutil.ReadAll(resp.Body)
	resp.Body.Close()
	if resp.StatusCode != 200 {
		return nil, "", fmt.Errorf("login answered %d", resp.StatusCode)
	}
	resp, err = browser.Get(target + "/showAuthToken")
	if err != nil {
		return nil, "", err
	}
	body, _ := ioutil.ReadAll(resp.Body)
	resp.Body.Close()
	token := c19JWTPattern.Find(body)
	if resp.StatusCode != 200 || token == nil {
		return nil, "", fmt.Errorf("/showAuthToken answered %d, token found: %v", resp.StatusCode, token != nil)
	}
	return browser, string(token), nil
}

// the browser command was started with a URL: open it (keymasterd redirects to the client's local listener with the
// authentication cookie, the listener redirects to its close-this-tab page)
func c19BrowserOpen(browser *http.Client, urlFile string, done chan struct{}) {
	defer close(done)
	deadline := time.Now().Add(50 * time.Second)
	for time.Now().Before(deadline) {
		if b, err := ioutil.ReadFile(urlFile); err == nil {
			for _, line := range strings.Split(string(b), "\n") {
				if strings.Contains(line, "/sendAuthDocument?") {
					if resp, err := browser.Get(strings.TrimSpace(line)); err == nil {
						ioutil.ReadAll(resp.Body)
						resp.Body.Close()
					}
					return
				}
			}
		}
		time.Sleep(20 * time.Millisecond)
	}
}
