package httpd

// C20 (readers of the history).  The recorder's event loop hands every reader its cached read-out
// (map and slices shared) and later saves that very read-out, so a reader that writes through what
// it was handed changes what is saved.  The readers of the tree are this package's handlers.  Here
// they are driven — every route the package registers (and one it does not) x every query / form
// parameter the package reads x candidate values — interleaved with recorded events, the save and a
// restart of a REAL recorder (eventrecorder.New on a file, its channels, its 5 s save timer).
//
// Routes, parameter names and candidate values are harvested from the package's own source at run
// time (go/parser on the non-test files of the package directory): first arguments of Handle /
// HandleFunc calls; string arguments of FormValue / PostFormValue / Query().Get / Form.Get /
// PostForm.Get / Header.Get and string indices of Form / PostForm / Query(); and as values every
// token-like string literal of the package (map keys and case labels are among them), next to
// "absent", "empty" and junk.
//
//   probe      before a handler runs the harness takes the read-out (the shared value) and a deep
//              copy of it; after the handler returns the shared value, and what the next request is
//              answered with, must equal the copy
//   end to end events, then all requests of a group, then the save timer fires, then a second New() on
//              the file: the file and the restarted recorder hold the events recorded, in order
//
// Nothing of eventrecorder but its exported API is used; the handlers are reached through
// http.DefaultServeMux after one call of StartServer on an ephemeral port.

import (
	"bufio"
	"crypto/x509"
	"crypto/x509/pkix"
	"encoding/gob"
	"fmt"
	"go/ast"
	"go/parser"
	"go/token"
	"io/ioutil"
	"net/http"
	"net/http/httptest"
	"net/url"
	"os"
	"path/filepath"
	"sort"
	"strconv"
	"strings"
	"sync"
	"testing"
	"time"

	"github.com/Cloud-Foundations/golib/pkg/log/testlogger"
	"github.com/Cloud-Foundations/keymaster/eventmon/eventrecorder"
	"golang.org/x/crypto/ssh"
)

// ---------------------------------------------------------------- harvest

type c20hHarvest struct {
	routes []string
	names  []string
	values []string
}

func c20hTokenLike(s string) bool {
	if len(s) == 0 || len(s) > 32 {
		return false
	}
	for _, r := range s {
		if !(r >= 'a' && r <= 'z' || r >= 'A' && r <= 'Z' || r >= '0' && r <= '9' || strings.ContainsRune("_.:/-", r)) {
			return false
		}
	}
	return true
}

func c20hStringLit(e ast.Expr) (string, bool) {
	b, ok := e.(*ast.BasicLit)
	if !ok || b.Kind != token.STRING {
		return "", false
	}
	s, err := strconv.Unquote(b.Value)
	return s, err == nil
}

func c20hHarvestPackage(t *testing.T) c20hHarvest {
	fset := token.NewFileSet()
	files, err := filepath.Glob("*.go")
	if err != nil {
		t.Fatal(err)
	}
	routes, names, values := map[string]bool{}, map[string]bool{}, map[string]bool{}
	getters := map[string]bool{"FormValue": true, "PostFormValue": true, "Get": true, "Has": true}
	holders := map[string]bool{"Form": true, "PostForm": true, "Query": true, "Header": true, "MultipartForm": true, "Value": true}
	for _, f := range files {
		if strings.HasSuffix(f, "_test.go") {
			continue
		}
		af, err := parser.ParseFile(fset, f, nil, 0)
		if err != nil {
			t.Fatal(err)
		}
		ast.Inspect(af, func(n ast.Node) bool {
			switch x := n.(type) {
			case *ast.ImportSpec:
				return false
			case *ast.BasicLit:
				if s, ok := c20hStringLit(x); ok && c20hTokenLike(s) {
					values[s] = true
				}
			case *ast.CallExpr:
				sel, ok := x.Fun.(*ast.SelectorExpr)
				if !ok || len(x.Args) == 0 {
					return true
				}
				s, isLit := c20hStringLit(x.Args[0])
				if !isLit {
					return true
				}
				if sel.Sel.Name == "HandleFunc" || sel.Sel.Name == "Handle" {
					routes[s] = true
				}
				if getters[sel.Sel.Name] {
					if sel.Sel.Name != "Get" && sel.Sel.Name != "Has" {
						names[s] = true
					} else {
						// X.Query().Get / X.Form.Get / X.PostForm.Get / X.Header.Get
						switch h := sel.X.(type) {
						case *ast.CallExpr:
							if hs, ok := h.Fun.(*ast.SelectorExpr); ok && holders[hs.Sel.Name] {
								names[s] = true
							}
						case *ast.SelectorExpr:
							if holders[h.Sel.Name] {
								names[s] = true
							}
						case *ast.Ident:
							// values := req.URL.Query(); values.Get("x") — any Get on a plain identifier
							names[s] = true
						}
					}
				}
			case *ast.IndexExpr:
				if s, ok := c20hStringLit(x.Index); ok {
					switch h := x.X.(type) {
					case *ast.CallExpr:
						if hs, ok := h.Fun.(*ast.SelectorExpr); ok && holders[hs.Sel.Name] {
							names[s] = true
						}
					case *ast.SelectorExpr:
						if holders[h.Sel.Name] {
							names[s] = true
						}
					}
				}
			}
			return true
		})
	}
	var h c20hHarvest
	for s := range routes {
		h.routes = append(h.routes, s)
	}
	for s := range names {
		h.names = append(h.names, s)
	}
	for s := range values {
		if !routes[s] {
			h.values = append(h.values, s)
		}
	}
	sort.Strings(h.routes)
	sort.Strings(h.names)
	sort.Strings(h.values)
	return h
}

// one reader request
type c20hVariant struct {
	route  string
	method string
	query  url.Values
	class  string // no-parameters | harvested-value | empty-value | junk-value | junk-parameter | all-parameters
	header bool   // the parameters also travel as headers
}

func (v c20hVariant) String() string {
	q := v.query.Encode()
	if q != "" {
		q = "?" + q
	}
	return v.method + " " + v.route + q
}

func c20hVariants(h c20hHarvest, maxValues int) []c20hVariant {
	var out []c20hVariant
	routes := append(append([]string(nil), h.routes...), "/verif-no-such-route")
	values := h.values
	if len(values) > maxValues {
		values = values[:maxValues]
	}
	for _, r := range routes {
		out = append(out, c20hVariant{route: r, method: "GET", class: "no-parameters"})
		out = append(out, c20hVariant{route: r, method: "GET", class: "junk-parameter", query: url.Values{"verif-junk": {"1"}}})
		for _, n := range h.names {
			for _, val := range values {
				out = append(out, c20hVariant{route: r, method: "GET", class: "harvested-value", query: url.Values{n: {val}}})
				out = append(out, c20hVariant{route: r, method: "POST", class: "harvested-value", query: url.Values{n: {val}}, header: true})
			}
			out = append(out, c20hVariant{route: r, method: "GET", class: "empty-value", query: url.Values{n: {""}}})
			out = append(out, c20hVariant{route: r, method: "GET", class: "junk-value", query: url.Values{n: {"zz verif junk <&>"}}})
			if len(values) > 1 {
				out = append(out, c20hVariant{route: r, method: "GET", class: "harvested-value", query: url.Values{n: {values[0], values[len(values)-1]}}})
			}
		}
		if len(h.names) > 1 && len(values) > 0 {
			q := url.Values{}
			for i, n := range h.names {
				q.Set(n, values[i%len(values)])
			}
			out = append(out, c20hVariant{route: r, method: "GET", class: "all-parameters", query: q})
		}
	}
	return out
}

// ---------------------------------------------------------------- the server and the recorder behind it

var c20hServe struct {
	mu    sync.Mutex
	proxy *eventrecorder.EventRecorder
}

// run one reader request against the recorder sr (the handlers read the channel out of the
// *EventRecorder they were started with on every request)
func c20hDo(sr *eventrecorder.EventRecorder, v c20hVariant) (int, bool) {
	c20hServe.mu.Lock()
	defer c20hServe.mu.Unlock()
	c20hServe.proxy.RequestEventsChannel = sr.RequestEventsChannel
	var req *http.Request
	if v.method == "POST" {
		req = httptest.NewRequest("POST", v.route, strings.NewReader(v.query.Encode()))
		req.Header.Set("Content-Type", "application/x-www-form-urlencoded")
	} else {
		target := v.route
		if len(v.query) > 0 {
			target += "?" + v.query.Encode()
		}
		req = httptest.NewRequest("GET", target, nil)
	}
	if v.header {
		for n, vals := range v.query {
			req.Header.Set(n, vals[0])
		}
	}
	rr := httptest.NewRecorder()
	done := make(chan struct{})
	go func() {
		defer close(done)
		defer func() { recover() }()
		http.DefaultServeMux.ServeHTTP(rr, req)
	}()
	select {
	case <-done:
		return rr.Code, true
	case <-time.After(10 * time.Second):
		return 0, false
	}
}

func c20hRequest(sr *eventrecorder.EventRecorder) (eventrecorder.EventsMap, bool) {
	reply := make(chan eventrecorder.Events, 1)
	sr.RequestEventsChannel <- reply
	select {
	case ev := <-reply:
		return ev.Events, true
	case <-time.After(5 * time.Second):
		return nil, false
	}
}

func c20hCopy(m eventrecorder.EventsMap) eventrecorder.EventsMap {
	out := make(eventrecorder.EventsMap, len(m))
	for u, l := range m {
		out[u] = append([]eventrecorder.EventType(nil), l...)
	}
	return out
}

func c20hEqual(a, b eventrecorder.EventsMap) bool {
	if len(a) != len(b) {
		return false
	}
	for u, l := range a {
		m, ok := b[u]
		if !ok || len(l) != len(m) {
			return false
		}
		for i := range l {
			if l[i] != m[i] {
				return false
			}
		}
	}
	return true
}

// events told apart by their payload, as in the recorder's own harness: k%5 -> 1 auth with
// AuthType 1000+k, 2 ssh / 3 x509 certificate valid k hours, 4 and 0 SP login with URL .../k; the
// single web login is k = 0.  Users alternate, so every user's list mixes every kind.
func c20hEvent(sr *eventrecorder.EventRecorder, k int, now time.Time) (coq string, user string) {
	user = []string{"alice", "bob"}[k%2]
	u := coqPacked([]byte(user))
	var pending func() int
	switch {
	case k == 0:
		sr.WebLoginChannel <- user
		coq, pending = fmt.Sprintf("LRec (RWeb %s %s)", coqZ(0), u), func() int { return len(sr.WebLoginChannel) }
	case k%5 == 1:
		sr.AuthChannel <- &eventrecorder.AuthInfo{AuthType: uint(1000 + k), Username: user, VIPAuthType: uint8(k % 2)}
		coq, pending = fmt.Sprintf("LRec (RAuth %s %s %d %d)", coqZ(int64(k)), u, 1000+k, k%2), func() int { return len(sr.AuthChannel) }
	case k%5 == 2:
		sr.SshCertChannel <- &ssh.Certificate{ValidPrincipals: []string{user}, ValidBefore: uint64(now.Add(time.Duration(k) * time.Hour).Unix())}
		coq, pending = fmt.Sprintf("LRec (RCert %s %s %d true false)", coqZ(int64(k)), u, k*3600*1000), func() int { return len(sr.SshCertChannel) }
	case k%5 == 3:
		sr.X509CertChannel <- &x509.Certificate{Subject: pkix.Name{CommonName: user}, NotAfter: now.Add(time.Duration(k) * time.Hour)}
		coq, pending = fmt.Sprintf("LRec (RCert %s %s %d false true)", coqZ(int64(k)), u, k*3600*1000), func() int { return len(sr.X509CertChannel) }
	default:
		sp := fmt.Sprintf("https://sp.example/%d", k)
		sr.ServiceProviderLoginChannel <- &eventrecorder.SPLoginInfo{URL: sp, Username: user}
		coq, pending = fmt.Sprintf("LRec (RSP %s %s %s)", coqZ(int64(k)), u, coqPacked([]byte(sp))), func() int { return len(sr.ServiceProviderLoginChannel) }
	}
	for w := 0; w < 2000 && pending() > 0; w++ {
		time.Sleep(time.Millisecond)
	}
	return coq, user
}

func c20hIdentity(e eventrecorder.EventType) int {
	switch {
	case e.WebLogin:
		return 0
	case e.AuthType >= 1000:
		return int(e.AuthType) - 1000
	case e.Ssh || e.X509:
		if e.LifetimeSeconds%3600 == 0 {
			return int(e.LifetimeSeconds / 3600)
		}
		return -1
	case strings.HasPrefix(e.ServiceProviderUrl, "https://sp.example/"):
		var k int
		fmt.Sscanf(e.ServiceProviderUrl, "https://sp.example/%d", &k)
		return k
	}
	return -1
}

func c20hDump(m eventrecorder.EventsMap) (string, map[string][]int) {
	var users []string
	for u := range m {
		users = append(users, u)
	}
	sort.Strings(users)
	ids := map[string][]int{}
	var parts []string
	for _, u := range users {
		var evs []string
		for _, e := range m[u] {
			k := c20hIdentity(e)
			ids[u] = append(ids[u], k)
			evs = append(evs, fmt.Sprintf("(mkEv %s %d %d %s %s %s %s %d)", coqZ(int64(k)), e.AuthType, e.LifetimeSeconds,
				coqPacked([]byte(e.ServiceProviderUrl)), coqBool(e.Ssh), coqBool(e.WebLogin), coqBool(e.X509), e.VIPAuthType))
		}
		parts = append(parts, fmt.Sprintf("(%s, [%s])", coqPacked([]byte(u)), strings.Join(evs, "; ")))
	}
	return "[" + strings.Join(parts, "; ") + "]", ids
}

func c20hSameIDs(a, b map[string][]int) bool {
	for _, u := range []string{"alice", "bob"} {
		if fmt.Sprint(a[u]) != fmt.Sprint(b[u]) {
			return false
		}
	}
	return len(a) <= 2 && len(b) <= 2
}

// ---------------------------------------------------------------- scenarios

type c20hScenario struct {
	name     string
	group    string // route, or "all-routes"
	variants []c20hVariant
	save     bool // wait for the save timer, restart
	segs     []string
	hits     []verifHit
	nreq     int
	err      string
}

const c20hOracle = "a reader of the history leaves it as it was: what the recorder holds, hands to the next reader, saves and comes back with after a restart is the events recorded, in order, whatever requests the activity pages served in between"

func (sc *c20hScenario) run(t *testing.T, file string, res *verifResult) {
	os.Remove(file)
	logger := testlogger.New(t)
	sr, err := eventrecorder.New(file, logger)
	if err != nil {
		sc.err = err.Error()
		return
	}
	now := time.Now()
	k := 0
	sent := map[string][]int{}
	var cur []string
	record := func() {
		coq, user := c20hEvent(sr, k, now)
		sent[user] = append([]int{k}, sent[user]...)
		cur = append(cur, "("+coq+", LNone)")
		k++
	}
	for i := 0; i < 10; i++ {
		record()
	}
	lastEvent := time.Now()
	for _, v := range sc.variants {
		// what the recorder hands out now: the shared value, and a private copy of it
		shared, ok := c20hRequest(sr)
		if !ok {
			sc.err = "the recorder does not answer a history request"
			return
		}
		before := c20hCopy(shared)
		code, returned := c20hDo(sr, v)
		sc.nreq++
		cs := map[string]interface{}{"scenario": sc.name, "request": v.String(), "status": code, "events_recorded": fmt.Sprint(sent)}
		if !returned {
			sc.hits = append(sc.hits, verifHit{Key: "C20:history-reader:request-hangs:" + v.route, Oracle: "a reader request returns", Kind: "history", What: v.String() + " had not returned after 10 s", Case: cs})
			return
		}
		after, ok := c20hRequest(sr)
		if !ok {
			sc.err = "the recorder does not answer a history request"
			return
		}
		coq, ids := c20hDump(after)
		cur = append(cur, "(LRequest, LAnswer "+coq+")")
		res.eval("reader|"+v.route+"|"+v.method+"|"+v.class+"|"+strconv.Itoa(code/100), len(v.query) > 0)
		if !c20hEqual(shared, before) || !c20hEqual(after, before) {
			_, idsBefore := c20hDump(before)
			_, idsShared := c20hDump(shared)
			sc.hits = append(sc.hits, verifHit{Key: "C20:history-changed-by-reader:read-out:" + v.route + ":" + v.class, Oracle: c20hOracle, Kind: "history",
				What: fmt.Sprintf("%s: ten events recorded, then %s (status %d): the read-out the recorder had handed out before the request (and will save) was %v (newest first) and is %v afterwards; the next request is answered with %v", sc.name, v.String(), code, idsBefore, idsShared, ids),
				Case: cs, Observed: idsShared})
			// (probe only) a new event makes the loop drop the damaged read-out, so that the next request
			// starts clean
			if !sc.save {
				record()
				lastEvent = time.Now()
			}
		}
	}
	if !sc.save {
		sc.segs = append(sc.segs, "["+strings.Join(cur, ";\n    ")+"]")
		return
	}
	// the save timer (5 s after the last event)
	deadline := lastEvent.Add(14 * time.Second)
	written := false
	for time.Now().Before(deadline) && !written {
		if st, err := os.Stat(file); err == nil && st.Size() > 0 && time.Since(lastEvent) > 4*time.Second {
			written = true
		} else {
			time.Sleep(50 * time.Millisecond)
		}
	}
	cs := map[string]interface{}{"scenario": sc.name, "group": sc.group, "requests": len(sc.variants), "events_recorded": fmt.Sprint(sent)}
	if !written {
		sc.hits = append(sc.hits, verifHit{Key: "C20:not-saved", Oracle: "the recorder does not save its history after events", Kind: "history", What: sc.name + ": no save within 14 s of the last event", Case: cs})
		return
	}
	time.Sleep(150 * time.Millisecond)
	var reqs []string
	for i, v := range sc.variants {
		if i < 40 {
			reqs = append(reqs, v.String())
		}
	}
	cs["first_requests"] = reqs
	// what is in the file (the format is one gob value of the exported map type)
	var saved eventrecorder.EventsMap
	if f, err := os.Open(file); err == nil {
		err = gob.NewDecoder(bufio.NewReader(f)).Decode(&saved)
		f.Close()
		if err != nil {
			sc.err = "history file: " + err.Error()
			return
		}
	}
	coq, ids := c20hDump(saved)
	cur = append(cur, "(LSave, LFile "+coq+")")
	fileOK := c20hSameIDs(ids, sent)
	if !fileOK {
		sc.hits = append(sc.hits, verifHit{Key: "C20:history-changed-by-reader:saved:" + sc.group, Oracle: c20hOracle, Kind: "history",
			What: fmt.Sprintf("%s: recorded %v (newest first), then %d reader requests (%s ...) before the save timer fired: the file holds %v", sc.name, sent, len(sc.variants), strings.Join(reqs[:c20hMin(3, len(reqs))], ", "), ids), Case: cs, Observed: ids})
	}
	sc.segs = append(sc.segs, "["+strings.Join(cur, ";\n    ")+"]")
	sr2, err := eventrecorder.New(file, logger)
	if err != nil {
		sc.err = "restart: " + err.Error()
		return
	}
	m, ok := c20hRequest(sr2)
	if !ok {
		sc.err = "the restarted recorder does not answer"
		return
	}
	coq, ids = c20hDump(m)
	sc.segs = append(sc.segs, "[(LRequest, LAnswer "+coq+")]")
	if !c20hSameIDs(ids, sent) && fileOK {
		// the file held the recorded events: the loader, not a reader
		sc.hits = append(sc.hits, verifHit{Key: "C20:restart-differs-from-saved-file", Oracle: "a restart comes back with the events the file holds, in order", Kind: "history",
			What: fmt.Sprintf("%s: the file held the recorded events %v (newest first); after a restart the recorder comes back with %v", sc.name, sent, ids), Case: cs, Observed: ids})
	} else if !c20hSameIDs(ids, sent) {
		sc.hits = append(sc.hits, verifHit{Key: "C20:history-changed-by-reader:restart:" + sc.group, Oracle: c20hOracle, Kind: "history",
			What: fmt.Sprintf("%s: recorded %v (newest first), then %d reader requests (%s ...), the save, a restart: the recorder comes back with %v", sc.name, sent, len(sc.variants), strings.Join(reqs[:c20hMin(3, len(reqs))], ", "), ids), Case: cs, Observed: ids})
	}
}

func c20hMin(a, b int) int {
	if a < b {
		return a
	}
	return b
}

func TestVerif_C20H(t *testing.T) {
	res := newVerifResult("readers of the monitoring daemon's history: every route the eventmon/httpd package registers (and an unregistered one) x the query / form / header parameters the package reads x candidate values (token-like string literals of the package, empty, junk, absent), harvested from the package source at run time, served through http.DefaultServeMux against a real recorder (eventrecorder.New, its channels and save timer); before each request the read-out the recorder hands out is deep-copied, afterwards the shared value and the next answer must equal the copy; end to end: ten events of every kind for two users, all requests of a group, the save timer, a restart — file and restarted recorder hold the recorded events in order; non-trivial = a request with parameters")
	h := c20hHarvestPackage(t)
	res.Extra["routes"] = h.routes
	res.Extra["parameter_names"] = h.names
	res.Extra["candidate_values"] = len(h.values)
	if len(h.routes) == 0 {
		t.Fatalf("no route found in the package source")
	}
	c20hServe.proxy = &eventrecorder.EventRecorder{}
	if err := StartServer(0, c20hServe.proxy, nil, true); err != nil {
		t.Fatal(err)
	}
	maxValues := 24
	if verifThorough() {
		maxValues = 80
	}
	all := c20hVariants(h, maxValues)
	dir, err := ioutil.TempDir("", "c20h")
	if err != nil {
		t.Fatal(err)
	}
	defer os.RemoveAll(dir)
	var scs []*c20hScenario
	scs = append(scs, &c20hScenario{name: "probe", group: "all-routes", variants: all})
	scs = append(scs, &c20hScenario{name: "save-after-all-requests", group: "all-routes", variants: all, save: true})
	byRoute := map[string][]c20hVariant{}
	var routes []string
	for _, v := range all {
		if _, ok := byRoute[v.route]; !ok {
			routes = append(routes, v.route)
		}
		byRoute[v.route] = append(byRoute[v.route], v)
	}
	for _, r := range routes {
		scs = append(scs, &c20hScenario{name: "save-after-requests-to " + r, group: r, variants: byRoute[r], save: true})
	}
	if verifThorough() {
		// one life per parameterised request
		n := 0
		for _, v := range all {
			if len(v.query) > 0 && n < 60 {
				scs = append(scs, &c20hScenario{name: "save-after " + v.String(), group: v.route + ":" + v.class, variants: []c20hVariant{v}, save: true})
				n++
			}
		}
	}
	var wg sync.WaitGroup
	for i, sc := range scs {
		wg.Add(1)
		go func(sc *c20hScenario, file string) {
			defer wg.Done()
			sc.run(t, file, res)
		}(sc, filepath.Join(dir, fmt.Sprintf("h_%d.gob", i)))
	}
	wg.Wait()
	var cases, idx []string
	for i, sc := range scs {
		if sc.err != "" {
			t.Errorf("%s: %s", sc.name, sc.err)
		}
		for _, hit := range sc.hits {
			res.hit(hit)
		}
		res.bump("reader_scenarios")
		res.counts["reader_requests"] += sc.nreq
		cases = append(cases, " ["+strings.Join(sc.segs, ";\n   ")+"]")
		idx = append(idx, fmt.Sprintf("%d\t%s: ten events, %d reader requests (group %s), save and restart: %v", i, sc.name, len(sc.variants), sc.group, sc.save))
	}
	var sb strings.Builder
	sb.WriteString(coqCaseHeader)
	sb.WriteString("From KM Require Import Base.Cases Model.Events Model.EventsReaders.\n")
	sb.WriteString("(* per scenario the recorder's lives; a reader request appears as LRequest with the answer the NEXT request got (what the loop holds after the reader ran) *)\n")
	sb.WriteString("Definition scenarios : list (list (list (lop * lobs))) := [\n" + strings.Join(cases, ";\n") + "\n].\n")
	sb.WriteString("Definition c20h_mismatches := Eval vm_compute in mismatches (fun segs => negb (lcheck_segs None 0%Z segs)) scenarios.\nPrint c20h_mismatches.\n")
	sb.WriteString("(* mismatching scenarios whose OBSERVATION violates the property: a read-out, the saved file or the restarted recorder differs from the events recorded *)\n")
	sb.WriteString("Definition c20h_violating := Eval vm_compute in mismatches (fun segs => negb (lcheck_segs None 0%Z segs) && reader_obs_violates segs) scenarios.\nPrint c20h_violating.\n")
	sb.WriteString(fmt.Sprintf("Definition c20h_ncases := %d%%N.\nPrint c20h_ncases.\n", res.counts["reader_requests"]))
	ioutil.WriteFile(filepath.Join(verifOut(), "CasesC20H.v"), []byte(sb.String()), 0644)
	ioutil.WriteFile(filepath.Join(verifOut(), "CasesC20H.idx"), []byte(strings.Join(idx, "\n")+"\n"), 0644)
	res.sample(fmt.Sprintf("routes %v, parameter names %v, %d candidate values, %d requests per pass", h.routes, h.names, len(h.values), len(all)))
	res.write(t, "TestVerif_C20H")
}
