//go:build !cgo

package hid

// Overlaid into github.com/flynn/hid at check time (CGO_ENABLED=0): this machine has no libudev /
// hidraw headers, so the cgo implementation of USB-HID access does not build.  No device is ever
// found; the U2F-device second factor of the client is therefore not exercised.

import "errors"

func Devices() ([]*DeviceInfo, error) { return nil, nil }

func ByPath(path string) (*DeviceInfo, error) { return nil, errors.New("hid: no devices (stub)") }

func (d *DeviceInfo) Open() (Device, error) { return nil, errors.New("hid: no devices (stub)") }
