package main

// A software FIDO U2F token: answers registration requests of the real /u2f/RegisterRequest
// endpoint and produces WebAuthn assertions (with the appid extension, as browsers do for
// U2F-registered keys) for /webauthn/AuthFinish.  Used to build realistic profiles and to
// reach the code after a successful second-factor verification.

import (
	"bytes"
	"crypto/ecdsa"
	"crypto/elliptic"
	"crypto/rand"
	"crypto/sha256"
	"crypto/x509"
	"crypto/x509/pkix"
	"encoding/base64"
	"encoding/binary"
	"encoding/json"
	"math/big"
	"time"

	"github.com/tstranex/u2f"
)

type verifU2FDevice struct {
	key       *ecdsa.PrivateKey
	certDER   []byte
	keyHandle []byte
	counter   uint32
}

func newVerifU2FDevice() *verifU2FDevice {
	key, err := ecdsa.GenerateKey(elliptic.P256(), rand.Reader)
	if err != nil {
		panic(err)
	}
	tmpl := &x509.Certificate{SerialNumber: big.NewInt(7), Subject: pkix.Name{CommonName: "verif soft token"},
		NotBefore: time.Now().Add(-time.Hour), NotAfter: time.Now().Add(24 * 365 * time.Hour)}
	der, err := x509.CreateCertificate(rand.Reader, tmpl, tmpl, &key.PublicKey, key)
	if err != nil {
		panic(err)
	}
	kh := make([]byte, 64)
	rand.Read(kh)
	return &verifU2FDevice{key: key, certDER: der, keyHandle: kh}
}

func (d *verifU2FDevice) pub() []byte {
	return elliptic.Marshal(elliptic.P256(), d.key.PublicKey.X, d.key.PublicKey.Y)
}

func (d *verifU2FDevice) sign(msg []byte) []byte {
	h := sha256.Sum256(msg)
	sig, err := ecdsa.SignASN1(rand.Reader, d.key, h[:])
	if err != nil {
		panic(err)
	}
	return sig
}

func b64u(b []byte) string { return base64.RawURLEncoding.EncodeToString(b) }

// answer a u2f.WebRegisterRequest (the JSON body of GET /u2f/RegisterRequest/<user>)
func (d *verifU2FDevice) register(reqJSON []byte, origin string) ([]byte, error) {
	var req u2f.WebRegisterRequest
	if err := json.Unmarshal(reqJSON, &req); err != nil {
		return nil, err
	}
	clientData, _ := json.Marshal(u2f.ClientData{Typ: "navigator.id.finishEnrollment",
		Challenge: req.RegisterRequests[0].Challenge, Origin: origin})
	appParam := sha256.Sum256([]byte(req.AppID))
	chalParam := sha256.Sum256(clientData)
	var tbs bytes.Buffer
	tbs.WriteByte(0)
	tbs.Write(appParam[:])
	tbs.Write(chalParam[:])
	tbs.Write(d.keyHandle)
	tbs.Write(d.pub())
	var reg bytes.Buffer
	reg.WriteByte(5)
	reg.Write(d.pub())
	reg.WriteByte(byte(len(d.keyHandle)))
	reg.Write(d.keyHandle)
	reg.Write(d.certDER)
	reg.Write(d.sign(tbs.Bytes()))
	return json.Marshal(u2f.RegisterResponse{Version: "U2F_V2", RegistrationData: b64u(reg.Bytes()), ClientData: b64u(clientData)})
}

// a raw registration message as stored in a profile (u2f.Registration.Raw), for fixtures built
// without going through the endpoint
func (d *verifU2FDevice) rawRegistration(appID string) []byte {
	clientData := []byte(`{"typ":"navigator.id.finishEnrollment","challenge":"AAAA","origin":"` + appID + `"}`)
	appParam := sha256.Sum256([]byte(appID))
	chalParam := sha256.Sum256(clientData)
	var tbs bytes.Buffer
	tbs.WriteByte(0)
	tbs.Write(appParam[:])
	tbs.Write(chalParam[:])
	tbs.Write(d.keyHandle)
	tbs.Write(d.pub())
	var reg bytes.Buffer
	reg.WriteByte(5)
	reg.Write(d.pub())
	reg.WriteByte(byte(len(d.keyHandle)))
	reg.Write(d.keyHandle)
	reg.Write(d.certDER)
	reg.Write(d.sign(tbs.Bytes()))
	return reg.Bytes()
}

// a WebAuthn assertion for the given challenge (base64url, as in the options of
// /webauthn/AuthBegin), signed for the U2F appid
func (d *verifU2FDevice) assertion(challenge, origin, appID string) []byte {
	d.counter++
	clientData := []byte(`{"type":"webauthn.get","challenge":"` + challenge + `","origin":"` + origin + `","crossOrigin":false}`)
	rpHash := sha256.Sum256([]byte(appID))
	var ad bytes.Buffer
	ad.Write(rpHash[:])
	ad.WriteByte(0x01) // user present
	var ctr [4]byte
	binary.BigEndian.PutUint32(ctr[:], d.counter)
	ad.Write(ctr[:])
	cdHash := sha256.Sum256(clientData)
	sig := d.sign(append(append([]byte{}, ad.Bytes()...), cdHash[:]...))
	body := map[string]interface{}{
		"id": b64u(d.keyHandle), "rawId": b64u(d.keyHandle), "type": "public-key",
		"response": map[string]interface{}{
			"authenticatorData": b64u(ad.Bytes()), "clientDataJSON": b64u(clientData),
			"signature": b64u(sig), "userHandle": "",
		},
	}
	out, _ := json.Marshal(body)
	return out
}
