package main

// C10 (j): the byte-level FRAMING of an uploaded key.
//
// Every key upload of the corpus, in the form the path takes (the authorized_keys line for ssh, the PEM text
// for x509 / x509-kubernetes / cloud-role, the DER behind the base64url parameter for role / refresh), is sent
// with bytes in front (byte order marks of UTF-8 / UTF-16LE / UTF-16BE / UTF-32LE / UTF-32BE, NUL bytes, a gzip
// magic), bytes behind (a stray byte, NUL, marks), cut to odd and to even lengths (also behind a prefix), and
// really transcoded to UTF-16LE / BE with and without a mark, whole, cut by one byte and with a stray byte -
// under the panic recorder.  Expectation: never a panic / 5xx; a certificate only for the (strong) key whose
// upload was framed.  Whether a path strips a UTF-8 mark / transcodes UTF-16 is OBSERVED per path (three
// probes with well-formed files of a strong key) and handed to the model (Model/KeyFraming.v normalize); the
// parse result of the normalised text comes from the real parser of the path.

import (
	"bytes"
	"crypto"
	"crypto/x509"
	"encoding/base64"
	"encoding/hex"
	"encoding/pem"
	"fmt"
	"unicode/utf16"

	"golang.org/x/crypto/ssh"
)

type c10Framed struct {
	class string // stable shape name
	note  string
	data  []byte
}

// every byte as one UTF-16 code unit (the texts are ASCII; for DER this is "NULs interleaved")
func c10ToUTF16(b []byte, le bool) []byte {
	out := make([]byte, 0, 2*len(b))
	for _, c := range b {
		if le {
			out = append(out, c, 0)
		} else {
			out = append(out, 0, c)
		}
	}
	return out
}

// the longest proper prefix of b whose length has the requested parity
func c10CutTo(b []byte, odd bool) []byte {
	n := len(b) - 1
	if n >= 0 && (n%2 == 1) != odd {
		n--
	}
	if n < 0 {
		n = 0
	}
	return b[:n]
}

func c10Cat(parts ...[]byte) []byte {
	var out []byte
	for _, p := range parts {
		out = append(out, p...)
	}
	return out
}

func c10Framings(body []byte) []c10Framed {
	var out []c10Framed
	add := func(class, note string, d []byte) {
		if len(d) > 0 {
			out = append(out, c10Framed{class, note, d})
		}
	}
	parity := func(n int) string {
		if n%2 == 1 {
			return "odd"
		}
		return "even"
	}
	for _, p := range []struct {
		class string
		b     []byte
	}{
		{"utf8-mark", []byte{0xEF, 0xBB, 0xBF}},
		{"utf32le-mark", []byte{0xFF, 0xFE, 0x00, 0x00}},
		{"utf32be-mark", []byte{0x00, 0x00, 0xFE, 0xFF}},
		{"nul-prefix", []byte{0x00}},
		{"two-nul-prefix", []byte{0x00, 0x00}},
		{"gzip-magic", []byte{0x1F, 0x8B, 0x08}},
	} {
		add(p.class, "in front of the whole upload", c10Cat(p.b, body))
		add(p.class, "in front of the upload cut to an odd length", c10Cat(p.b, c10CutTo(body, true)))
		add(p.class, "in front of the upload cut to an even length", c10Cat(p.b, c10CutTo(body, false)))
	}
	for _, m := range []struct {
		name string
		b    []byte
		le   bool
	}{{"utf16le", []byte{0xFF, 0xFE}, true}, {"utf16be", []byte{0xFE, 0xFF}, false}} {
		odd, even := m.name+"-mark-odd-rest", m.name+"-mark-even-rest"
		t := c10ToUTF16(body, m.le)
		add(m.name+"-mark-"+parity(len(body))+"-rest", "mark in front of the whole upload", c10Cat(m.b, body))
		add(odd, "mark in front of the upload cut to an odd length", c10Cat(m.b, c10CutTo(body, true)))
		add(even, "mark in front of the upload cut to an even length", c10Cat(m.b, c10CutTo(body, false)))
		add(odd, "mark and one byte", c10Cat(m.b, []byte{'A'}))
		add(even, "mark only", m.b)
		add(even, "upload transcoded to "+m.name+", with mark", c10Cat(m.b, t))
		add(odd, "upload transcoded to "+m.name+", with mark, last byte lost", c10Cat(m.b, t[:len(t)-1]))
		add(odd, "upload transcoded to "+m.name+", with mark, one stray byte appended", c10Cat(m.b, t, []byte{'\n'}))
		add(even, "upload transcoded to "+m.name+", with mark, last code unit lost", c10Cat(m.b, t[:len(t)-2]))
		add(m.name+"-unmarked", "upload transcoded to "+m.name+", no mark", t)
		add(m.name+"-unmarked", "upload transcoded to "+m.name+", no mark, last byte lost", t[:len(t)-1])
	}
	add("suffix-byte", "one stray byte behind the upload", c10Cat(body, []byte{'A'}))
	add("suffix-nul", "NUL behind the upload", c10Cat(body, []byte{0}))
	add("suffix-utf8-mark", "UTF-8 mark behind the upload", c10Cat(body, []byte{0xEF, 0xBB, 0xBF}))
	add("suffix-utf16le-mark", "UTF-16LE mark behind the upload", c10Cat(body, []byte{0xFF, 0xFE}))
	add("suffix-utf16be-mark", "UTF-16BE mark behind the upload", c10Cat(body, []byte{0xFE, 0xFF}))
	add("truncated-odd-length", "upload cut to an odd length", c10CutTo(body, true))
	add("truncated-even-length", "upload cut to an even length", c10CutTo(body, false))
	add("truncated-"+parity(len(body)/2)+"-length", "first half of the upload", body[:len(body)/2])
	return out
}

// which normalisations a path performs (observed), as Model/KeyFraming.v normcfg
type c10NormBits struct{ strip8, le16, be16 bool }

// the harness's own reading of such a normaliser; an odd UTF-16 rest is read without its last byte and flagged
func c10NormalizeUpload(bits c10NormBits, up []byte) (text []byte, oddRest bool) {
	dec := func(d []byte, le bool) ([]byte, bool) {
		odd := len(d)%2 == 1
		if odd {
			d = d[:len(d)-1]
		}
		units := make([]uint16, 0, len(d)/2)
		for i := 0; i+1 < len(d); i += 2 {
			if le {
				units = append(units, uint16(d[i])|uint16(d[i+1])<<8)
			} else {
				units = append(units, uint16(d[i])<<8|uint16(d[i+1]))
			}
		}
		return []byte(string(utf16.Decode(units))), odd
	}
	switch {
	case bits.strip8 && bytes.HasPrefix(up, []byte{0xEF, 0xBB, 0xBF}):
		return up[3:], false
	case bits.le16 && bytes.HasPrefix(up, []byte{0xFF, 0xFE}):
		return dec(up[2:], true)
	case bits.be16 && bytes.HasPrefix(up, []byte{0xFE, 0xFF}):
		return dec(up[2:], false)
	}
	return up, false
}

func c10SameKey(a, b crypto.PublicKey) bool {
	if a == nil || b == nil {
		return false
	}
	da, err1 := x509.MarshalPKIXPublicKey(a)
	db, err2 := x509.MarshalPKIXPublicKey(b)
	return err1 == nil && err2 == nil && bytes.Equal(da, db)
}

type c10FrameBase struct {
	desc   string
	body   []byte
	pub    crypto.PublicKey // nil: the base itself is not a key
	strong bool
}

func c10FramingStage(env *verifEnv, res *verifResult, corpus []*c10Key, request c10Requester) (cases, idx []string) {
	byDesc := map[string]*c10Key{}
	for _, k := range corpus {
		byDesc[k.desc] = k
	}
	// the upload of a key in the form the path takes
	form := func(path string, k *c10Key) []byte {
		switch path {
		case "ssh":
			if k.sshLine == "" {
				return nil
			}
			return []byte(k.sshLine)
		case "role", "refresh":
			return k.der
		}
		if k.der == nil {
			return nil
		}
		return []byte(c10Pem(k.der))
	}
	malformed := func(path string) []byte {
		switch path {
		case "ssh":
			return []byte("ssh-rsa AAAAB3NzaC1yc2E verif@harness\n")
		case "role", "refresh":
			return []byte{0x30, 0x03, 0x02, 0x01, 0x00}
		}
		return []byte("-----BEGIN PUBLIC KEY-----\nAAAA\n-----END PUBLIC KEY-----\n")
	}
	send := func(path string, up []byte) *verifObsFraming {
		rr, pan := env.serve(request(path, string(up), string(up), base64.RawURLEncoding.EncodeToString(up)))
		o := &verifObsFraming{code: rr.Code, pan: pan}
		cert := verifParseCertBody(rr.Body.Bytes())
		o.issued = rr.Code == 200 && cert != nil
		if o.issued {
			if cert.x509 != nil {
				o.certKey = cert.x509.PublicKey
			} else if cp, isc := cert.ssh.Key.(ssh.CryptoPublicKey); isc {
				o.certKey = cp.CryptoPublicKey()
			}
		}
		o.class = c10Class(rr.Code, o.issued, pan)
		return o
	}
	// what the real parser of the path makes of a (normalised) text
	parse := func(path string, text []byte) (pub crypto.PublicKey, ok bool) {
		defer func() {
			if p := recover(); p != nil {
				pub, ok = nil, false
			}
		}()
		switch path {
		case "ssh":
			k, userErr, err := getValidSSHPublicKey(string(text))
			if userErr != nil || err != nil || k == nil {
				return nil, false
			}
			if cp, isc := k.(ssh.CryptoPublicKey); isc {
				return cp.CryptoPublicKey(), true
			}
			return nil, false
		case "role", "refresh":
			p, err := x509.ParsePKIXPublicKey(text)
			return p, err == nil
		}
		blk, _ := pem.Decode(text)
		if blk == nil || blk.Type != "PUBLIC KEY" {
			return nil, false
		}
		p, err := x509.ParsePKIXPublicKey(blk.Bytes)
		return p, err == nil
	}
	strongNames := []string{"rsa-2048-e65537", "ecdsa-p256", "rsa-3072-e65537", "ecdsa-p384", "ed25519"}
	weakNames := []string{"rsa-1024-e65537", "ecdsa-p224", "rsa-2047-e65537", "dsa-1024", "rsa-2048-e3"}
	seed := int(verifSeed())
	if seed < 0 {
		seed = -seed
	}
	normObserved := map[string]c10NormBits{}
	for pi, path := range c10Paths {
		// the bases of this path: thorough all, quick one strong and one weak key by seed (every framing class in every seed)
		var bases []c10FrameBase
		pickFrom := func(names []string) {
			var have []c10FrameBase
			for _, n := range names {
				if k := byDesc[n]; k != nil {
					if b := form(path, k); b != nil {
						have = append(have, c10FrameBase{k.desc, b, k.pub, k.strong})
					}
				}
			}
			if len(have) == 0 {
				return
			}
			if verifThorough() {
				bases = append(bases, have...)
			} else {
				bases = append(bases, have[(seed+pi)%len(have)])
			}
		}
		pickFrom(strongNames)
		pickFrom(weakNames)
		if verifThorough() || (seed+pi)%3 == 0 {
			bases = append(bases, c10FrameBase{"malformed-base", malformed(path), nil, false})
		}
		// which normalisations does the path perform?  Well-formed files of a strong key.
		var bits c10NormBits
		if path != "role" && path != "refresh" {
			if k := byDesc["rsa-2048-e65537"]; k != nil {
				if text := form(path, k); text != nil {
					bits.strip8 = send(path, c10Cat([]byte{0xEF, 0xBB, 0xBF}, text)).issued
					bits.le16 = send(path, c10Cat([]byte{0xFF, 0xFE}, c10ToUTF16(text, true))).issued
					bits.be16 = send(path, c10Cat([]byte{0xFE, 0xFF}, c10ToUTF16(text, false))).issued
					res.eval(fmt.Sprintf("framing-probe|%s|%v", path, bits), true)
				}
			}
		}
		normObserved[path] = bits
		for _, b := range bases {
			control := send(path, b.body)
			for _, f := range c10Framings(b.body) {
				o := send(path, f.data)
				text, _ := c10NormalizeUpload(bits, f.data)
				parsed, parsedOK := parse(path, text)
				admissible := parsedOK && c10Strong(parsed)
				res.eval(fmt.Sprintf("framing|%s|%s|%s|%s|%d", path, f.class, f.note, b.desc, o.code), parsedOK || b.pub != nil)
				res.bump("framing:" + path)
				res.bump("framing-class:" + f.class)
				quoted := fmt.Sprintf("%q", f.data)
				if len(quoted) > 240 {
					quoted = quoted[:240] + "..."
				}
				cs := map[string]interface{}{"path": path, "framing": f.class, "framing_detail": f.note, "base_key": b.desc,
					"upload_hex": hex.EncodeToString(f.data), "upload": quoted, "status": o.code}
				if o.pan {
					res.hit(verifHit{Key: "C10:panic:" + path + ":framing-" + f.class, Oracle: "panic",
						What: fmt.Sprintf("path %s panicked on a framed key upload (%s: %s; base %s)", path, f.class, f.note, b.desc), Case: cs})
				}
				if o.issued {
					if !c10Strong(o.certKey) || !b.strong || !c10SameKey(o.certKey, b.pub) {
						res.hit(verifHit{Key: "C10:weak-certified:" + path, Oracle: "a weak or unknown key was certified",
							What:     fmt.Sprintf("path %s issued a certificate for a framed upload (%s: %s) whose key (%s) is weak, absent or not the certified one", path, f.class, f.note, b.desc),
							Case: cs, Observed: o.code})
					}
				} else if o.class == 2 && !o.pan && !admissible && control.class != 2 {
					res.hit(verifHit{Key: "C10:weak-not-client-error:" + path + ":framing-" + f.class, Oracle: "a malformed key is refused with a non-client-error status",
						What: fmt.Sprintf("path %s answers %d for a framed key upload (%s: %s; base %s)", path, o.code, f.class, f.note, b.desc), Case: cs, Observed: o.code})
				}
				cases = append(cases, fmt.Sprintf("(%d, (%s, %s, %s), %s, %s, %d, %s)", c10PathIndex(path), coqBool(bits.strip8), coqBool(bits.le16), coqBool(bits.be16),
					coqPacked(f.data), c10CoqKeyDesc(parsed, parsedOK), o.class, coqBool(o.pan)))
				idx = append(idx, fmt.Sprintf("framing path=%s class=%s detail=%q base=%s status=%d issued=%v panic=%v upload=%s", path, f.class, f.note, b.desc, o.code, o.issued, o.pan, quoted))
			}
		}
	}
	res.Extra["framing_cases"] = len(cases)
	res.Extra["upload_normalisation_observed"] = fmt.Sprintf("%v", normObserved)
	return cases, idx
}

type verifObsFraming struct {
	code        int
	issued, pan bool
	class       int
	certKey     crypto.PublicKey
}
