package main

// C04 — "bound to the server that issued them": the PEER dimension.
//
// A keymaster deployment is a cluster: every member has its own host identity and (here) its own
// signing key, and lists the signer keys of the other members in keymaster_public_keys_filename, so
// each member VERIFIES what the others sign.  What ties a session cookie, a CLI web-auth token and a
// signed storage record to the member that minted it is the iss / aud comparison alone.
//
// Pairs of real instances (A = "this server", B = the peer) are loaded through the real loader
// (YAML file -> loadVerifyConfigFile): host identities keymaster.example / keymaster-b.example, same
// listen address, A lists B's key and B lists A's.  B mints every artefact kind on its real paths,
// each is presented to every consumer of A (and, for the default configurations, the other way
// round).  Then the configuration dimension: every STRING (and []string) field of the configuration
// structs of the CURRENT tree that is empty by default - found by reflection over AppConfigFile -
// is set to the same value on both members (a few candidate values, the first one the loader
// accepts on both) and the matrix is repeated: a setting that becomes part of "this server" is
// exercised without the harness knowing its name.
//
// Oracle (ground truth = which instance minted the artefact, no model, no idpGetIssuer):
//   C04:peer-token-accepted:<artefact kind>:<consumer>[:with-shared-string-knob]
// Correspondence: Model/TokenPeer.v - the model derives each instance's identity itself
// (issuer_of host addr), the sites' observed idpGetIssuer() are compared with it, and every case is
// evaluated against the idp with the MODEL's identity.

import (
	"crypto"
	"crypto/rand"
	"crypto/rsa"
	"crypto/x509"
	"encoding/json"
	"encoding/pem"
	"fmt"
	"io/ioutil"
	"net/url"
	"os"
	"path/filepath"
	"reflect"
	"strings"
	"testing"
	"time"

	"github.com/Cloud-Foundations/golib/pkg/log/nulllogger"
	"github.com/Cloud-Foundations/keymaster/lib/paths"
	"golang.org/x/crypto/ssh"
	"gopkg.in/yaml.v2"
)

const (
	c04HostA = "keymaster.example"
	c04HostB = "keymaster-b.example"
)

// ---------------------------------------------------------------- loading an instance without ending the test

func c04PlainPEM(k crypto.Signer) []byte {
	der, err := x509.MarshalPKCS8PrivateKey(k)
	if err != nil {
		panic(err)
	}
	return pem.EncodeToMemory(&pem.Block{Type: "PRIVATE KEY", Bytes: der})
}

func c04AuthorizedKeyLine(pub crypto.PublicKey) []byte {
	sp, err := ssh.NewPublicKey(pub)
	if err != nil {
		panic(err)
	}
	return ssh.MarshalAuthorizedKey(sp)
}

// like verifSetupSealed, but a refusal (or a panic, or a loader that does not come back) is an answer;
// cfgOut receives the configuration as it was written
func c04TryLoad(t *testing.T, edit func(c *AppConfigFile, dir string), limit time.Duration) (env *verifEnv, err error) {
	defer func() {
		if p := recover(); p != nil {
			env, err = nil, fmt.Errorf("loader panicked: %v", p)
		}
	}()
	material := verifMaterial(t)
	dir, err := ioutil.TempDir("", "verif_km_c04peer")
	if err != nil {
		return nil, err
	}
	t.Cleanup(func() { os.RemoveAll(dir) })
	copyTree(t, material, dir)
	configFilename := filepath.Join(dir, "config.yml")
	raw, err := ioutil.ReadFile(configFilename)
	if err != nil {
		return nil, err
	}
	raw = []byte(strings.ReplaceAll(string(raw), material, dir))
	var cfg AppConfigFile
	if err := yaml.Unmarshal(raw, &cfg); err != nil {
		return nil, err
	}
	cfg.Base.HostIdentity = c04HostA
	cfg.Base.HttpAddress = ":443"
	cfg.Base.AdminAddress = ":6920"
	f, err := os.OpenFile(cfg.Base.HtpasswdFilename, os.O_APPEND|os.O_WRONLY, 0644)
	if err != nil {
		return nil, err
	}
	f.WriteString("\n" + verifHtpasswdLines())
	f.Close()
	edit(&cfg, dir)
	out, err := yaml.Marshal(&cfg)
	if err != nil {
		return nil, fmt.Errorf("yaml.Marshal: %v", err)
	}
	if err := ioutil.WriteFile(configFilename, out, 0640); err != nil {
		return nil, err
	}
	type loaded struct {
		st  *RuntimeState
		err error
	}
	ch := make(chan loaded, 1)
	go func() {
		defer func() {
			if p := recover(); p != nil {
				ch <- loaded{nil, fmt.Errorf("loader panicked: %v", p)}
			}
		}()
		st, err := loadVerifyConfigFile(configFilename, nulllogger.New())
		ch <- loaded{st, err}
	}()
	var l loaded
	select {
	case l = <-ch:
	case <-time.After(limit):
		return nil, fmt.Errorf("timeout: the loader did not return within %v (external resource?)", limit)
	}
	if l.err != nil {
		return nil, fmt.Errorf("loader: %v", l.err)
	}
	state := l.st
	t.Cleanup(func() {
		if state.dbDone != nil {
			close(state.dbDone)
		}
	})
	env = &verifEnv{t: t, dir: dir, configFile: configFilename, passphrase: verifPassphrase, state: state}
	// plaintext key files are loaded at start-up
	select {
	case <-state.SignerIsReady:
	case <-time.After(limit):
		return nil, fmt.Errorf("timeout: signer not ready")
	}
	if state.Signer == nil {
		return nil, fmt.Errorf("no signer after start-up")
	}
	env.finishStartup()
	// every copy into the cache database is driven by the harness: stop the background copier
	if state.dbDone != nil {
		select {
		case state.dbDone <- struct{}{}:
		case <-time.After(limit):
			return nil, fmt.Errorf("timeout: background copier did not stop")
		}
	}
	return env, nil
}

// ---------------------------------------------------------------- configuration by reflection

type c04Knob struct {
	name  string // dotted Go field path below AppConfigFile
	index []int
	list  bool // []string
}

// every exported string / []string field of the configuration structs (recursively, through nested
// and embedded structs; fields the YAML decoder ignores are left out)
func c04StringKnobs() []c04Knob {
	var out []c04Knob
	var walk func(t reflect.Type, idx []int, name string, depth int)
	walk = func(t reflect.Type, idx []int, name string, depth int) {
		if depth > 6 {
			return
		}
		for i := 0; i < t.NumField(); i++ {
			f := t.Field(i)
			if f.PkgPath != "" || f.Tag.Get("yaml") == "-" {
				continue
			}
			fidx := append(append([]int{}, idx...), i)
			fname := f.Name
			if name != "" {
				fname = name + "." + f.Name
			}
			switch {
			case f.Type.Kind() == reflect.String:
				out = append(out, c04Knob{name: fname, index: fidx})
			case f.Type.Kind() == reflect.Slice && f.Type.Elem().Kind() == reflect.String:
				out = append(out, c04Knob{name: fname, index: fidx, list: true})
			case f.Type.Kind() == reflect.Struct:
				walk(f.Type, fidx, fname, depth+1)
			}
		}
	}
	walk(reflect.TypeOf(AppConfigFile{}), nil, "", 0)
	return out
}

func (k c04Knob) isEmpty(c *AppConfigFile) bool {
	return reflect.ValueOf(c).Elem().FieldByIndex(k.index).Len() == 0
}

func (k c04Knob) set(c *AppConfigFile, v string) {
	f := reflect.ValueOf(c).Elem().FieldByIndex(k.index)
	if k.list {
		f.Set(reflect.ValueOf([]string{v}).Convert(f.Type()))
	} else {
		f.SetString(v)
	}
}

func (k c04Knob) effective(st *RuntimeState, v string) bool {
	f := reflect.ValueOf(&st.Config).Elem().FieldByIndex(k.index)
	if k.list {
		return f.Len() == 1 && f.Index(0).String() == v
	}
	return f.String() == v
}

// the reduced matrix of the quick tier presents an artefact to every consumer of its own kind and to
// these consumers of the other kinds
var c04PeerRepresentative = map[string]bool{"session": true, "cliverify": true, "storage": true, "token": true, "userinfo": true}

// values tried for a knob, in this order: an https URL, a host name, a plain word
var c04KnobValues = []string{"https://sso.example", "sso.example", "sso"}

// ---------------------------------------------------------------- the section

type c04Site struct {
	idx       int
	env       *verifEnv
	host      string
	addr      string
	desc      string
	consumers []*c04Consumer
}

type c04PeerCase struct {
	site  int
	tok   int
	term  string
	obs   c04Obs
	label string
	emEnv *verifEnv
}

type c04PeerArtefact struct {
	kind string // session | cli | storage | code | access | id
	raw  string
	note string
}

type c04Peers struct {
	t       *testing.T
	res     *verifResult
	mainKey crypto.Signer
	peerKey crypto.Signer
	sites   []*c04Site
	toks    []*symTok
	tokIdx  map[string]int
	cases   []c04PeerCase
	hitOnce map[string]bool
}

func (env *verifEnv) keyIDOf(pub crypto.PublicKey) int {
	for i, k := range env.state.KeymasterPublicKeys {
		if reflect.DeepEqual(k, pub) {
			return i + 1
		}
	}
	return tokSignerForeignRSA
}

func (ps *c04Peers) intern(raw string, signer int, note string) int {
	key := fmt.Sprintf("%d|%s", signer, raw)
	if i, ok := ps.tokIdx[key]; ok {
		return i
	}
	ps.tokIdx[key] = len(ps.toks)
	ps.toks = append(ps.toks, newSymTok(raw, signer, false, note))
	return len(ps.toks) - 1
}

// the configuration of one member: own host identity, the common listen address, its signer as a
// plaintext key file (loaded at start-up), the other member's key listed as trusted
func (ps *c04Peers) memberEdit(host, addr string, own, other crypto.Signer, more func(c *AppConfigFile)) func(c *AppConfigFile, dir string) {
	return func(c *AppConfigFile, dir string) {
		c04Config(c, dir)
		c.Base.HostIdentity = host
		c.Base.HttpAddress = addr
		c.Base.SSHCAFilename = filepath.Join(dir, "c04_member_signer.pem")
		if err := ioutil.WriteFile(c.Base.SSHCAFilename, c04PlainPEM(own), 0600); err != nil {
			panic(err)
		}
		c.Base.KeymasterPublicKeysFilename = filepath.Join(dir, "c04_cluster_keys")
		if err := ioutil.WriteFile(c.Base.KeymasterPublicKeysFilename, c04AuthorizedKeyLine(other.Public()), 0644); err != nil {
			panic(err)
		}
		if more != nil {
			more(c)
		}
	}
}

func (ps *c04Peers) addSite(env *verifEnv, host, addr, desc string) *c04Site {
	s := &c04Site{idx: len(ps.sites), env: env, host: host, addr: addr, desc: desc}
	saved := c04StorageCol
	s.consumers = env.c04Consumers()
	if saved != 0 {
		c04StorageCol = saved
	}
	ps.sites = append(ps.sites, s)
	return s
}

// a pair (A, B) under one configuration; nil, nil, reason when the loader refuses it on either member
func (ps *c04Peers) pair(addr, desc string, more func(c *AppConfigFile), limit time.Duration) (*c04Site, *c04Site, error) {
	a, err := c04TryLoad(ps.t, ps.memberEdit(c04HostA, addr, ps.mainKey, ps.peerKey, more), limit)
	if err != nil {
		return nil, nil, err
	}
	b, err := c04TryLoad(ps.t, ps.memberEdit(c04HostB, addr, ps.peerKey, ps.mainKey, more), limit)
	if err != nil {
		return nil, nil, err
	}
	return ps.addSite(a, c04HostA, addr, desc+" member A"), ps.addSite(b, c04HostB, addr, desc+" member B"), nil
}

// what an instance mints, on its real paths; an artefact whose path does not work under this
// configuration is left out (full: also the login endpoint and the showAuthToken page)
func (s *c04Site) mint(full bool) []c04PeerArtefact {
	env, st := s.env, s.env.state
	var out []c04PeerArtefact
	who := "minted by " + s.host
	if v, err := st.setNewAuthCookie(nil, "alice", AuthTypePassword); err == nil {
		out = append(out, c04PeerArtefact{"session", v, "peer:session(setNewAuthCookie) " + who})
	}
	if v, err := st.generateAuthJWT("alice"); err == nil {
		out = append(out, c04PeerArtefact{"cli", v, "peer:cli(generateAuthJWT) " + who})
	}
	if full {
		req := verifNewRequest("GET", paths.ShowAuthToken, nil)
		req.AddCookie(env.cookie("alice", AuthTypePassword))
		rr, _ := env.serve(req)
		if m := c04JWTRe.FindString(rr.Body.String()); m != "" {
			out = append(out, c04PeerArtefact{"cli", m, "peer:cli(showAuthToken page) " + who})
		}
	}
	if err := st.UpsertSigned("alice", c04DataType, time.Now().Unix()+5000, "argon2-hash-of-alice-at-"+s.host); err == nil {
		var jws string
		if st.db.QueryRow("select jws_data from expiring_signed_user_data where username=? and type=?", "alice", c04DataType).Scan(&jws) == nil && jws != "" {
			out = append(out, c04PeerArtefact{"storage", jws, "peer:storage(UpsertSigned) " + who})
		}
		st.db.Exec("delete from expiring_signed_user_data where username=? and type=?", "alice", c04DataType)
	}
	if code, _ := env.c04Authorize(s.env.t, "alice", c04ClientA, c04RedirectA, nil); code != "" {
		out = append(out, c04PeerArtefact{"code", code, "peer:code(authorize endpoint) " + who})
		// a second code is redeemed here: ID and access token of this instance
		if code2, _ := env.c04Authorize(s.env.t, "alice", c04ClientA, c04RedirectA, nil); code2 != "" {
			_, idt, act := env.c04Token(url.Values{"grant_type": {"authorization_code"}, "redirect_uri": {c04RedirectA}, "code": {code2}},
				url.QueryEscape(c04ClientA), url.QueryEscape(c04SecretA), true)
			if idt != "" {
				out = append(out, c04PeerArtefact{"access", act, "peer:access(token endpoint) " + who})
				out = append(out, c04PeerArtefact{"id", idt, "peer:id(token endpoint) " + who})
			}
		}
	}
	return out
}

func (ps *c04Peers) run(at *c04Site, raw string, signer crypto.PublicKey, note string, cons *c04Consumer, label string) c04Obs {
	saved := c04Decoy
	c04Decoy = "" // the other store's slot stays empty: the decoy of the main matrix belongs to the main instance
	o, term := cons.run(raw)
	c04Decoy = saved
	ti := ps.intern(raw, at.env.keyIDOf(signer), note)
	ps.cases = append(ps.cases, c04PeerCase{site: at.idx, tok: ti, term: term, obs: o, label: at.desc + ": " + cons.name + " <- " + note + " " + label, emEnv: at.env})
	outcome := "refused"
	if o.ok {
		outcome = "accepted"
	}
	ps.res.eval("peer|"+cons.name+"|"+note+"|"+label+"|"+outcome, true)
	ps.res.bump("peer:" + outcome)
	if !o.ok && (len(o.emitted) > 0 || len(o.cookies) > 0 || o.db0 != o.db1) && !ps.hitOnce["side"+cons.name] {
		ps.hitOnce["side"+cons.name] = true
		ps.res.hit(verifHit{Key: "C04:sideeffect:" + cons.name, Oracle: "a refusing endpoint set a cookie, emitted a token or changed the database",
			What:     fmt.Sprintf("%s refused (%d) a peer's artefact but cookies=%d emitted=%d db %s->%s (%s)", cons.name, o.status, len(o.cookies), len(o.emitted), o.db0, o.db1, note),
			Case:     map[string]interface{}{"site": at.desc, "consumer": cons.name, "token": raw, "note": note, "label": label},
			Observed: map[string]interface{}{"status": o.status, "cookies": o.cookies}})
	}
	return o
}

// everything [from] mints against every consumer of [at]
func (ps *c04Peers) matrix(at, from *c04Site, full bool, knob, value string) {
	shape := ""
	if knob != "" {
		shape = ":with-shared-string-knob"
	}
	arts := from.mint(full)
	kinds := map[string]bool{}
	for _, a := range arts {
		kinds[a.kind] = true
		for _, c := range at.consumers {
			if !full && c.kind != a.kind && !c04PeerRepresentative[c.name] {
				continue // reduced matrix: every consumer of the artefact's own kind, one consumer of every other kind
			}
			label := "peer-matrix"
			if knob != "" {
				label = fmt.Sprintf("peer-matrix [%s=%q on both members]", knob, value)
			}
			o := ps.run(at, a.raw, from.env.state.Signer.Public(), a.note, c, label)
			ps.res.bump("peer-matrix")
			// the statement: session, CLI and storage artefacts are honoured only by the server that
			// issued them; no kind is honoured where another is expected.  Authorization codes are
			// not required to name the server (the token endpoint of any member redeems them), access
			// tokens at userinfo are left to the correspondence.
			if o.ok && !(a.kind == "code" && c.kind == "code") && !(a.kind == "access" && c.kind == "access") {
				key := "C04:peer-token-accepted:" + a.kind + ":" + c.name + shape
				if !ps.hitOnce[key] {
					ps.hitOnce[key] = true
					cfg := "default configuration"
					if knob != "" {
						cfg = fmt.Sprintf("both members configured with %s = %q", knob, value)
					}
					_, claims, _ := tokParse(a.raw)
					ps.res.hit(verifHit{Key: key, Oracle: "an artefact minted by another instance of the deployment (different host identity, trusted signing key) was honoured by this server",
						What: fmt.Sprintf("%s (host identity %s) honoured a %s artefact minted by %s; %s; this server's idpGetIssuer()=%q, the minter's=%q",
							c.name, at.host, a.kind, from.host, cfg, at.env.state.idpGetIssuer(), from.env.state.idpGetIssuer()),
						Case: map[string]interface{}{"consumer": c.name, "consumer_host_identity": at.host, "minter_host_identity": from.host, "listen_address": at.addr,
							"shared_setting": knob, "shared_value": value, "artefact_kind": a.kind, "token": a.raw, "claims": claims, "note": a.note},
						Observed: map[string]interface{}{"status": o.status, "user": o.user, "emitted": o.emitted}})
				}
			}
		}
	}
	for _, k := range []string{"session", "cli", "storage"} {
		if !kinds[k] && !ps.hitOnce["mint"+k+knob] {
			ps.hitOnce["mint"+k+knob] = true
			ps.res.hit(verifHit{Key: "C04:harness:peer-mints-nothing:" + k, Oracle: "harness", What: fmt.Sprintf("%s minted no %s artefact (%s=%q)", from.desc, k, knob, value), Case: knob})
		}
	}
}

// non-vacuity of a pair: each member honours its own artefacts, and honours an artefact signed by
// the OTHER member's key that names itself (the key is trusted: what refuses the peer's artefacts
// is the issuer / audience comparison)
func (ps *c04Peers) sanity(at, other *c04Site) {
	for _, a := range at.mint(false) {
		for _, c := range at.consumers {
			if c.kind != a.kind {
				continue
			}
			o := ps.run(at, a.raw, at.env.state.Signer.Public(), strings.Replace(a.note, "peer:", "own:", 1), c, "own-artefact")
			if !o.ok {
				ps.res.hit(verifHit{Key: "C04:harness:own-consumer-refuses:" + c.name, Oracle: "harness", What: fmt.Sprintf("%s: %s refused a fresh artefact of its own instance (%s): status %d", at.desc, c.name, a.note, o.status), Case: a.note})
			}
			if a.kind == "session" || a.kind == "cli" || a.kind == "storage" {
				_, claims, ok := tokParse(a.raw)
				if !ok {
					continue
				}
				raw := verifSignClaims(other.env.state.Signer, claims)
				o := ps.run(at, raw, other.env.state.Signer.Public(), "own claims of "+at.host+" ("+a.kind+") signed by the key of "+other.host, c, "peer-key-names-this-server")
				if !o.ok {
					ps.res.hit(verifHit{Key: "C04:harness:peer-key-not-trusted:" + c.name, Oracle: "harness", What: fmt.Sprintf("%s: %s refused an artefact naming this server signed by the listed key of %s: status %d", at.desc, c.name, other.host, o.status), Case: a.note})
				}
			}
		}
	}
}

// returns the Coq text of the section (appended to CasesC04.v); writes CasesC04peer.idx and CasesC04sites.idx
func (env *verifEnv) c04PeerSection(t *testing.T, res *verifResult) string {
	start := time.Now()
	peerKey, err := rsa.GenerateKey(rand.Reader, 2048)
	if err != nil {
		t.Fatal(err)
	}
	ps := &c04Peers{t: t, res: res, mainKey: env.state.Signer, peerKey: peerKey, tokIdx: map[string]int{}, hitOnce: map[string]bool{}}
	const limit = 3 * time.Second

	// ---- the default configuration, on both listen-address shapes of idpGetIssuer: full matrix, both directions
	var defaults AppConfigFile // the configuration as member A writes it (the fields the harness itself sets are not empty there)
	for _, addr := range []string{":443", ":8443"} {
		a, b, err := ps.pair(addr, "default configuration, listen address "+addr+",", func(c *AppConfigFile) { defaults = *c }, 20*time.Second)
		if err != nil {
			t.Fatalf("c04 peers: the default pair does not load: %v", err)
		}
		if a.env.keyIDOf(b.env.state.Signer.Public()) >= tokSignerForeignRSA || b.env.keyIDOf(a.env.state.Signer.Public()) >= tokSignerForeignRSA ||
			reflect.DeepEqual(a.env.state.Signer.Public(), b.env.state.Signer.Public()) || a.env.state.HostIdentity == b.env.state.HostIdentity {
			t.Fatalf("c04 peers: the pair is not a cluster of two distinct members trusting each other's keys")
		}
		ps.sanity(a, b)
		ps.sanity(b, a)
		ps.matrix(a, b, true, "", "")
		ps.matrix(b, a, true, "", "")
	}

	// ---- every string setting that is empty by default, shared by both members
	knobs := c04StringKnobs()
	var used, skipped, nonEmpty []string
	knobSeconds := map[string]float64{}
	budget := 75 * time.Second
	if verifThorough() {
		budget = 10 * time.Minute
	}
	for _, k := range knobs {
		k := k
		if !k.isEmpty(&defaults) {
			nonEmpty = append(nonEmpty, k.name)
			continue
		}
		if time.Since(start) > budget {
			skipped = append(skipped, k.name+": time budget of the tier exhausted")
			res.bump("peer-knob:skipped")
			continue
		}
		var reasons []string
		done := false
		knobStart := time.Now()
		for _, v := range c04KnobValues {
			v := v
			tryStart := time.Now()
			a, b, err := ps.pair(":443", fmt.Sprintf("%s=%q on both members,", k.name, v), func(c *AppConfigFile) { k.set(c, v) }, limit)
			if err != nil {
				reasons = append(reasons, fmt.Sprintf("%q: %v", v, err))
				if strings.Contains(err.Error(), "timeout") || time.Since(tryStart) > 1500*time.Millisecond {
					// a loader that waits for something outside the process: another value will not help
					reasons = append(reasons, "slow refusal (external resource): no further value tried")
					break
				}
				continue
			}
			if !k.effective(a.env.state, v) || !k.effective(b.env.state, v) {
				reasons = append(reasons, fmt.Sprintf("%q: the loaded configuration does not carry the value", v))
				continue
			}
			// quick: the reduced matrix for the first value both loaders accept; thorough: every accepted
			// value, the first one with all consumers and the reduced matrix the other way round
			ps.matrix(a, b, verifThorough() && !done, k.name, v)
			if verifThorough() && !done {
				ps.matrix(b, a, false, k.name, v)
			}
			used = append(used, fmt.Sprintf("%s=%s", k.name, v))
			res.bump("peer-knob:exercised")
			done = true
			if !verifThorough() {
				break
			}
		}
		if !done {
			skipped = append(skipped, k.name+": "+strings.Join(reasons, "; "))
			res.bump("peer-knob:skipped")
		}
		knobSeconds[k.name] = float64(time.Since(knobStart).Milliseconds()) / 1000
	}
	res.Extra["peer_string_knobs"] = len(knobs)
	res.Extra["peer_knobs_exercised"] = used
	res.Extra["peer_knobs_skipped"] = skipped
	res.Extra["peer_knobs_not_empty_by_default"] = nonEmpty
	res.Extra["peer_sites"] = len(ps.sites)
	res.Extra["peer_knob_seconds"] = knobSeconds
	res.Extra["peer_cases"] = len(ps.cases)
	res.Extra["peer_section_seconds"] = time.Since(start).Seconds()
	if len(used) == 0 {
		res.hit(verifHit{Key: "C04:harness:no-string-knob-exercised", Oracle: "harness", What: "no string setting could be shared by the two members", Case: skipped})
	}

	// ---- Coq
	var sb strings.Builder
	sb.WriteString("\n(* ---- peer instances (Model/TokenPeer.v) *)\nFrom KM Require Import Model.TokenPeer.\n")
	sb.WriteString("(* every loaded instance: host_identity, http_address, what its idpGetIssuer() returned *)\nDefinition c04_sites : list (bs * bs * bs) := [\n")
	var sidx strings.Builder
	for i, s := range ps.sites {
		sep := ";"
		if i == len(ps.sites)-1 {
			sep = ""
		}
		sb.WriteString(fmt.Sprintf(" (%s, %s, %s)%s\n", coqStr(s.host), coqStr(s.addr), coqStr(s.env.state.idpGetIssuer()), sep))
		sidx.WriteString(fmt.Sprintf("%d\t%s host_identity=%q http_address=%q idpGetIssuer()=%q\n", i, s.desc, s.host, s.addr, s.env.state.idpGetIssuer()))
	}
	sb.WriteString("].\nDefinition c04_issuer_mismatches := Eval vm_compute in mismatches site_bad c04_sites.\nPrint c04_issuer_mismatches.\n")
	sb.WriteString("Definition peer_idps : list idp := [\n")
	for i, s := range ps.sites {
		sep := ";"
		if i == len(ps.sites)-1 {
			sep = ""
		}
		sb.WriteString(fmt.Sprintf(" idp_at %s %s %s\n  (%s)%s\n", coqStr(s.host), coqStr(s.addr), coqStr(idpOpenIDCUserinfoPath), s.env.coqIdp(), sep))
	}
	sb.WriteString("].\nDefinition peer_toks : list token := [\n")
	for i, s := range ps.toks {
		sep := ";"
		if i == len(ps.toks)-1 {
			sep = ""
		}
		sb.WriteString(" " + env.coqToken(s) + sep + "\n")
	}
	sb.WriteString("].\n")
	// sharded: one list literal of tens of thousands of tuples overflows coqc's stack (thorough tier)
	const shard = 1500
	var idx strings.Builder
	var shardNames []string
	for i0 := 0; i0 < len(ps.cases); i0 += shard {
		end := i0 + shard
		if end > len(ps.cases) {
			end = len(ps.cases)
		}
		name := fmt.Sprintf("peer_cases%d", i0/shard)
		shardNames = append(shardNames, name)
		sb.WriteString("Definition " + name + " : list peer_case := [\n")
		for i := i0; i < end; i++ {
			c := ps.cases[i]
			sep := ";"
			if i == end-1 {
				sep = ""
			}
			o := c.obs
			user := "None"
			if o.hasUser {
				user = "Some " + coqStr(o.user)
			}
			var em []string
			for _, e := range o.emitted {
				em = append(em, c.emEnv.coqClaims(newSymTok(e, 0, false, "")))
			}
			sb.WriteString(fmt.Sprintf(" (%d%%nat, (%d%%nat, %s, (%d)%%Z, (%d)%%Z, %s, %s, [%s]))%s\n", c.site, c.tok, c.term, o.t0, o.t1, coqBool(o.ok), user, strings.Join(em, "; "), sep))
			idx.WriteString(fmt.Sprintf("%d\t%s\tok=%v status=%d user=%q emitted=%d site=%d tok=%d %s\n", i, c.label, o.ok, o.status, o.user, len(o.emitted), c.site, c.tok, ps.toks[c.tok].raw))
		}
		sb.WriteString("].\n")
	}
	if len(shardNames) == 0 {
		shardNames = []string{"[]"}
	}
	sb.WriteString("Definition peer_cases : list peer_case := " + strings.Join(shardNames, " ++ ") + ".\n")
	sb.WriteString("Definition peer_scanned := Eval vm_compute in peer_scan peer_idps peer_toks peer_cases.\n")
	sb.WriteString("Definition c04_peer_mismatches := Eval vm_compute in fst peer_scanned.\nPrint c04_peer_mismatches.\n")
	sb.WriteString("Definition c04_peer_violating := Eval vm_compute in snd peer_scanned.\nPrint c04_peer_violating.\n")
	sb.WriteString("Definition c04_npeer := Eval vm_compute in N.of_nat (length peer_cases).\nPrint c04_npeer.\n")
	ioutil.WriteFile(filepath.Join(verifOut(), "CasesC04peer.idx"), []byte(idx.String()), 0644)
	ioutil.WriteFile(filepath.Join(verifOut(), "CasesC04sites.idx"), []byte(sidx.String()), 0644)
	_ = json.Marshal
	return sb.String()
}
