package main

// Shared harness code, overlaid into cmd/keymasterd as a _test.go file at check time.
// Nothing here is compiled into keymasterd itself.

import (
	"bufio"
	"crypto/sha256"
	"crypto/tls"
	"crypto/x509"
	"encoding/hex"
	"encoding/json"
	"encoding/pem"
	"fmt"
	"io/ioutil"
	"math/rand"
	"net/http"
	"net/http/httptest"
	"net/url"
	"os"
	"path/filepath"
	"sort"
	"strconv"
	"strings"
	"sync"
	"testing"
	"time"

	"github.com/Cloud-Foundations/golib/pkg/log/testlogger"
	"github.com/Cloud-Foundations/keymaster/lib/instrumentedwriter"
	"golang.org/x/crypto/bcrypt"
	"gopkg.in/yaml.v2"
)

// ---------------------------------------------------------------- environment

func verifOut() string {
	d := os.Getenv("VERIF_OUT")
	if d == "" {
		d = os.TempDir()
	}
	return d
}

func verifSeed() int64 {
	s, err := strconv.ParseInt(os.Getenv("VERIF_SEED"), 10, 64)
	if err != nil {
		return 1
	}
	return s
}

func verifThorough() bool { return os.Getenv("VERIF_TIER") == "thorough" }

func verifRand() *rand.Rand { return rand.New(rand.NewSource(verifSeed())) }

// ---------------------------------------------------------------- result file

type verifHit struct {
	Key      string      `json:"key"`
	Oracle   string      `json:"oracle"`
	What     string      `json:"what"`
	Kind     string      `json:"kind,omitempty"`
	Case     interface{} `json:"case"`
	Observed interface{} `json:"observed,omitempty"`
	Model    interface{} `json:"model,omitempty"`
}

type verifResult struct {
	mu          sync.Mutex
	Evaluations int                    `json:"evaluations"`
	Distinct    int                    `json:"distinct_nontrivial"`
	Traces      int                    `json:"traces"`
	Rule        string                 `json:"rule"`
	Samples     []interface{}          `json:"samples"`
	Dist        map[string]interface{} `json:"dist"`
	Hits        []verifHit             `json:"oracle_hits"`
	Exhaustive  bool                   `json:"exhaustive"`
	Extra       map[string]interface{} `json:"extra,omitempty"`
	seen        map[string]bool
	counts      map[string]int
}

func newVerifResult(rule string) *verifResult {
	return &verifResult{Rule: rule, Dist: map[string]interface{}{}, seen: map[string]bool{},
		counts: map[string]int{}, Extra: map[string]interface{}{}}
}

// count one evaluation; `projection` identifies the case up to what the property can see;
// nontrivial says whether it reached the interesting branch
func (r *verifResult) eval(projection string, nontrivial bool) {
	r.mu.Lock()
	defer r.mu.Unlock()
	r.Evaluations++
	r.Traces++
	if nontrivial {
		h := sha256.Sum256([]byte(projection))
		k := hex.EncodeToString(h[:8])
		if !r.seen[k] {
			r.seen[k] = true
			r.Distinct++
		}
	}
}

func (r *verifResult) bump(class string) {
	r.mu.Lock()
	r.counts[class]++
	r.mu.Unlock()
}

func (r *verifResult) sample(s interface{}) {
	r.mu.Lock()
	if len(r.Samples) < 8 {
		r.Samples = append(r.Samples, s)
	}
	r.mu.Unlock()
}

func (r *verifResult) hit(h verifHit) {
	r.mu.Lock()
	if len(r.Hits) < 200 {
		r.Hits = append(r.Hits, h)
	}
	r.mu.Unlock()
}

func (r *verifResult) write(t *testing.T, testName string) {
	r.mu.Lock()
	defer r.mu.Unlock()
	for k, v := range r.counts {
		r.Dist[k] = v
	}
	if r.Hits == nil {
		r.Hits = []verifHit{}
	}
	b, err := json.MarshalIndent(r, "", " ")
	if err != nil {
		t.Fatal(err)
	}
	if err := ioutil.WriteFile(filepath.Join(verifOut(), testName+".json"), b, 0644); err != nil {
		t.Fatal(err)
	}
}

// ---------------------------------------------------------------- Coq literals

// seven bytes per primitive 63-bit integer, little endian (decoded by KM.Base.Pack.unpack)
func coqPacked(b []byte) string {
	var sb strings.Builder
	sb.WriteString("(unpack ")
	sb.WriteString(strconv.Itoa(len(b)))
	sb.WriteString(" [")
	for i := 0; i < len(b); i += 7 {
		var w uint64
		for j := 0; j < 7 && i+j < len(b); j++ {
			w |= uint64(b[i+j]) << (8 * uint(j))
		}
		if i > 0 {
			sb.WriteString(";")
		}
		sb.WriteString(strconv.FormatUint(w, 10))
	}
	sb.WriteString("]%uint63)")
	return sb.String()
}

func coqBool(b bool) string {
	if b {
		return "true"
	}
	return "false"
}

func coqZ(v int64) string { return fmt.Sprintf("(%d)%%Z", v) }

const coqCaseHeader = "From Coq Require Import Uint63 List NArith ZArith Bool String.\nFrom KM Require Import Base.Bytes Base.Pack.\nImport ListNotations.\n"

// ---------------------------------------------------------------- state through the production config path

type verifEnv struct {
	t           *testing.T
	dir         string
	configFile  string
	passphrase  string
	state       *RuntimeState
	handler     http.Handler
	adminClient *x509.Certificate
	adminCA     *x509.Certificate
	panics      []string
	pmu         sync.Mutex
}

var verifConfigCache struct {
	sync.Mutex
	dir string
}

// generate the config material once per test binary (RSA key generation dominates) and copy
// it for each state
func verifMaterial(t *testing.T) string {
	verifConfigCache.Lock()
	defer verifConfigCache.Unlock()
	if verifConfigCache.dir != "" {
		return verifConfigCache.dir
	}
	dir, err := ioutil.TempDir("", "verif_km_material")
	if err != nil {
		t.Fatal(err)
	}
	configFilename := filepath.Join(dir, "config.yml")
	reader := bufio.NewReader(strings.NewReader(dir + "\n\n\n\n\n\n\n\n\n\n\n\n\n\n\n\n"))
	devnull, _ := os.Open(os.DevNull)
	oldStdout := os.Stdout
	if w, err := os.OpenFile(os.DevNull, os.O_WRONLY, 0); err == nil {
		os.Stdout = w
	}
	err = generateNewConfigInternal(reader, configFilename, 2048, []byte(verifPassphrase))
	os.Stdout = oldStdout
	devnull.Close()
	if err != nil {
		t.Fatal(err)
	}
	verifConfigCache.dir = dir
	return dir
}

const verifPassphrase = "correct horse battery staple"

// users known to the htpasswd backend: username/password (from the generated config),
// plus the ones the harness appends (bcrypt cost 4, generated at check time)
type verifUser struct{ name, password string }

func copyTree(t *testing.T, src, dst string) {
	err := filepath.Walk(src, func(p string, info os.FileInfo, err error) error {
		if err != nil {
			return err
		}
		rel, _ := filepath.Rel(src, p)
		target := filepath.Join(dst, rel)
		if info.IsDir() {
			return os.MkdirAll(target, 0755)
		}
		b, err := ioutil.ReadFile(p)
		if err != nil {
			return err
		}
		return ioutil.WriteFile(target, b, info.Mode())
	})
	if err != nil {
		t.Fatal(err)
	}
}

// verifSetupSealed builds a RuntimeState exactly as keymasterd does: generated config file ->
// loadVerifyConfigFile.  The daemon starts sealed.  edit may adjust the parsed configuration
// before it is written back (YAML keys are the public configuration surface).
func verifSetupSealed(t *testing.T, edit func(c *AppConfigFile, dir string)) *verifEnv {
	material := verifMaterial(t)
	dir, err := ioutil.TempDir("", "verif_km_state")
	if err != nil {
		t.Fatal(err)
	}
	t.Cleanup(func() { os.RemoveAll(dir) })
	copyTree(t, material, dir)
	configFilename := filepath.Join(dir, "config.yml")
	raw, err := ioutil.ReadFile(configFilename)
	if err != nil {
		t.Fatal(err)
	}
	raw = []byte(strings.ReplaceAll(string(raw), material, dir))
	var cfg AppConfigFile
	if err := yaml.Unmarshal(raw, &cfg); err != nil {
		t.Fatal(err)
	}
	cfg.Base.HostIdentity = "keymaster.example"
	cfg.Base.HttpAddress = ":443"
	cfg.Base.AdminAddress = ":6920"
	// more users for the htpasswd backend (bcrypt, cost 4): alice/alicepw bob/bobpw admin/adminpw
	extra := verifHtpasswdLines()
	f, err := os.OpenFile(cfg.Base.HtpasswdFilename, os.O_APPEND|os.O_WRONLY, 0644)
	if err != nil {
		t.Fatal(err)
	}
	f.WriteString("\n" + extra)
	f.Close()
	if edit != nil {
		edit(&cfg, dir)
	}
	out, err := yaml.Marshal(&cfg)
	if err != nil {
		t.Fatal(err)
	}
	if err := ioutil.WriteFile(configFilename, out, 0640); err != nil {
		t.Fatal(err)
	}
	state, err := loadVerifyConfigFile(configFilename, testlogger.New(t))
	if err != nil {
		t.Fatalf("loadVerifyConfigFile: %v", err)
	}
	env := &verifEnv{t: t, dir: dir, configFile: configFilename, passphrase: verifPassphrase, state: state}
	env.adminClient = verifReadCert(t, filepath.Join(dir, "etc/keymaster/adminClient.pem"))
	env.adminCA = verifReadCert(t, filepath.Join(dir, "etc/keymaster/adminCA.pem"))
	t.Cleanup(func() {
		if state.dbDone != nil {
			close(state.dbDone)
		}
	})
	return env
}

func verifReadCert(t *testing.T, path string) *x509.Certificate {
	b, err := ioutil.ReadFile(path)
	if err != nil {
		t.Fatal(err)
	}
	blk, _ := pem.Decode(b)
	if blk == nil {
		t.Fatalf("no pem in %s", path)
	}
	c, err := x509.ParseCertificate(blk.Bytes)
	if err != nil {
		t.Fatal(err)
	}
	return c
}

// unseal through the real handler with a verified admin client chain
func (env *verifEnv) inject(pass string, withChain bool) int {
	form := url.Values{}
	form.Set("ssh_ca_password", pass)
	req := httptest.NewRequest("POST", "https://keymaster.example:6920"+secretInjectorPath, strings.NewReader(form.Encode()))
	req.Header.Set("Content-Type", "application/x-www-form-urlencoded")
	req.TLS = &tls.ConnectionState{}
	if withChain {
		req.TLS.VerifiedChains = [][]*x509.Certificate{{env.adminClient, env.adminCA}}
	}
	rr := httptest.NewRecorder()
	env.state.secretInjectorHandler(rr, req)
	return rr.Code
}

func verifSetup(t *testing.T, edit func(c *AppConfigFile, dir string)) *verifEnv {
	env := verifSetupSealed(t, edit)
	if code := env.inject(env.passphrase, true); code != 200 {
		t.Fatalf("unseal failed: %d", code)
	}
	select {
	case <-env.state.SignerIsReady:
	case <-time.After(5 * time.Second):
		t.Fatalf("SignerIsReady not signalled")
	}
	env.finishStartup()
	return env
}

// what main() does after the signer is ready (client CA pool)
func (env *verifEnv) finishStartup() {
	st := env.state
	if st.ClientCAPool == nil {
		st.ClientCAPool = x509.NewCertPool()
	}
	for _, der := range st.caCertDer {
		if c, err := x509.ParseCertificate(der); err == nil {
			st.ClientCAPool.AddCert(c)
		}
	}
	if c, err := x509.ParseCertificate(st.selfRoleCaCertDer); err == nil {
		st.ClientCAPool.AddCert(c)
	}
	env.handler = env.buildHandler()
}

type verifNullHTTPLogger struct{}

func (verifNullHTTPLogger) Log(record instrumentedwriter.LogRecord) {}

func (env *verifEnv) buildHandler() http.Handler {
	mux := verifBuildServiceMux(env.state)
	return instrumentedwriter.NewLoggingHandler(mux, verifNullHTTPLogger{})
}

// serve one request through the regenerated service mux; a panic is recovered and recorded
func (env *verifEnv) serve(req *http.Request) (rr *httptest.ResponseRecorder, panicked bool) {
	rr = httptest.NewRecorder()
	if env.handler == nil {
		env.handler = env.buildHandler()
	}
	defer func() {
		if p := recover(); p != nil {
			panicked = true
			env.pmu.Lock()
			env.panics = append(env.panics, fmt.Sprintf("%s %s: %v", req.Method, req.URL.Path, p))
			env.pmu.Unlock()
			if rr.Code == 200 && rr.Body.Len() == 0 {
				rr.Code = 500
			}
		}
	}()
	env.handler.ServeHTTP(rr, req)
	return rr, false
}

func (env *verifEnv) cookie(user string, level int) *http.Cookie {
	v, err := env.state.setNewAuthCookie(nil, user, level)
	if err != nil {
		env.t.Fatal(err)
	}
	return &http.Cookie{Name: authCookieName, Value: v}
}

func verifNewRequest(method, target string, form url.Values) *http.Request {
	var req *http.Request
	if form != nil && method != "GET" {
		req = httptest.NewRequest(method, "https://keymaster.example"+target, strings.NewReader(form.Encode()))
		req.Header.Set("Content-Type", "application/x-www-form-urlencoded")
	} else {
		if form != nil {
			if strings.Contains(target, "?") {
				target += "&" + form.Encode()
			} else {
				target += "?" + form.Encode()
			}
		}
		req = httptest.NewRequest(method, "https://keymaster.example"+target, nil)
	}
	req.Host = "keymaster.example"
	req.RemoteAddr = "10.1.2.3:34567"
	return req
}

func sortedKeys(m map[string]int) []string {
	var ks []string
	for k := range m {
		ks = append(ks, k)
	}
	sort.Strings(ks)
	return ks
}

var verifUsers = []verifUser{{"alice", "alicepw"}, {"bob", "bobpw"}, {"admin", "adminpw"}, {"svc-automation", "svcpw"}}

var verifHtpasswdCache string

func verifHtpasswdLines() string {
	if verifHtpasswdCache != "" {
		return verifHtpasswdCache
	}
	var sb strings.Builder
	for _, u := range verifUsers {
		h, err := bcrypt.GenerateFromPassword([]byte(u.password), 4)
		if err != nil {
			panic(err)
		}
		hs := string(h)
		if strings.HasPrefix(hs, "$2a$") {
			hs = "$2y$" + hs[4:]
		}
		sb.WriteString(u.name + ":" + hs + "\n")
	}
	verifHtpasswdCache = sb.String()
	return verifHtpasswdCache
}
