package main

// C02 — issued certificates bind the authenticated user to the submitted key only.
// Every certificate that comes back from POST /certgen/<user> is decoded, judged by the
// property's own predicate (principal / CN, key, end-entity user certificate, verifies under the
// CA material served by /public/sshca and /public/x509ca of the same state, extension map) and
// shipped to Coq, where Model/Certgen.v certgen is evaluated on the same request and compared
// field by field (Model/CertgenObs.v).

import (
	"bytes"
	"crypto"
	"crypto/ecdsa"
	"crypto/ed25519"
	"crypto/elliptic"
	"crypto/rand"
	"crypto/rsa"
	"crypto/x509"
	"encoding/asn1"
	"encoding/pem"
	"fmt"
	"io/ioutil"
	mrand "math/rand"
	"net/http"
	"net/url"
	"os"
	"path/filepath"
	"sort"
	"strings"
	"testing"
	"time"

	"golang.org/x/crypto/bcrypt"
	"golang.org/x/crypto/openpgp"
	"golang.org/x/crypto/openpgp/armor"
	"golang.org/x/crypto/ssh"
	"mvdan.cc/sh/v3/shell"
)

type c02Key struct {
	name   string
	pub    crypto.PublicKey
	sshPub string
	pemPub string
	isEd   bool
	sshOK  bool // the SSH endpoint's key filter knows this type
}

func c02Keys() []*c02Key {
	var ks []*c02Key
	add := func(name string, pub crypto.PublicKey, sshOK bool) {
		k := &c02Key{name: name, pub: pub, sshOK: sshOK}
		sp, err := ssh.NewPublicKey(pub)
		c01Must(err)
		k.sshPub = strings.TrimSpace(string(ssh.MarshalAuthorizedKey(sp))) + " verif@harness\n"
		der, err := x509.MarshalPKIXPublicKey(pub)
		c01Must(err)
		k.pemPub = string(pem.EncodeToMemory(&pem.Block{Type: "PUBLIC KEY", Bytes: der}))
		_, k.isEd = pub.(ed25519.PublicKey)
		ks = append(ks, k)
	}
	for _, bits := range []int{2048, 3072, 4096} {
		k, err := rsa.GenerateKey(rand.Reader, bits)
		c01Must(err)
		add(fmt.Sprintf("rsa%d", bits), &k.PublicKey, true)
	}
	for _, c := range []elliptic.Curve{elliptic.P256(), elliptic.P384(), elliptic.P521()} {
		k, err := ecdsa.GenerateKey(c, rand.Reader)
		c01Must(err)
		// the SSH key filter of certgen.go only lists nistp256 (finding F11, property C19)
		add("ecdsa-"+c.Params().Name, &k.PublicKey, c == elliptic.P256())
	}
	pub, _, err := ed25519.GenerateKey(rand.Reader)
	c01Must(err)
	add("ed25519", pub, true)
	return ks
}

type c02Variant struct {
	name      string
	templates []sshExtension
	realm     string
	edCA      bool
	groups    bool // a git-database directory as user-information source
	prepend   string
	noNorm    bool
	// keymaster_public_keys_filename, in file order: "self" (this server's main CA key), "ed" (its
	// Ed25519 CA key), "foreign" (a key of some other server); nil = not configured
	extra []string
	light bool // the published-keys family: a reduced set of requests (every key type, few names)
	// the failing-template family: these names only, three requests each (ssh on two key types, x509)
	names []string
}

// the model's names of the keys (Model/Seal.v): 1 main, 2 Ed25519, 9 foreign
func (v c02Variant) extraCoq() string {
	var l []string
	for _, e := range v.extra {
		switch e {
		case "self":
			l = append(l, "1")
		case "ed":
			l = append(l, "2")
		default:
			l = append(l, "9")
		}
	}
	return "[" + strings.Join(l, "; ") + "]"
}

// how many distinct keys /public/sshca must then serve
func (v c02Variant) wantSSHKeys() int {
	set := map[string]bool{"self": true}
	if v.edCA {
		set["ed"] = true
	}
	for _, e := range v.extra {
		set[e] = true
	}
	n := len(set)
	return n
}

var c02Templates1 = []sshExtension{
	{Key: "login@example.com", Value: "${USERNAME}"},
	{Key: "user-${USERNAME}", Value: "x"},
	{Key: "${USERNAME//./-}", Value: "dashed"},
	{Key: "", Value: "dropped"},
	{Key: "${UNSET}", Value: "dropped too"},
	{Key: "permit-pty", Value: "${USERNAME}"},
	{Key: "dup", Value: "first"},
	{Key: "dup", Value: "second ${USERNAME}"},
	{Key: "k-${USERNAME}", Value: "${USERNAME}:${USERNAME}"},
	{Key: "quoted", Value: "'${USERNAME}' \"${USERNAME}\""},
	{Key: "${USERNAME:-nobody}", Value: "${USERNAME:0:3}"},
	{Key: "tilde", Value: "~/x"},
}

var c02Templates2 = []sshExtension{
	{Key: "permit-user-rc", Value: "no"},
	{Key: "force-command", Value: "/usr/bin/env USER=${USERNAME} sh"},
	{Key: "user-${USERNAME}", Value: ""},
}

var c02TemplatesBad = []sshExtension{
	{Key: "fine", Value: "${USERNAME}"},
	{Key: "subst", Value: "$(id)"},
}

// templates the shell expander rejects: in the NAME of an extension (command substitution with the user
// name as argument), for everybody
var c02TemplatesBadKey = []sshExtension{
	{Key: "ok-${USERNAME}", Value: "v"},
	{Key: "uid-$(id -u ${USERNAME})", Value: "x"},
	{Key: "after", Value: "${USERNAME}"},
}

// ... only for SOME user names: an arithmetic expansion that divides by zero for names of five bytes (value
// position) and one that divides by zero for names whose only digit is a 1 (name position); all other names
// get all four extensions
var c02TemplatesNameDependent = []sshExtension{
	{Key: "who", Value: "${USERNAME}"},
	{Key: "quota", Value: "$(( 100 / (${#USERNAME} - 5) ))"},
	{Key: "slot-$(( 10 / (1${USERNAME//[^0-9]/} - 11) ))", Value: "x"},
	{Key: "last", Value: "${USERNAME:0:1}"},
}

// ... unterminated forms: a parameter expansion without closing brace in a value, a replacement without end in
// a name, an arithmetic expansion without operand
var c02TemplatesUnterminated = []sshExtension{
	{Key: "who", Value: "${USERNAME}"},
	{Key: "broken-value", Value: "${USERNAME"},
	{Key: "${USERNAME/", Value: "broken-name"},
	{Key: "sum", Value: "$(( 1 +"},
}

func c02Variants() []c02Variant {
	return []c02Variant{
		{name: "plain"},
		{name: "templates+realm+groups", templates: c02Templates1, realm: "EXAMPLE.COM", groups: true, prepend: "km-"},
		{name: "ed25519-ca+templates", templates: c02Templates2, edCA: true, groups: true, noNorm: true},
		{name: "failing-template", templates: c02TemplatesBad},
		{name: "failing-template:name-position", templates: c02TemplatesBadKey, names: []string{"alice", "bob"}},
		{name: "failing-template:name-dependent", templates: c02TemplatesNameDependent, names: []string{"alice", "bob", "dev1", "x", "carol.o-neil", "1", "abcde"}},
		{name: "failing-template:unterminated", templates: c02TemplatesUnterminated, names: []string{"alice", "bob"}},
		// the published-keys dimension: what keymaster_public_keys_filename already lists x Ed25519 CA
		{name: "ed25519-ca, foreign keys listed", edCA: true, extra: []string{"foreign", "foreign"}, light: true},
		{name: "ed25519-ca, own main key listed", edCA: true, extra: []string{"self"}, light: true},
		{name: "ed25519-ca, own ed25519 key listed", edCA: true, extra: []string{"ed"}, light: true},
		{name: "ed25519-ca, both own keys listed twice after a foreign key", edCA: true, extra: []string{"foreign", "self", "ed", "self", "ed"}, light: true},
		{name: "own main key listed, no ed25519 ca", extra: []string{"self", "foreign"}, light: true},
	}
}

// group database contents
var c02GroupDB = map[string][]string{
	"eng":   {"alice", "a.b-c+d_e", "bob"},
	"ops":   {"alice"},
	"k8s:x": {"alice", "bob"},
}
var c02GroupMethods = map[string][]string{"eng": {"Svc.Method"}, "ops": {"Other.*", "Svc.Method"}}

// the group database looks names up in lower case (golib gitdb), whatever the spelling of the
// authenticated name: this is the directory's answer, an input of the model
func c02ExpectedGroups(v c02Variant, user string) []string {
	if !v.groups {
		return nil
	}
	user = strings.ToLower(user)
	var g []string
	for name, members := range c02GroupDB {
		for _, m := range members {
			if m == user {
				g = append(g, v.prepend+name)
			}
		}
	}
	sort.Strings(g)
	return g
}

// ... while its service-method lookup uses the name as given
func c02ExpectedMethods(v c02Variant, user string) []string {
	if !v.groups {
		return nil
	}
	set := map[string]bool{}
	for name, members := range c02GroupDB {
		for _, m := range members {
			if m == user {
				for _, sm := range c02GroupMethods[name] {
					set[sm] = true
				}
			}
		}
	}
	var l []string
	for k := range set {
		l = append(l, k)
	}
	sort.Strings(l)
	return l
}

// the key of some other keymaster server
var c02ForeignKey = func() *ecdsa.PrivateKey {
	k, err := ecdsa.GenerateKey(elliptic.P256(), rand.Reader)
	c01Must(err)
	return k
}()

var c02ExtraUsers = []verifUser{{"a.b-c+d_e", "pw1"}, {"carol.o-neil", "pw2"}, {"x", "pw3"}, {"dave+ssh", "pw4"}}

func c02Setup(t *testing.T, v c02Variant, edKeyPEM []byte) *verifEnv {
	return verifSetup(t, func(c *AppConfigFile, dir string) {
		c.Base.AllowedAuthBackendsForWebUI = []string{"password"}
		c.Base.AllowedAuthBackendsForCerts = []string{"U2F"}
		c.Base.SSHCertConfig.Extensions = v.templates
		c.Base.KerberosRealm = v.realm
		c.Base.DisableUsernameNormalization = v.noNorm
		var sb strings.Builder
		for _, u := range c02ExtraUsers {
			h, err := bcrypt.GenerateFromPassword([]byte(u.password), 4)
			c01Must(err)
			hs := string(h)
			if strings.HasPrefix(hs, "$2a$") {
				hs = "$2y$" + hs[4:]
			}
			sb.WriteString(u.name + ":" + hs + "\n")
		}
		f, err := os.OpenFile(c.Base.HtpasswdFilename, os.O_APPEND|os.O_WRONLY, 0644)
		c01Must(err)
		f.WriteString(sb.String())
		f.Close()
		if v.edCA {
			// encrypted with the passphrase of the main CA key, as unsealCA expects
			buf := new(bytes.Buffer)
			aw, err := armor.Encode(buf, "PGP MESSAGE", nil)
			c01Must(err)
			pw, err := openpgp.SymmetricallyEncrypt(aw, []byte(verifPassphrase), nil, nil)
			c01Must(err)
			pw.Write(edKeyPEM)
			c01Must(pw.Close())
			c01Must(aw.Close())
			p := filepath.Join(dir, "ed25519Key.asc")
			c01Must(ioutil.WriteFile(p, buf.Bytes(), 0600))
			c.Base.Ed25519CAFilename = p
		}
		if v.extra != nil {
			var lines [][]byte
			for _, e := range v.extra {
				switch e {
				case "self":
					lines = append(lines, c01OwnMainPubLine(c))
				case "ed":
					blk, _ := pem.Decode(edKeyPEM)
					k, err := x509.ParsePKCS8PrivateKey(blk.Bytes)
					c01Must(err)
					lines = append(lines, c01AuthorizedKeyLine(k.(ed25519.PrivateKey).Public()))
				default:
					lines = append(lines, c01AuthorizedKeyLine(c02ForeignKey.Public()))
				}
			}
			c01WritePublicKeys(c, dir, lines)
		}
		if v.groups {
			gd := filepath.Join(dir, "groupdb")
			c01Must(os.MkdirAll(gd, 0755))
			c01Must(ioutil.WriteFile(filepath.Join(gd, "permitted-groups.json"), []byte(`[".*"]`), 0644))
			var names []string
			for n := range c02GroupDB {
				names = append(names, n)
			}
			sort.Strings(names)
			var items []string
			for _, n := range names {
				members := append([]string{}, c02GroupDB[n]...)
				sort.Strings(members)
				q := func(l []string) string {
					var o []string
					for _, x := range l {
						o = append(o, fmt.Sprintf("%q", x))
					}
					return "[" + strings.Join(o, ",") + "]"
				}
				it := fmt.Sprintf(`{"Name":%q,"UserMembers":%s`, n, q(members))
				if sm := c02GroupMethods[n]; len(sm) > 0 {
					it += `,"ServiceMethods":` + q(sm)
				}
				items = append(items, it+"}")
			}
			c01Must(ioutil.WriteFile(filepath.Join(gd, "groups.json"), []byte("["+strings.Join(items, ",")+"]"), 0644))
			c.UserInfo.GitDB.LocalRepositoryDirectory = gd
			c.UserInfo.GitDB.CheckInterval = time.Hour
			c.UserInfo.GitDB.GroupPrepend = v.prepend
		}
	})
}

// ---------------------------------------------------------------- decoding

type c02Obs struct {
	status      int
	issued      bool
	ssh         bool
	names       []string
	keyid       string
	keyIdx      int
	userType    bool
	isCA        bool
	ekuClient   bool
	ekuPkinit   bool
	exts        map[string]string
	signer      int
	orgs        []string
	groups      []string
	methods     []string
	krb         []string // realm, principal
	otherNames  []string // every further identity in the certificate, tagged
	krbOK       bool
	verifyErr   string
	parseErr    string
	rawKeyEqual bool
}

// all GeneralString (tag 27) values inside a DER blob, depth first
func c02GeneralStrings(der []byte) []string {
	var out []string
	var walk func(b []byte)
	walk = func(b []byte) {
		for len(b) >= 2 {
			tag := b[0]
			l := int(b[1])
			off := 2
			if l&0x80 != 0 {
				n := l & 0x7f
				if n == 0 || n > 3 || len(b) < 2+n {
					return
				}
				l = 0
				for i := 0; i < n; i++ {
					l = l<<8 | int(b[2+i])
				}
				off = 2 + n
			}
			if off+l > len(b) {
				return
			}
			body := b[off : off+l]
			if tag&0x20 != 0 {
				walk(body)
			} else if tag == 27 {
				out = append(out, string(body))
			}
			b = b[off+l:]
		}
	}
	walk(der)
	return out
}

// every identity an X.509 certificate carries beside ONE common name, the organisations and the PKINIT other-name:
// further subject attributes, a second common name, and every entry of the subject alternative name
func c02OtherNames(xc *x509.Certificate) []string {
	var l []string
	cn := 0
	for _, a := range xc.Subject.Names {
		switch {
		case a.Type.Equal(asn1.ObjectIdentifier{2, 5, 4, 3}):
			cn++
			if cn > 1 {
				l = append(l, fmt.Sprintf("cn#%d:%v", cn, a.Value))
			}
		case a.Type.Equal(asn1.ObjectIdentifier{2, 5, 4, 10}): // organisation: compared as d_orgs
		default:
			l = append(l, fmt.Sprintf("subject-attribute:%s=%v", a.Type, a.Value))
		}
	}
	for _, e := range xc.Extensions {
		if !e.Id.Equal(asn1.ObjectIdentifier{2, 5, 29, 17}) {
			continue
		}
		var seq asn1.RawValue
		if _, err := asn1.Unmarshal(e.Value, &seq); err != nil {
			l = append(l, "san-undecodable")
			continue
		}
		rest := seq.Bytes
		pkinit := 0
		for len(rest) > 0 {
			var gn asn1.RawValue
			var err error
			rest, err = asn1.Unmarshal(rest, &gn)
			if err != nil {
				l = append(l, "san-undecodable")
				break
			}
			switch gn.Tag {
			case 0: // otherName: the type-id comes first
				var oid asn1.ObjectIdentifier
				if _, err := asn1.Unmarshal(gn.Bytes, &oid); err != nil {
					l = append(l, "othername:?")
				} else if oid.Equal(asn1.ObjectIdentifier{1, 3, 6, 1, 5, 2, 2}) {
					pkinit++
					if pkinit > 1 {
						l = append(l, fmt.Sprintf("othername:pkinit#%d", pkinit))
					}
				} else {
					l = append(l, "othername:"+oid.String())
				}
			case 1:
				l = append(l, "email:"+string(gn.Bytes))
			case 2:
				l = append(l, "dns:"+string(gn.Bytes))
			case 4:
				l = append(l, "dirname")
			case 6:
				l = append(l, "uri:"+string(gn.Bytes))
			case 7:
				l = append(l, fmt.Sprintf("ip:%x", gn.Bytes))
			default:
				l = append(l, fmt.Sprintf("generalname#%d", gn.Tag))
			}
		}
	}
	sort.Strings(l)
	return l
}

type c02Published struct {
	sshKeys   []ssh.PublicKey
	x509Roots []*x509.Certificate
}

func c02FetchPublished(t *testing.T, env *verifEnv) *c02Published {
	p := &c02Published{}
	rr, _ := env.serve(verifNewRequest("GET", "/public/sshca", nil))
	rest := rr.Body.Bytes()
	for len(bytes.TrimSpace(rest)) > 0 {
		k, _, _, r, err := ssh.ParseAuthorizedKey(rest)
		if err != nil {
			t.Fatalf("/public/sshca: %v", err)
		}
		p.sshKeys = append(p.sshKeys, k)
		rest = r
	}
	rr, _ = env.serve(verifNewRequest("GET", "/public/x509ca", nil))
	rest = rr.Body.Bytes()
	for {
		var blk *pem.Block
		blk, rest = pem.Decode(rest)
		if blk == nil {
			break
		}
		c, err := x509.ParseCertificate(blk.Bytes)
		if err != nil {
			t.Fatalf("/public/x509ca: %v", err)
		}
		p.x509Roots = append(p.x509Roots, c)
	}
	return p
}

// the model's name of a published CA key: 1 = the main (RSA) one, 2 = the Ed25519 one (0 = the
// certificate verifies under none of the published keys)
func c02CAIndex(pub crypto.PublicKey) int {
	if _, ok := pub.(ed25519.PublicKey); ok {
		return 2
	}
	return 1
}

func c02Decode(body []byte, status int, keys []*c02Key, pubd *c02Published) c02Obs {
	o := c02Obs{status: status, keyIdx: 999, signer: 0}
	if status != 200 {
		return o
	}
	c := verifParseCertBody(body)
	if c == nil {
		o.parseErr = "status 200 but the body is not a certificate"
		return o
	}
	o.issued = true
	if c.kind == "ssh" {
		sc := c.ssh
		o.ssh = true
		o.names = sc.ValidPrincipals
		o.keyid = sc.KeyId
		o.userType = sc.CertType == ssh.UserCert
		o.exts = sc.Permissions.Extensions
		for k, val := range sc.Permissions.CriticalOptions {
			o.otherNames = append(o.otherNames, "critical:"+k+"="+val)
		}
		sort.Strings(o.otherNames)
		for i, k := range keys {
			sp, _ := ssh.NewPublicKey(k.pub)
			if bytes.Equal(sp.Marshal(), sc.Key.Marshal()) {
				o.keyIdx = i
			}
		}
		// signature under one of the published CA keys
		for _, ca := range pubd.sshKeys {
			if bytes.Equal(ca.Marshal(), sc.SignatureKey.Marshal()) {
				checker := &ssh.CertChecker{IsUserAuthority: func(auth ssh.PublicKey) bool { return bytes.Equal(auth.Marshal(), ca.Marshal()) }}
				principal := ""
				if len(sc.ValidPrincipals) > 0 {
					principal = sc.ValidPrincipals[0]
				}
				if err := checker.CheckCert(principal, sc); err != nil {
					o.verifyErr = err.Error()
				} else if cp, ok := ca.(ssh.CryptoPublicKey); ok {
					o.signer = c02CAIndex(cp.CryptoPublicKey())
				}
			}
		}
		if o.signer == 0 && o.verifyErr == "" {
			o.verifyErr = "signature key is not among the keys of /public/sshca"
		}
		return o
	}
	xc := c.x509
	o.names = []string{xc.Subject.CommonName}
	o.userType = xc.BasicConstraintsValid
	o.isCA = xc.IsCA
	for _, e := range xc.ExtKeyUsage {
		if e == x509.ExtKeyUsageClientAuth {
			o.ekuClient = true
		}
	}
	for _, e := range xc.UnknownExtKeyUsage {
		if e.Equal(asn1.ObjectIdentifier{1, 3, 6, 1, 5, 2, 3, 4}) {
			o.ekuPkinit = true
		}
	}
	o.orgs = append([]string{}, xc.Subject.Organization...)
	sort.Strings(o.orgs)
	o.otherNames = c02OtherNames(xc)
	for _, e := range xc.Extensions {
		switch {
		case e.Id.Equal(asn1.ObjectIdentifier{1, 3, 6, 1, 4, 1, 9586, 100, 7, 2}):
			if _, err := asn1.Unmarshal(e.Value, &o.groups); err != nil {
				o.parseErr = "group list extension: " + err.Error()
			}
			sort.Strings(o.groups)
		case e.Id.Equal(asn1.ObjectIdentifier{1, 3, 6, 1, 4, 1, 9586, 100, 7, 1}):
			if _, err := asn1.Unmarshal(e.Value, &o.methods); err != nil {
				o.parseErr = "service method extension: " + err.Error()
			}
			sort.Strings(o.methods)
		case e.Id.Equal(asn1.ObjectIdentifier{2, 5, 29, 17}):
			o.krb = c02GeneralStrings(e.Value)
			o.krbOK = len(o.krb) == 2
		}
	}
	for i, k := range keys {
		a, _ := x509.MarshalPKIXPublicKey(k.pub)
		b, _ := x509.MarshalPKIXPublicKey(xc.PublicKey)
		if bytes.Equal(a, b) {
			o.keyIdx = i
		}
	}
	for _, root := range pubd.x509Roots {
		pool := x509.NewCertPool()
		pool.AddCert(root)
		if _, err := xc.Verify(x509.VerifyOptions{Roots: pool, KeyUsages: []x509.ExtKeyUsage{x509.ExtKeyUsageClientAuth}}); err == nil {
			o.signer = c02CAIndex(root.PublicKey)
		} else if o.verifyErr == "" {
			o.verifyErr = err.Error()
		}
	}
	if o.signer != 0 {
		o.verifyErr = ""
	}
	return o
}

// ---------------------------------------------------------------- Coq literals

func coqBS(s string) string { return coqPacked([]byte(s)) }

func coqBSList(l []string) string {
	var p []string
	for _, s := range l {
		p = append(p, coqBS(s))
	}
	return "[" + strings.Join(p, "; ") + "]"
}

func coqOptBSList(l []string, ok bool) string {
	if !ok {
		return "None"
	}
	return "(Some " + coqBSList(l) + ")"
}

func coqPairs(m map[string]string) string {
	var ks []string
	for k := range m {
		ks = append(ks, k)
	}
	sort.Strings(ks)
	var p []string
	for _, k := range ks {
		p = append(p, "("+coqBS(k)+", "+coqBS(m[k])+")")
	}
	return "[" + strings.Join(p, "; ") + "]"
}

type c02Case struct {
	variant   int
	user      string
	target    string
	typ       int
	key       int
	addGroups bool
	obs       c02Obs
	desc      string
	// the process environment the request was served under: the variables (named like the variables the configured
	// templates use) that were set to a foreign value; nil = none of them is set
	env [][2]string
}

func (cs c02Case) envString() string {
	var l []string
	for _, e := range cs.env {
		l = append(l, e[0]+"="+e[1])
	}
	return "[" + strings.Join(l, " ") + "]"
}

func (cs c02Case) envCoq() string {
	var l []string
	for _, e := range cs.env {
		l = append(l, "("+coqBS(e[0])+", "+coqBS(e[1])+")")
	}
	return "[" + strings.Join(l, "; ") + "]"
}

// every variable name the configured templates refer to: the identifiers after `$`, `${`, `${#`, `${!` in the
// keys and values, in order of first appearance; USERNAME (the one variable the expansion knows) always
func c02TemplateVariables(tpl []sshExtension) []string {
	isStart := func(c byte) bool { return c == '_' || (c >= 'a' && c <= 'z') || (c >= 'A' && c <= 'Z') }
	isPart := func(c byte) bool { return isStart(c) || (c >= '0' && c <= '9') }
	seen := map[string]bool{"USERNAME": true}
	out := []string{"USERNAME"}
	scan := func(s string) {
		for i := 0; i < len(s); i++ {
			if s[i] != '$' {
				continue
			}
			j := i + 1
			if j < len(s) && s[j] == '{' {
				j++
				if j < len(s) && (s[j] == '#' || s[j] == '!') {
					j++
				}
			}
			k := j
			if k < len(s) && isStart(s[k]) {
				for k < len(s) && isPart(s[k]) {
					k++
				}
			}
			if k > j && !seen[s[j:k]] {
				seen[s[j:k]] = true
				out = append(out, s[j:k])
			}
		}
	}
	for _, e := range tpl {
		scan(e.Key)
		scan(e.Value)
	}
	return out
}

// names the harness, the Go runtime or the code under test read for their own purposes are never touched
func c02EnvReserved(name string) bool {
	switch name {
	case "PATH", "HOME", "PWD", "TMPDIR", "TMP", "TEMP", "USER", "SHELL", "LANG", "TZ", "IFS":
		return true
	}
	return strings.HasPrefix(name, "GO") || strings.HasPrefix(name, "VERIF_") || strings.HasPrefix(name, "LC_") ||
		strings.HasPrefix(name, "SSH_") || strings.HasPrefix(name, "XDG_")
}

// run f with the given variables set (value nil: unset) in the process environment, and put back what was there
func c02WithEnv(vars map[string]*string, f func()) {
	type saved struct {
		val string
		ok  bool
	}
	old := map[string]saved{}
	for n := range vars {
		v, ok := os.LookupEnv(n)
		old[n] = saved{v, ok}
	}
	defer func() {
		for n, o := range old {
			if o.ok {
				os.Setenv(n, o.val)
			} else {
				os.Unsetenv(n)
			}
		}
	}()
	for n, v := range vars {
		if v == nil {
			os.Unsetenv(n)
		} else {
			os.Setenv(n, *v)
		}
	}
	f()
}

func c02Mapper(user string) func(string) string {
	return func(name string) string {
		if name == "USERNAME" {
			return user
		}
		return ""
	}
}

func TestVerif_C02(t *testing.T) {
	res := newVerifResult("12 server configurations (plain; extension templates + Kerberos realm + group database with prefix; Ed25519 CA + templates + normalisation disabled; templates whose expansion fails: command substitution in a value / in a name, arithmetic errors that depend on the length or the characters of the user name, unterminated forms; published-keys family: keymaster_public_keys_filename listing foreign keys / own main key / own Ed25519 key / both twice after a foreign key with an Ed25519 CA, own main key without one - reduced request set) x user names (case variants, dots, dashes, plus, UTF-8 precomposed / decomposed, trailing dot, 1 / 63 / 64 / 65 / 255 bytes, names sharing a 64-byte prefix, seeded random) x 7 key types/sizes x {ssh, x509, x509-kubernetes} x addGroups; requests for other names (case variants, prefixes, other users); logins with case variants; in every configuration with templates the SSH request of three users again with environment variables named like every variable the templates refer to set to foreign values (root, another user) in the process environment; non-trivial = a certificate was issued; distinct by (configuration, name, key, type, groups flag, outcome, environment)")
	rng := mrand.New(mrand.NewSource(verifSeed()))
	keys := c02Keys()
	_, edPriv, err := ed25519.GenerateKey(rand.Reader)
	c01Must(err)
	edDer, err := x509.MarshalPKCS8PrivateKey(edPriv)
	c01Must(err)
	edPEM := pem.EncodeToMemory(&pem.Block{Type: "PRIVATE KEY", Bytes: edDer})
	variants := c02Variants()
	names := []string{"alice", "bob", "a.b-c+d_e", "carol.o-neil", "x", "dave+ssh", "Alice", "BOB", "jürgen", "a b", "user@example.com",
		strings.Repeat("n", 64), strings.Repeat("long.name-", 25) + "12345",
		// the user-name family: lengths around 64, names sharing a long prefix (one the 64-byte prefix of the others),
		// names differing only in a trailing dot / in Unicode normalisation (precomposed above, decomposed here)
		strings.Repeat("m", 63), strings.Repeat("n", 65), strings.Repeat("n", 64) + "a", strings.Repeat("n", 64) + "b",
		strings.Repeat("svc-deploy-", 6) + "staging", strings.Repeat("svc-deploy-", 6) + "prod", "alice.", "ju\u0308rgen"}
	nRandom := 4
	if verifThorough() {
		nRandom = 60
	}
	alphabet := "abcdefghijklmnopqrstuvwxyzABCDEFGHIJKLMNOPQRSTUVWXYZ0123456789.-+_@"
	for i := 0; i < nRandom; i++ {
		n := 1 + rng.Intn(40)
		if rng.Intn(6) == 0 {
			n = 100 + rng.Intn(156)
		}
		b := make([]byte, n)
		for j := range b {
			b[j] = alphabet[rng.Intn(len(alphabet))]
		}
		names = append(names, string(b))
	}
	var cases []c02Case
	hit := func(key, oracle, what string, cs interface{}, obs interface{}) {
		res.hit(verifHit{Key: "C02:" + key, Oracle: oracle, What: what, Case: cs, Observed: obs})
	}
	for vi, v := range variants {
		env := c02Setup(t, v, edPEM)
		pubd := c02FetchPublished(t, env)
		wantCAs := 1
		if v.edCA {
			wantCAs = 2
		}
		distinct := map[string]bool{}
		for _, k := range pubd.sshKeys {
			distinct[string(k.Marshal())] = true
		}
		if len(distinct) != v.wantSSHKeys() || len(pubd.x509Roots) != wantCAs {
			hit("published-keys:"+v.name, "the server publishes the keys of its loaded signers (and the configured peer keys), each CA certificate once",
				fmt.Sprintf("%s: /public/sshca has %d distinct keys (expected %d), /public/x509ca %d certificates (expected %d)", v.name, len(distinct), v.wantSSHKeys(), len(pubd.x509Roots), wantCAs), v.name, nil)
		}
		issue := func(user, target string, typ int, ki int, addGroups bool, cred string) c02Obs {
			k := keys[ki]
			keyData := k.sshPub
			if typ != 0 {
				keyData = k.pemPub
			}
			var extra map[string]string
			if addGroups {
				extra = map[string]string{"addGroups": "true"}
			}
			req := verifCertgenRequest("POST", "x", c01Types[typ], keyData, nil, extra)
			req.URL.Path = certgenPath + target
			req.URL.RawPath = ""
			req.RequestURI = (&url.URL{Path: req.URL.Path}).EscapedPath()
			now := time.Now().Unix()
			req.AddCookie(authCookie(env.sessionJWT(user, AuthTypePassword|AuthTypeU2F, now-10, now-10, now+3600)))
			rr, _ := env.serve(req)
			return c02Decode(rr.Body.Bytes(), rr.Code, keys, pubd)
		}
		judge := func(cs c02Case) {
			o := cs.obs
			d := map[string]interface{}{"configuration": v.name, "user": cs.user, "url_name": cs.target, "type": c01Types[cs.typ], "key": keys[cs.key].name, "addGroups": cs.addGroups}
			ob := map[string]interface{}{"status": o.status, "names": o.names, "key_index": o.keyIdx, "signer": o.signer, "extensions": o.exts, "verify_error": o.verifyErr, "other_names": o.otherNames}
			shape := fmt.Sprintf("%s:%s", v.name, c01Types[cs.typ])
			if !o.issued {
				if o.parseErr != "" {
					hit("no-error:"+shape, "a response without certificate must be an error", o.parseErr, d, ob)
				}
				return
			}
			if cs.user != cs.target {
				hit("other-user-issued:"+shape, "a request made on behalf of another user name is refused",
					fmt.Sprintf("%s: session of %q, POST /certgen/%s -> certificate naming %q", v.name, cs.user, cs.target, o.names), d, ob)
			}
			if len(o.names) != 1 || o.names[0] != cs.user {
				hit("wrong-name:"+shape, "the certificate names exactly the authenticated user",
					fmt.Sprintf("%s: session of %q, /certgen/%s type=%s -> names %q", v.name, cs.user, cs.target, c01Types[cs.typ], o.names), d, ob)
			}
			if len(o.otherNames) > 0 {
				hit("extra-names:"+shape, "the certificate names exactly the authenticated user: no further principal, critical option, subject attribute or subject-alternative-name entry",
					fmt.Sprintf("%s: session of %q, /certgen/%s type=%s -> names %q and also %q", v.name, cs.user, cs.target, c01Types[cs.typ], o.names, o.otherNames), d, ob)
			}
			if o.keyIdx != cs.key {
				hit("wrong-key:"+shape, "the certificate certifies exactly the submitted key", fmt.Sprintf("%s: submitted %s, certified key index %d", v.name, keys[cs.key].name, o.keyIdx), d, ob)
			}
			if !o.userType || o.isCA || (!o.ssh && !o.ekuClient) {
				hit("not-end-entity:"+shape, "end-entity user certificate (SSH user type; X.509 non-CA with client-authentication usage)",
					fmt.Sprintf("%s: type=%s user_type/basic_constraints=%v is_ca=%v client_auth_eku=%v", v.name, c01Types[cs.typ], o.userType, o.isCA, o.ekuClient), d, ob)
			}
			if o.signer == 0 {
				hit("not-verifiable:"+shape, "the certificate verifies under the CA material the server publishes",
					fmt.Sprintf("%s: type=%s key=%s: %s", v.name, c01Types[cs.typ], keys[cs.key].name, o.verifyErr), d, ob)
			}
			if o.ssh {
				want := map[string]string{"permit-X11-forwarding": "", "permit-agent-forwarding": "", "permit-port-forwarding": "", "permit-pty": "", "permit-user-rc": ""}
				custom := map[string]string{}
				for _, e := range v.templates {
					k, err1 := shell.Expand(e.Key, c02Mapper(cs.user))
					val, err2 := shell.Expand(e.Value, c02Mapper(cs.user))
					if err1 != nil || err2 != nil {
						// "plus the operator-configured ones": a configured extension that cannot be produced for this
						// user means the set cannot be the required one - nothing may be issued
						pos := "value"
						if err1 != nil {
							pos = "name"
						}
						hit("extensions:unexpandable-template:"+pos, "SSH extensions are exactly the five standard ones plus the configured ones with the user name substituted: when a configured template cannot be expanded for the user no certificate may be issued",
							fmt.Sprintf("%s: user %q: template %q: %q does not expand (%v %v), yet an SSH certificate with extensions %q was issued", v.name, cs.user, e.Key, e.Value, err1, err2, o.exts), d, ob)
						continue
					}
					custom[k] = val
				}
				for k, val := range custom {
					if k != "" {
						want[k] = val
					}
				}
				if fmt.Sprintf("%q", want) != fmt.Sprintf("%q", o.exts) {
					hit("extensions:"+v.name, "SSH extensions are exactly the five standard ones plus the configured ones with the user name substituted",
						fmt.Sprintf("%s: user %q: extensions %q, expected %q", v.name, cs.user, o.exts, want), d, ob)
				}
			} else if v.realm != "" && (!o.krbOK || o.krb[0] != v.realm || o.krb[1] != cs.user) {
				hit("kerberos-san:"+v.name, "the PKINIT name is the authenticated user in the configured realm",
					fmt.Sprintf("%s: user %q: Kerberos SAN strings %q", v.name, cs.user, o.krb), d, ob)
			}
			if o.parseErr != "" {
				hit("undecodable:"+shape, "the certificate decodes", o.parseErr, d, ob)
			}
		}
		// injectivity: within one server, no two distinct authenticated users receive the same certified name
		certified := map[string]string{} // kind + certified name list -> authenticated user
		injective := func(cs c02Case) {
			o := cs.obs
			if !o.issued {
				return
			}
			kind := "x509"
			if o.ssh {
				kind = "ssh"
			}
			k := kind + "|" + fmt.Sprintf("%q", o.names)
			if prev, ok := certified[k]; ok && prev != cs.user {
				hit("names-injective:"+kind, "no two distinct authenticated users ever receive the same certified name",
					fmt.Sprintf("%s: users %q and %q both received a %s certificate for the name(s) %q", v.name, prev, cs.user, kind, o.names),
					map[string]interface{}{"configuration": v.name, "user": cs.user, "other_user": prev, "type": c01Types[cs.typ]}, map[string]interface{}{"names": o.names})
			} else if !ok {
				certified[k] = cs.user
			}
		}
		record := func(cs c02Case) {
			judge(cs)
			injective(cs)
			cases = append(cases, cs)
			res.eval(fmt.Sprintf("%d|%s|%s|%d|%d|%v|%v|%d|%s", cs.variant, cs.user, cs.target, cs.typ, cs.key, cs.addGroups, cs.obs.issued, cs.obs.status, cs.envString()), cs.obs.issued)
			if cs.obs.issued {
				res.bump("issued")
				res.bump("issued:" + c01Types[cs.typ])
				res.bump("issued:key:" + keys[cs.key].name)
			} else {
				res.bump(fmt.Sprintf("status_%d", cs.obs.status))
			}
			res.bump("configuration:" + v.name)
		}
		// ---- own name: every key type and certificate type for the first names, a rotating
		// choice for the rest
		// the failing-template family: its own names, SSH on two key types and one X.509 request each
		for _, name := range v.names {
			for _, tk := range [][2]int{{0, 0}, {0, 3}, {1, 3}} {
				o := issue(name, name, tk[0], tk[1], false, "cookie")
				record(c02Case{variant: vi, user: name, target: name, typ: tk[0], key: tk[1], obs: o})
			}
		}
		for ni, name := range names {
			if v.names != nil {
				break
			}
			if v.light && ni >= 2 && !(verifThorough() && ni < 6) {
				continue
			}
			for typ := 0; typ < 3; typ++ {
				for ki := range keys {
					full := ni < 3 || verifThorough()
					if v.light && (typ == 2 || (typ == 1 && ki%3 != 0) || (ni == 1 && typ == 0 && ki != 6 && ki != 3)) {
						continue
					}
					// the user-name family (everything after the first eleven names) is requested for EVERY certificate
					// type on one key type at least
					family := ni >= 11 && ki == 3
					if !full && !family && (ni+typ+ki)%4 != 0 {
						continue
					}
					if typ == 0 && !keys[ki].sshOK {
						continue
					}
					for _, ag := range []bool{false, true} {
						if ag && (typ == 0 || (!full && ki%2 == 1)) {
							continue
						}
						o := issue(name, name, typ, ki, ag, "cookie")
						record(c02Case{variant: vi, user: name, target: name, typ: typ, key: ki, addGroups: ag, obs: o})
					}
				}
			}
		}
		// ---- somebody else's name in the URL
		others := func(u string) []string {
			l := []string{strings.ToUpper(u), strings.Title(u), u + "x", u[:len(u)-1], u + "/", " " + u, u + " ", "bob", "root", ""}
			if len(u) > 1 {
				l = append(l, strings.ToUpper(u[:1])+u[1:], u[:1]+strings.ToUpper(u[1:]))
			}
			return l
		}
		for _, u := range []string{"alice", "a.b-c+d_e", "jürgen", "Alice"} {
			if v.light || v.names != nil {
				break
			}
			for oi, tgt := range others(u) {
				if tgt == u {
					continue
				}
				typ := oi % 3
				ki := 3
				o := issue(u, tgt, typ, ki, false, "cookie")
				record(c02Case{variant: vi, user: u, target: tgt, typ: typ, key: ki, obs: o})
				res.bump("other-name-in-url")
			}
		}
		// ---- the process environment.  The only variable an extension template may read is the authenticated user
		// (certgen.go expandSSHExtensions: mapper USERNAME -> username, everything else empty): the daemon's environment
		// is no input of the certificate.  Every state with templates is asked again with environment variables named
		// like EVERY variable its templates use set to foreign values (root, another user of the test set); the answer
		// must be the one for the authenticated user with the environment ignored, and the one obtained with the
		// variable unset.
		if len(v.templates) > 0 {
			vars := []string{}
			for _, n := range c02TemplateVariables(v.templates) {
				if !c02EnvReserved(n) {
					vars = append(vars, n)
				}
			}
			envNames := []string{"alice", "a.b-c+d_e", "bob"}
			if v.names != nil {
				envNames = v.names
				if len(envNames) > 3 && !verifThorough() {
					envNames = envNames[:3]
				}
			}
			unsetAll := map[string]*string{}
			for _, n := range vars {
				unsetAll[n] = nil
			}
			wantFor := func(user string) (map[string]string, bool) {
				want := map[string]string{"permit-X11-forwarding": "", "permit-agent-forwarding": "", "permit-port-forwarding": "", "permit-pty": "", "permit-user-rc": ""}
				custom := map[string]string{}
				for _, e := range v.templates {
					k, err1 := shell.Expand(e.Key, c02Mapper(user))
					val, err2 := shell.Expand(e.Value, c02Mapper(user))
					if err1 != nil || err2 != nil {
						return nil, false
					}
					custom[k] = val
				}
				for k, val := range custom {
					if k != "" {
						want[k] = val
					}
				}
				return want, true
			}
			for ni, name := range envNames {
				ki := 3
				var base c02Obs
				c02WithEnv(unsetAll, func() { base = issue(name, name, 0, ki, false, "cookie") })
				res.bump("environment:baseline")
				foreign := []string{"root", envNames[(ni+1)%len(envNames)]}
				for _, vn := range vars {
					for fi, fv := range foreign {
						if fv == name {
							continue
						}
						set := map[string]*string{}
						for _, n := range vars {
							set[n] = nil
						}
						val := fv
						set[vn] = &val
						typ := 0
						if fi == 1 && ni == 0 && vn == "USERNAME" {
							// one X.509 request per state under the foreign environment as well
							c02WithEnv(set, func() {
								o := issue(name, name, 1, ki, false, "cookie")
								record(c02Case{variant: vi, user: name, target: name, typ: 1, key: ki, obs: o, env: [][2]string{{vn, fv}}})
							})
							res.bump("environment:foreign")
						}
						var o c02Obs
						c02WithEnv(set, func() { o = issue(name, name, typ, ki, false, "cookie") })
						cs := c02Case{variant: vi, user: name, target: name, typ: typ, key: ki, obs: o, env: [][2]string{{vn, fv}}}
						record(cs)
						res.bump("environment:foreign")
						d := map[string]interface{}{"configuration": v.name, "user": name, "url_name": name, "type": c01Types[typ], "key": keys[ki].name,
							"environment": map[string]string{vn: fv}}
						ob := map[string]interface{}{"status": o.status, "names": o.names, "extensions": o.exts, "status_with_variable_unset": base.status, "extensions_with_variable_unset": base.exts}
						oracle := "the only variable an extension template reads is the authenticated user: the daemon's environment is no input of the certificate (the extension map is the one for the user with the environment ignored, and the one issued with the variable unset)"
						want, expands := wantFor(name)
						switch {
						case o.issued && o.ssh && expands && fmt.Sprintf("%q", want) != fmt.Sprintf("%q", o.exts):
							hit("extensions:environment-overrides-user", oracle,
								fmt.Sprintf("%s: with %s=%q in the daemon's environment the SSH certificate of user %q carries extensions %q; for the user %q with the environment ignored they are %q (with %s unset the server issued %q)", v.name, vn, fv, name, o.exts, name, want, vn, base.exts), d, ob)
						case o.issued && o.ssh && !expands:
							hit("extensions:environment-overrides-user", oracle,
								fmt.Sprintf("%s: with %s=%q in the daemon's environment user %q receives an SSH certificate with extensions %q although a configured template does not expand for the user name %q (with %s unset: status %d)", v.name, vn, fv, name, o.exts, name, vn, base.status), d, ob)
						case o.issued != base.issued || (o.issued && fmt.Sprintf("%q", o.exts) != fmt.Sprintf("%q", base.exts)):
							hit("extensions:environment-overrides-user", oracle,
								fmt.Sprintf("%s: user %q: with %s=%q in the daemon's environment status %d, extensions %q; with %s unset status %d, extensions %q", v.name, name, vn, fv, o.status, o.exts, vn, base.status, base.exts), d, ob)
						}
					}
				}
			}
		}
		// ---- the name a login mints a credential for (reprocessUsername), then the endpoint
		if vi == 0 || vi == 2 {
			for _, lu := range []struct{ submitted, password string }{{"alice", "alicepw"}, {"Alice", "alicepw"}, {"ALICE", "alicepw"}, {"a.B-c+D_e", "pw1"}, {"Carol.O-Neil", "pw2"}, {"X", "pw3"}} {
				form := url.Values{"username": {lu.submitted}, "password": {lu.password}}
				rr, _ := env.serve(verifNewRequest("POST", "/api/v0/login", form))
				want := lu.submitted
				if !v.noNorm {
					want = strings.ToLower(lu.submitted)
				}
				var sub string
				for _, ck := range rr.Result().Cookies() {
					if ck.Name == authCookieName {
						if info, err := env.state.getAuthInfoFromAuthJWT(ck.Value); err == nil {
							sub = info.Username
						}
					}
				}
				res.eval(fmt.Sprintf("login|%d|%s|%d|%s", vi, lu.submitted, rr.Code, sub), sub != "")
				res.bump("login")
				exists := want == strings.ToLower(want)
				if exists && sub != want {
					hit("login-name:"+v.name, "the session minted by a login is for the normalised submitted name",
						fmt.Sprintf("%s: login as %q -> status %d, session subject %q, expected %q", v.name, lu.submitted, rr.Code, sub, want), lu.submitted, sub)
				}
				if !exists && sub != "" {
					hit("login-name:"+v.name, "with normalisation disabled a differently spelled name is another account",
						fmt.Sprintf("%s: login as %q -> session subject %q", v.name, lu.submitted, sub), lu.submitted, sub)
				}
				logins = append(logins, c02Login{vi, lu.submitted, sub, v.noNorm})
			}
		}
	}
	// ---- the credential kind x name-spelling family (c02ident.go)
	identCases, identStates := c02IdentFamily(t, res, keys, hit)
	// ---- Coq cases
	var sb strings.Builder
	sb.WriteString(coqCaseHeader)
	sb.WriteString("From KM Require Import Base.Cases Model.Auth Model.Certgen Model.CertgenCases Model.CertgenObs Model.CertgenIdent Model.CertgenIdentObs.\nOpen Scope N_scope.\n")
	host := "keymaster.example"
	tplCoq := func(l []sshExtension) string {
		var p []string
		for _, e := range l {
			p = append(p, "("+coqBS(e.Key)+", "+coqBS(e.Value)+")")
		}
		return "[" + strings.Join(p, "; ") + "]"
	}
	for vi, v := range variants {
		sb.WriteString(fmt.Sprintf("Definition tpl_%d : list (bs * bs) := %s.\n", vi, tplCoq(v.templates)))
	}
	sb.WriteString("Definition mk (ed : bool) (extra : list N) (tpl : list (bs * bs)) (realm : option bs) (exp : list (bs * option bs)) (g m : option (list bs)) (u tg : bs) (ty : N) (k : option (N * bool)) (ag : bool) (ev : list (bs * bs)) (o : observed) : c02case :=\n  {| k_host := " + coqBS(host) + "; k_ed_ca := ed; k_extra := extra; k_templates := tpl; k_realm := realm; k_expansions := exp; k_groups := g; k_methods := m; k_user := u; k_target := tg; k_type := ty; k_key := k; k_add_groups := ag; k_env := ev; k_obs := o |}.\n")
	sb.WriteString("Definition ob (issued err ssh : bool) (names : list bs) (keyid : bs) (key : N) (ut ca ec ep : bool) (ex : list (bs * bs)) (sg : N) (orgs gr me : list bs) (krb : option (bs * bs)) (other : list bs) : observed :=\n  {| o_issued := issued; o_error := err; o_ssh := ssh; o_names := names; o_keyid := keyid; o_key := key; o_user_type := ut; o_is_ca := ca; o_eku_client := ec; o_eku_pkinit := ep; o_exts := ex; o_signer := sg; o_orgs := orgs; o_groups := gr; o_methods := me; o_krb := krb; o_other_names := other |}.\n")
	// the shell-expansion oracle per (configuration, user), shared by the cases of that user: every template
	// string -> its expansion, None when the expander rejects it for this user
	expName := map[string]string{}
	for _, cs := range cases {
		v := variants[cs.variant]
		k := fmt.Sprintf("%d|%s", cs.variant, cs.user)
		if _, ok := expName[k]; ok {
			continue
		}
		var exp []string
		seen := map[string]bool{}
		for _, e := range v.templates {
			for _, s := range []string{e.Key, e.Value} {
				if seen[s] {
					continue
				}
				seen[s] = true
				val, err := shell.Expand(s, c02Mapper(cs.user))
				if err != nil {
					exp = append(exp, "("+coqBS(s)+", None)")
				} else {
					exp = append(exp, "("+coqBS(s)+", Some "+coqBS(val)+")")
				}
			}
		}
		if len(exp) == 0 {
			expName[k] = "[]"
			continue
		}
		name := fmt.Sprintf("exp_%d", len(expName))
		expName[k] = name
		sb.WriteString(fmt.Sprintf("Definition %s : list (bs * option bs) := [%s].\n", name, strings.Join(exp, "; ")))
	}
	sb.WriteString("Definition cases : list c02case := [\n")
	var idx strings.Builder
	for i, cs := range cases {
		v := variants[cs.variant]
		realm := "None"
		if v.realm != "" {
			realm = "(Some " + coqBS(v.realm) + ")"
		}
		k := keys[cs.key]
		keyLit := fmt.Sprintf("(Some (%d, %s))", cs.key, coqBool(k.isEd))
		if cs.typ == 0 && !k.sshOK {
			keyLit = "None"
		}
		o := cs.obs
		krb := "None"
		if len(o.krb) == 2 {
			krb = "(Some (" + coqBS(o.krb[0]) + ", " + coqBS(o.krb[1]) + "))"
		} else if len(o.krb) > 0 {
			krb = "(Some (" + coqBS("?undecodable") + ", " + coqBS(strings.Join(o.krb, "|")) + "))"
		}
		sep := ";"
		if i == len(cases)-1 {
			sep = ""
		}
		sb.WriteString(fmt.Sprintf(" mk %s %s tpl_%d %s %s %s %s %s %s %d %s %s %s\n   (ob %s %s %s %s %s %d %s %s %s %s %s %d %s %s %s %s %s)%s\n",
			coqBool(v.edCA), v.extraCoq(), cs.variant, realm, expName[fmt.Sprintf("%d|%s", cs.variant, cs.user)],
			coqOptBSList(c02ExpectedGroups(v, cs.user), true), coqOptBSList(c02ExpectedMethods(v, cs.user), true),
			coqBS(cs.user), coqBS(cs.target), cs.typ, keyLit, coqBool(cs.addGroups), cs.envCoq(),
			coqBool(o.issued), coqBool(o.status >= 400), coqBool(o.ssh), coqBSList(o.names), coqBS(o.keyid), o.keyIdx,
			coqBool(o.userType), coqBool(o.isCA), coqBool(o.ekuClient), coqBool(o.ekuPkinit), coqPairs(o.exts), o.signer,
			coqBSList(o.orgs), coqBSList(o.groups), coqBSList(o.methods), krb, coqBSList(o.otherNames), sep))
		idx.WriteString(fmt.Sprintf("%d\tconfiguration=%s environment=%s user=%q url=%q type=%s key=%s addGroups=%v -> status=%d issued=%v names=%q key#%d signer=%d exts=%q orgs=%q groups=%q krb=%q other_names=%q\n",
			i, v.name, cs.envString(), cs.user, cs.target, c01Types[cs.typ], k.name, cs.addGroups, o.status, o.issued, o.names, o.keyIdx, o.signer, o.exts, o.orgs, o.groups, o.krb, o.otherNames))
	}
	sb.WriteString("].\nDefinition c02_diffv := Eval vm_compute in c02_diffv_from cases 0.\n")
	sb.WriteString("Definition c02_mismatches := Eval vm_compute in map fst c02_diffv.\nPrint c02_mismatches.\n")
	// the property's predicate (Model/CertgenObs.v c02_violation) on the OBSERVED answer of every mismatching case
	sb.WriteString("Definition c02_violating := Eval vm_compute in c02_filter_violating c02_diffv.\nPrint c02_violating.\n")
	sb.WriteString("Definition c02_ncases := Eval vm_compute in length cases.\nPrint c02_ncases.\n")
	// logins: session subject = model normalise of the submitted name (ASCII names)
	sb.WriteString("Definition logins : list (bool * bs * bs) := [")
	for i, l := range logins {
		if i > 0 {
			sb.WriteString("; ")
		}
		sb.WriteString(fmt.Sprintf("(%s, %s, %s)", coqBool(l.noNorm), coqBS(l.submitted), coqBS(l.subject)))
	}
	sb.WriteString("].\nDefinition c02_login_mismatches := Eval vm_compute in mismatches (fun c : bool * bs * bs => let '(d, s, sub) := c in negb (match sub with [] => true | _ => bs_eqb (normalise None d s) sub end)) logins.\nPrint c02_login_mismatches.\n")
	identCoq, identIdx := c02IdentCoq(identCases, identStates, keys, host)
	sb.WriteString(identCoq)
	ioutil.WriteFile(filepath.Join(verifOut(), "CasesC02ident.idx"), []byte(identIdx), 0644)
	if err := ioutil.WriteFile(filepath.Join(verifOut(), "CasesC02.v"), []byte(sb.String()), 0644); err != nil {
		t.Fatal(err)
	}
	ioutil.WriteFile(filepath.Join(verifOut(), "CasesC02.idx"), []byte(idx.String()), 0644)
	for _, i := range []int{0, len(cases) / 3, len(cases) / 2, len(cases) - 1} {
		cs := cases[i]
		res.sample(map[string]interface{}{"configuration": variants[cs.variant].name, "user": cs.user, "url_name": cs.target, "type": c01Types[cs.typ],
			"key": keys[cs.key].name, "status": cs.obs.status, "names": cs.obs.names, "signer": cs.obs.signer})
	}
	res.write(t, "TestVerif_C02")
}

type c02Login struct {
	variant   int
	submitted string
	subject   string
	noNorm    bool
}

var logins []c02Login

var _ = http.StatusOK
