package main

// C02 — the credential kind x name-spelling family: "names exactly the authenticated (NORMALISED) user" on
// every path by which a certificate request can authenticate with a name whose spelling the client
// chooses: the session cookie of a login (by form, by Basic header), the Basic header on the
// certificate request itself, a client certificate of this keymaster.  For every spelling family of an
// account (case variants, mail domains the Okta filter removes, surrounding blanks, a line feed) the
// request is made for the URL segment spelled the same way and for the account's own spelling.  The
// password backend is wrapped by a recorder: the accounts it was asked about, and which of them it
// accepted, are observables.  Model: Model/CertgenIdent.v, case evaluation Model/CertgenIdentObs.v.

import (
	"fmt"
	"net"
	"net/http"
	"net/url"
	"os"
	"regexp"
	"strings"
	"sync"
	"testing"
	"time"

	"github.com/Cloud-Foundations/keymaster/lib/pwauth"
	"github.com/Cloud-Foundations/keymaster/lib/simplestorage"
	"golang.org/x/crypto/bcrypt"
	"golang.org/x/time/rate"
)

// ---- the recording wrapper around whatever password backend the configuration loader built
type c02Asked struct {
	name string
	ok   bool
}

type c02RecordingChecker struct {
	mu    sync.Mutex
	inner pwauth.PasswordAuthenticator
	asked []c02Asked
}

func (c *c02RecordingChecker) PasswordAuthenticate(username string, password []byte) (bool, error) {
	ok, err := c.inner.PasswordAuthenticate(username, password)
	c.mu.Lock()
	c.asked = append(c.asked, c02Asked{username, ok && err == nil})
	c.mu.Unlock()
	return ok, err
}

func (c *c02RecordingChecker) UpdateStorage(storage simplestorage.SimpleStore) error {
	return c.inner.UpdateStorage(storage)
}

func (c *c02RecordingChecker) take() []c02Asked {
	c.mu.Lock()
	defer c.mu.Unlock()
	l := c.asked
	c.asked = nil
	return l
}

// a password backend that is a table (stands for the Okta service: the daemon's Okta backend posts the
// pair to the service and takes its answer)
type c02TableChecker struct{ accounts map[string]string }

func (c *c02TableChecker) PasswordAuthenticate(username string, password []byte) (bool, error) {
	pw, ok := c.accounts[username]
	return ok && pw == string(password), nil
}
func (c *c02TableChecker) UpdateStorage(storage simplestorage.SimpleStore) error { return nil }

func c02Bcrypt(password string) string {
	h, err := bcrypt.GenerateFromPassword([]byte(password), 4)
	c01Must(err)
	hs := string(h)
	if strings.HasPrefix(hs, "$2a$") {
		hs = "$2y$" + hs[4:]
	}
	return hs
}

func c02AppendFile(path, text string) {
	f, err := os.OpenFile(path, os.O_APPEND|os.O_WRONLY, 0644)
	c01Must(err)
	f.WriteString(text)
	c01Must(f.Close())
}

// ---- configurations
type c02IdentState struct {
	name   string
	okta   bool
	noNorm bool
	realm  string
	// accounts beside verifUsers / c02ExtraUsers (htpasswd lines; the table of the Okta state)
	extraAccounts []verifUser
}

func c02IdentStates() []c02IdentState {
	return []c02IdentState{
		{name: "password-for-certs", realm: "EXAMPLE.COM"},
		{name: "password-for-certs, normalisation disabled", noNorm: true, extraAccounts: []verifUser{{"Alice", "Alicepw2"}, {"ALICE", "upperpw"}}},
		{name: "password-for-certs, okta filter", okta: true},
		{name: "password-for-certs, okta filter, normalisation disabled", okta: true, noNorm: true, extraAccounts: []verifUser{{"Alice", "Alicepw2"}}},
	}
}

func (s c02IdentState) accounts() []verifUser {
	l := append([]verifUser{}, verifUsers...)
	l = append(l, c02ExtraUsers...)
	return append(l, s.extraAccounts...)
}

var c02IdentKinds = []string{"", "login-form", "login-basic", "basic", "client-certificate", "ip-restricted-certificate"}

// automation_users of the identity states: exact strings, one of them not in lower case
var c02AutomationUsers = []string{"svc-automation", "Deploy-Bot"}

type c02Spelling struct {
	family string
	typed  string
}

func c02AltCase(s string) string {
	b := []byte(s)
	for i := range b {
		if i%2 == 1 && b[i] >= 'a' && b[i] <= 'z' {
			b[i] -= 32
		}
	}
	return string(b)
}

// the spelling families of an account name
func c02Spellings(a string) []c02Spelling {
	return []c02Spelling{
		{"as-the-account", a},
		{"upper-case", strings.ToUpper(a)},
		{"title-case", strings.ToUpper(a[:1]) + a[1:]},
		{"mixed-case", c02AltCase(a)},
		{"mail-domain", a + "@company.com"},
		{"mail-domain+case", strings.ToUpper(a[:1]) + a[1:] + "@Company.COM"},
		{"two-mail-domains", a + "@company.com@blah"},
		{"blank-before", " " + a},
		{"blank-after", a + " "},
		{"line-feed-after", a + "\n"},
		{"line-feed-inside-domain", a + "@company\n.com"},
	}
}

type c02IdentCase struct {
	state   int
	kind    int
	family  string
	account string // the account the spelling was derived from (documentation only)
	typed   string
	pw      string
	target  string
	typ     int
	key     int
	asked   []string
	subject string
	hasSub  bool
	obs     c02Obs
}

func c02IdentSetup(t *testing.T, s c02IdentState) (*verifEnv, *c02RecordingChecker) {
	env := verifSetup(t, func(c *AppConfigFile, dir string) {
		c.Base.AllowedAuthBackendsForWebUI = []string{"password"}
		// the only setting under which the Basic header (and a password-level session) is enough for a certificate
		c.Base.AllowedAuthBackendsForCerts = []string{"password"}
		c.Base.KerberosRealm = s.realm
		c.Base.DisableUsernameNormalization = s.noNorm
		c.Base.AutomationUsers = c02AutomationUsers
		var sb strings.Builder
		for _, u := range append(append([]verifUser{}, c02ExtraUsers...), s.extraAccounts...) {
			sb.WriteString(u.name + ":" + c02Bcrypt(u.password) + "\n")
		}
		c02AppendFile(c.Base.HtpasswdFilename, sb.String())
		if s.okta {
			c.Okta.Domain = "verif-fake" // the loader compiles the default user-name filter
		}
	})
	st := env.state
	st.passwordAttemptGlobalLimiter = rate.NewLimiter(rate.Inf, 1)
	rec := &c02RecordingChecker{inner: st.passwordChecker}
	if s.okta {
		tbl := &c02TableChecker{accounts: map[string]string{}}
		for _, u := range s.accounts() {
			tbl.accounts[u.name] = u.password
		}
		rec.inner = tbl
	}
	st.passwordChecker = rec
	return env, rec
}

func c02IdentFamily(t *testing.T, res *verifResult, keys []*c02Key, hit func(key, oracle, what string, cs interface{}, obs interface{})) ([]c02IdentCase, []c02IdentState) {
	states := c02IdentStates()
	var cases []c02IdentCase
	bases := []string{"alice", "a.b-c+d_e"}
	if verifThorough() {
		bases = append(bases, "bob", "carol.o-neil", "x")
	}
	for si, s := range states {
		env, rec := c02IdentSetup(t, s)
		if s.okta != (env.state.oktaUsernameFilterRE != nil) {
			t.Fatalf("identity family %s: okta filter configured=%v", s.name, env.state.oktaUsernameFilterRE != nil)
		}
		pubd := c02FetchPublished(t, env)
		pwOf := map[string]string{}
		for _, u := range s.accounts() {
			pwOf[u.name] = u.password
		}
		run := func(kind int, family, account, typed, pw, target string, typ, ki int) {
			rec.take()
			if (len(cases)/3)%2 == 1 {
				ki = 0 // RSA 2048 for every other triple of cases
			}
			cs := c02IdentCase{state: si, kind: kind, family: family, account: account, typed: typed, pw: pw, target: target, typ: typ, key: ki}
			k := keys[ki]
			keyData := k.sshPub
			if typ != 0 {
				keyData = k.pemPub
			}
			req := verifCertgenRequest("POST", "x", c01Types[typ], keyData, nil, nil)
			req.URL.Path = certgenPath + target
			req.URL.RawPath = ""
			req.RequestURI = (&url.URL{Path: req.URL.Path}).EscapedPath()
			switch kind {
			case 1, 2:
				var lreq *http.Request
				if kind == 1 {
					lreq = verifNewRequest("POST", "/api/v0/login", url.Values{"username": {typed}, "password": {pw}})
				} else {
					lreq = verifNewRequest("POST", "/api/v0/login", url.Values{})
					lreq.SetBasicAuth(typed, pw)
				}
				lrr, _ := env.serve(lreq)
				for _, ck := range lrr.Result().Cookies() {
					if ck.Name == authCookieName {
						if info, err := env.state.getAuthInfoFromAuthJWT(ck.Value); err == nil {
							cs.subject, cs.hasSub = info.Username, true
						}
						req.AddCookie(authCookie(ck.Value))
					}
				}
			case 3:
				req.SetBasicAuth(typed, pw)
			case 4:
				withTLS(req, env.keymasterChain(typed, time.Now().Add(-time.Minute), keys[3].pub), "")
			case 5:
				withTLS(req, env.ipRestrictedChain(typed, []net.IPNet{mustCIDR("10.0.0.0/8")}, keys[3].pub), "10.1.2.3:34567")
			}
			rr, _ := env.serve(req)
			cs.obs = c02Decode(rr.Body.Bytes(), rr.Code, keys, pubd)
			accepted := map[string]bool{}
			seen := map[string]bool{}
			for _, a := range rec.take() {
				if !seen[a.name] {
					seen[a.name] = true
					cs.asked = append(cs.asked, a.name)
				}
				if a.ok {
					accepted[a.name] = true
				}
			}
			// ---- the property's predicate, from the observations alone: the authenticated user is the account the
			// password backend accepted the password for (a certificate: its common name)
			kn := c02IdentKinds[kind]
			d := map[string]interface{}{"configuration": s.name, "credential": kn, "spelling": family, "typed_name": typed, "url_name": target, "type": c01Types[typ],
				"password_is_the_account's": pw == pwOf[account]}
			ob := map[string]interface{}{"status": cs.obs.status, "names": cs.obs.names, "backend_asked_about": cs.asked, "session_subject": cs.subject}
			if kind == 4 {
				accepted = map[string]bool{typed: true}
			}
			if kind == 5 {
				// the authenticated user of an IP-restricted certificate: its common name, which must be a configured automation user
				accepted = map[string]bool{}
				for _, au := range c02AutomationUsers {
					if au == typed {
						accepted[typed] = true
					}
				}
			}
			if cs.hasSub && !accepted[cs.subject] {
				hit("identity:"+kn+":session-subject-not-verified-account", "the session a login mints is for the account whose password the backend accepted",
					fmt.Sprintf("%s: login (%s) as %q -> session subject %q; the backend accepted the password for %q", s.name, kn, typed, cs.subject, c02Keys1(accepted)), d, ob)
			}
			if cs.obs.issued {
				if len(cs.obs.names) != 1 || !accepted[cs.obs.names[0]] {
					hit("identity:"+kn+":certified-name-not-verified-account", "the certificate names exactly the authenticated (normalised) user: the account the credential was verified for",
						fmt.Sprintf("%s: %s as %q (%s), POST /certgen/%s type=%s -> certificate naming %q; the credential was verified for the account %q",
							s.name, kn, typed, family, target, c01Types[typ], cs.obs.names, c02Keys1(accepted)), d, ob)
				}
				if !accepted[target] {
					hit("identity:"+kn+":other-name-served", "a request made on behalf of any other name than the authenticated (normalised) user is refused",
						fmt.Sprintf("%s: %s as %q (%s), POST /certgen/%s type=%s -> status %d, certificate naming %q; the credential was verified for the account %q",
							s.name, kn, typed, family, target, c01Types[typ], cs.obs.status, cs.obs.names, c02Keys1(accepted)), d, ob)
				}
				if len(cs.obs.otherNames) > 0 || cs.obs.keyIdx != ki || cs.obs.signer == 0 {
					hit("identity:"+kn+":certificate", "key, verification under the published CA material, no further identity", fmt.Sprintf("%s: key#%d signer=%d other names %q", s.name, cs.obs.keyIdx, cs.obs.signer, cs.obs.otherNames), d, ob)
				}
			}
			cases = append(cases, cs)
			res.eval(fmt.Sprintf("ident|%d|%d|%s|%s|%s|%d|%v|%d", si, kind, typed, pw, target, typ, cs.obs.issued, cs.obs.status), cs.obs.issued)
			res.bump("identity-family")
			res.bump("identity:" + kn)
			if cs.obs.issued {
				res.bump("identity:issued:" + family)
			}
		}
		n := 0
		for bi, a := range bases {
			for pi, sp := range c02Spellings(a) {
				if bi > 0 && !verifThorough() && pi%3 != bi%3 && pi > 1 {
					continue
				}
				for kind := 1; kind <= 4; kind++ {
					// the URL segment spelled as typed, and spelled as the account
					targets := []string{sp.typed}
					if sp.typed != a {
						targets = append(targets, a)
					}
					if l := strings.ToLower(sp.typed); l != sp.typed && l != a && (verifThorough() || (pi+kind)%2 == 0) {
						targets = append(targets, l)
					}
					for _, tg := range targets {
						n++
						run(kind, sp.family, a, sp.typed, pwOf[a], tg, n%3, 3)
					}
				}
			}
			// the wrong password (another account's), and the password of the differently spelled account
			for kind := 1; kind <= 3; kind++ {
				for _, typed := range []string{a, strings.ToUpper(a[:1]) + a[1:]} {
					n++
					run(kind, "wrong-password", a, typed, "not-the-password", a, n%3, 3)
					if tpw, ok := pwOf[typed]; ok && typed != a {
						// normalisation disabled: "Alice" is an account of its own, with its own password
						n++
						run(kind, "other-account-same-letters", typed, typed, tpw, typed, n%3, 3)
						n++
						run(kind, "other-account-same-letters", typed, typed, tpw, a, n%3, 3)
					}
				}
			}
		}
		// IP-restricted automation certificates: the common name is compared with automation_users byte for byte
		for _, a := range c02AutomationUsers {
			for pi, sp := range c02Spellings(a) {
				if !verifThorough() && pi > 4 && pi != 8 {
					continue
				}
				targets := []string{sp.typed}
				if sp.typed != a {
					targets = append(targets, a)
				}
				if l := strings.ToLower(sp.typed); l != sp.typed && l != a {
					targets = append(targets, l)
				}
				for _, tg := range targets {
					n++
					run(5, sp.family, a, sp.typed, "", tg, n%3, 3)
				}
			}
		}
		// the empty name
		for kind := 1; kind <= 5; kind++ {
			run(kind, "empty-name", "", "", "alicepw", "alice", 0, 3)
		}
	}
	return cases, states
}

func c02Keys1(m map[string]bool) []string {
	var l []string
	for k := range m {
		l = append(l, k)
	}
	return l
}

// the cases as a Coq list (appended to CasesC02.v) and their index lines
func c02IdentCoq(cases []c02IdentCase, states []c02IdentState, keys []*c02Key, host string) (string, string) {
	var sb, idx strings.Builder
	for si, s := range states {
		var p []string
		for _, u := range s.accounts() {
			p = append(p, "("+coqBS(u.name)+", "+coqBS(u.password)+")")
		}
		sb.WriteString(fmt.Sprintf("Definition ident_accounts_%d : list (bs * bs) := [%s].\n", si, strings.Join(p, "; ")))
	}
	var au []string
	for _, a := range c02AutomationUsers {
		au = append(au, coqBS(a))
	}
	sb.WriteString("Definition ident_automation : list bs := [" + strings.Join(au, "; ") + "].\n")
	sb.WriteString("Definition imk (okta dis : bool) (realm : option bs) (acc : list (bs * bs)) (kind : N) (typed pw tg : bs) (ty : N) (k : option (N * bool)) (asked : list bs) (sub : option bs) (o : observed) : identcase :=\n  {| i_host := " + coqBS(host) + "; i_okta := okta; i_disable := dis; i_realm := realm; i_accounts := acc; i_automation := ident_automation; i_kind := kind; i_typed := typed; i_pw := pw; i_target := tg; i_type := ty; i_key := k; i_asked := asked; i_subject := sub; i_obs := o |}.\n")
	sb.WriteString("Definition ident_cases : list identcase := [\n")
	for i, cs := range cases {
		s := states[cs.state]
		realm := "None"
		if s.realm != "" {
			realm = "(Some " + coqBS(s.realm) + ")"
		}
		k := keys[cs.key]
		keyLit := fmt.Sprintf("(Some (%d, %s))", cs.key, coqBool(k.isEd))
		o := cs.obs
		krb := "None"
		if len(o.krb) == 2 {
			krb = "(Some (" + coqBS(o.krb[0]) + ", " + coqBS(o.krb[1]) + "))"
		} else if len(o.krb) > 0 {
			krb = "(Some (" + coqBS("?undecodable") + ", " + coqBS(strings.Join(o.krb, "|")) + "))"
		}
		sub := "None"
		if cs.hasSub {
			sub = "(Some " + coqBS(cs.subject) + ")"
		}
		sep := ";"
		if i == len(cases)-1 {
			sep = ""
		}
		sb.WriteString(fmt.Sprintf(" imk %s %s %s ident_accounts_%d %d %s %s %s %d %s %s %s\n   (ob %s %s %s %s %s %d %s %s %s %s %s %d %s %s %s %s %s)%s\n",
			coqBool(s.okta), coqBool(s.noNorm), realm, cs.state, cs.kind, coqBS(cs.typed), coqBS(cs.pw), coqBS(cs.target), cs.typ, keyLit, coqBSList(cs.asked), sub,
			coqBool(o.issued), coqBool(o.status >= 400), coqBool(o.ssh), coqBSList(o.names), coqBS(o.keyid), o.keyIdx,
			coqBool(o.userType), coqBool(o.isCA), coqBool(o.ekuClient), coqBool(o.ekuPkinit), coqPairs(o.exts), o.signer,
			coqBSList(o.orgs), coqBSList(o.groups), coqBSList(o.methods), krb, coqBSList(o.otherNames), sep))
		idx.WriteString(fmt.Sprintf("%d\tconfiguration=%s credential=%s spelling=%s typed=%q password=%q url=%q type=%s -> backend asked about %q, session subject %q, status=%d issued=%v names=%q key#%d signer=%d krb=%q other_names=%q\n",
			i, s.name, c02IdentKinds[cs.kind], cs.family, cs.typed, cs.pw, cs.target, c01Types[cs.typ], cs.asked, cs.subject, o.status, o.issued, o.names, o.keyIdx, o.signer, o.krb, o.otherNames))
	}
	sb.WriteString("].\nDefinition c02_ident_diffv := Eval vm_compute in ident_diffv_from ident_cases 0.\n")
	sb.WriteString("Definition c02_ident_mismatches := Eval vm_compute in map fst c02_ident_diffv.\nPrint c02_ident_mismatches.\n")
	sb.WriteString("Definition c02_ident_violating := Eval vm_compute in c02_filter_violating c02_ident_diffv.\nPrint c02_ident_violating.\n")
	sb.WriteString("Definition c02_ident_ncases := Eval vm_compute in length ident_cases.\nPrint c02_ident_ncases.\n")
	// the model's Okta filter against the compiled default expression, on every typed name of the family
	re := regexp.MustCompile(defaultOktaUsernameFilterRegexp)
	seen := map[string]bool{}
	var p []string
	for _, cs := range cases {
		for _, s := range []string{cs.typed, strings.ToLower(cs.typed)} {
			if !seen[s] {
				seen[s] = true
				p = append(p, "("+coqBS(s)+", "+coqBS(string(re.ReplaceAll([]byte(s), nil)))+")")
			}
		}
	}
	sb.WriteString("Definition okta_filter_table : list (bs * bs) := [" + strings.Join(p, "; ") + "].\n")
	sb.WriteString("Definition c02_okta_filter_mismatches := Eval vm_compute in mismatches (fun c : bs * bs => negb (bs_eqb (okta_at_filter (fst c)) (snd c))) okta_filter_table.\nPrint c02_okta_filter_mismatches.\n")
	return sb.String(), idx.String()
}
