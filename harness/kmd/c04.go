package main

// C04 — every signed artefact against every consumer, through the real endpoints / functions:
// producer x consumer matrix (cold and after the artefact was honoured by its own consumer),
// single-claim mutations signed three ways, header substitutions, byte corruption.
// Observables: accept/reject, whom the answer names, re-issued artefacts, Set-Cookie, DB digest.

import (
	"crypto/sha256"
	"database/sql"
	"encoding/json"
	"fmt"
	"io/ioutil"
	"math/rand"
	"net/http"
	"net/http/httptest"
	"net/url"
	"os"
	"path/filepath"
	"regexp"
	"sort"
	"strings"
	"testing"
	"time"

	"github.com/Cloud-Foundations/keymaster/lib/paths"
	"github.com/Cloud-Foundations/keymaster/lib/webapi/v0/proto"
)

const (
	c04ClientA   = "clientA"
	c04SecretA   = "sec ret&A=1"
	c04ClientB   = "clientB"
	c04RedirectA = "https://app.a.example/cb"
	c04RedirectB = "https://app.b.example/cb"
	c04DataType  = 7
)

func c04Config(c *AppConfigFile, dir string) {
	c.Base.AllowedAuthBackendsForWebUI = []string{"password"}
	c.Base.AllowedAuthBackendsForCerts = []string{"U2F"}
	c.Base.WebauthTokenForCliLifetime = 10 * time.Minute
	c.OpenIDConnectIDP.Client = []OpenIDConnectClientConfig{
		{ClientID: c04ClientA, ClientSecret: c04SecretA, AllowedRedirectDomains: []string{"a.example"}},
		{ClientID: c04ClientB, ClientSecret: "", AllowedRedirectDomains: []string{"b.example"}},
		// a second confidential client: the two-channel product of c04_channels.go needs a client that
		// can authenticate with credentials of its own while naming another one
		{ClientID: c04ClientC, ClientSecret: c04SecretC, AllowedRedirectDomains: []string{"c.example"}},
	}
}

type c04Obs struct {
	ok       bool
	user     string
	hasUser  bool
	emitted  []string
	status   int
	cookies  []string
	data     string
	t0, t1   int64
	db0, db1 string
}

type c04Consumer struct {
	name string // stable name used in oracle keys
	kind string // session | cli | storage | code | access
	// run returns the observation and the Coq term of the consumer (parameters may depend on the call)
	run func(raw string) (c04Obs, string)
}

var c04JWTRe = regexp.MustCompile(`eyJ[A-Za-z0-9_-]+\.[A-Za-z0-9_-]+\.[A-Za-z0-9_-]*`)

func c04KindField(kind string) string {
	if kind == "code" || kind == "access" {
		return "type"
	}
	return "token_type"
}

var c04KindConst = map[string]string{"session": "keymaster_auth", "cli": "keymaster_webauth_for_cli_identity",
	"storage": "storage_data", "code": "token_endpoint", "access": "bearer"}

// ---------------------------------------------------------------- producers (real paths)

type c04Produced struct {
	session, sessionLogin, cli, cliPage, storage, code, access, id *symTok
}

func (env *verifEnv) c04Authorize(t *testing.T, user, client, redirect string, extra url.Values) (string, int) {
	q := url.Values{"response_type": {"code"}, "client_id": {client}, "scope": {"openid"}, "redirect_uri": {redirect},
		"nonce": {"nonce-12345"}, "state": {"st"}}
	for k, v := range extra {
		q[k] = v
	}
	req := verifNewRequest("GET", idpOpenIDCAuthorizationPath, q)
	req.AddCookie(env.cookie(user, AuthTypePassword))
	rr, _ := env.serve(req)
	if rr.Code != 302 {
		return "", rr.Code
	}
	loc, err := url.Parse(rr.Header().Get("Location"))
	if err != nil {
		return "", rr.Code
	}
	return loc.Query().Get("code"), rr.Code
}

func (env *verifEnv) c04Token(form url.Values, basicUser, basicPass string, useBasic bool) (int, string, string) {
	req := verifNewRequest("POST", idpOpenIDCTokenPath, form)
	if useBasic {
		req.SetBasicAuth(basicUser, basicPass)
	}
	rr, _ := env.serve(req)
	if rr.Code != 200 {
		return rr.Code, "", ""
	}
	var tr tokenResponse
	if json.Unmarshal(rr.Body.Bytes(), &tr) != nil {
		return rr.Code, "", ""
	}
	return rr.Code, tr.IDToken, tr.AccessToken
}

func (env *verifEnv) c04Produce(t *testing.T) *c04Produced {
	st := env.state
	sid := env.signerKeyID()
	p := &c04Produced{}
	// session cookie: the function every login path ends in, and the password login endpoint itself
	v, err := st.setNewAuthCookie(nil, "alice", AuthTypePassword)
	if err != nil {
		t.Fatal(err)
	}
	p.session = newSymTok(v, sid, false, "producer:session(setNewAuthCookie)")
	req := verifNewRequest("POST", proto.LoginPath, url.Values{"username": {"alice"}, "password": {"alicepw"}})
	rr, _ := env.serve(req)
	for _, c := range rr.Result().Cookies() {
		if c.Name == authCookieName && c.Value != "" {
			p.sessionLogin = newSymTok(c.Value, sid, false, "producer:session(login endpoint)")
		}
	}
	if p.sessionLogin == nil {
		t.Fatalf("login endpoint set no cookie: %d %s", rr.Code, rr.Body.String())
	}
	// CLI web-auth token: function and page
	v, err = st.generateAuthJWT("alice")
	if err != nil {
		t.Fatal(err)
	}
	p.cli = newSymTok(v, sid, false, "producer:cli(generateAuthJWT)")
	req = verifNewRequest("GET", paths.ShowAuthToken, nil)
	req.AddCookie(env.cookie("alice", AuthTypePassword))
	rr, _ = env.serve(req)
	if m := c04JWTRe.FindString(rr.Body.String()); m != "" {
		p.cliPage = newSymTok(m, sid, false, "producer:cli(showAuthToken page)")
	} else {
		t.Fatalf("showAuthToken page carries no token: %d", rr.Code)
	}
	// storage record
	if err := st.UpsertSigned("alice", c04DataType, time.Now().Unix()+5000, "argon2-hash-of-alice"); err != nil {
		t.Fatal(err)
	}
	var jws string
	if err := st.db.QueryRow("select jws_data from expiring_signed_user_data where username=? and type=?", "alice", c04DataType).Scan(&jws); err != nil {
		t.Fatal(err)
	}
	p.storage = newSymTok(jws, sid, false, "producer:storage(UpsertSigned)")
	st.db.Exec("delete from expiring_signed_user_data where username=? and type=?", "alice", c04DataType)
	// authorization code, then ID and access token
	code, status := env.c04Authorize(t, "alice", c04ClientA, c04RedirectA, nil)
	if code == "" {
		t.Fatalf("authorize refused: %d", status)
	}
	p.code = newSymTok(code, sid, false, "producer:code(authorize endpoint)")
	status, idt, act := env.c04Token(url.Values{"grant_type": {"authorization_code"}, "redirect_uri": {c04RedirectA}, "code": {code}},
		url.QueryEscape(c04ClientA), url.QueryEscape(c04SecretA), true)
	if idt == "" {
		t.Fatalf("token endpoint refused a fresh code: %d", status)
	}
	p.id = newSymTok(idt, sid, false, "producer:id(token endpoint)")
	p.access = newSymTok(act, sid, false, "producer:access(token endpoint)")
	return p
}

// ---------------------------------------------------------------- consumers (real paths)

func (env *verifEnv) c04Consumers() []*c04Consumer {
	st := env.state
	begin := func() c04Obs { return c04Obs{db0: env.dbDigest(), t0: time.Now().UnixNano()} }
	end := func(o *c04Obs) { o.t1 = time.Now().UnixNano(); o.db1 = env.dbDigest() }
	authCookieOf := func(rr *httptest.ResponseRecorder) []string {
		var out []string
		for _, c := range rr.Result().Cookies() {
			if c.Name == authCookieName && c.Value != "" {
				out = append(out, c.Value)
			}
		}
		return out
	}
	c04StorageCol = time.Now().Unix() + 100000
	var cs []*c04Consumer
	sessionDirect := func(name string, required int) *c04Consumer {
		return &c04Consumer{name: name, kind: "session", run: func(raw string) (c04Obs, string) {
			req := verifNewRequest("GET", profilePath, nil)
			req.Header.Set("Cookie", authCookieName+"="+raw)
			rr := httptest.NewRecorder()
			o := begin()
			info, err := st.checkAuth(rr, req, required)
			end(&o)
			o.ok = err == nil && info != nil
			if o.ok {
				o.user, o.hasUser = info.Username, true
			}
			o.status = rr.Code
			o.cookies = authCookieOf(rr)
			return o, fmt.Sprintf("CSession (%d)%%Z", required)
		}}
	}
	cs = append(cs, sessionDirect("session", AuthTypePassword))
	cs = append(cs, &c04Consumer{name: "session-http", kind: "session", run: func(raw string) (c04Obs, string) {
		req := verifNewRequest("GET", profilePath, nil)
		req.Header.Set("Cookie", authCookieName+"="+raw)
		o := begin()
		rr, _ := env.serve(req)
		end(&o)
		o.ok = rr.Code == 200
		o.status = rr.Code
		o.cookies = authCookieOf(rr)
		return o, fmt.Sprintf("CSession (%d)%%Z", st.getRequiredWebUIAuthLevel())
	}})
	cs = append(cs, &c04Consumer{name: "update", kind: "session", run: func(raw string) (c04Obs, string) {
		req := verifNewRequest("GET", "/", nil)
		req.Header.Set("Cookie", authCookieName+"="+raw)
		rr := httptest.NewRecorder()
		o := begin()
		// the upgrade is asked for the user the presented cookie names (since fix 52b9393 the
		// function also takes the authenticated user and refuses a cookie issued to somebody else)
		sub := ""
		if _, claims, ok := tokParse(raw); ok {
			sub, _ = claims["sub"].(string)
		}
		_, err := st.updateAuthCookieAuthlevel(rr, req, sub, AuthTypePassword|AuthTypeU2F)
		end(&o)
		o.ok = err == nil
		o.status = rr.Code
		o.cookies = authCookieOf(rr)
		o.emitted = o.cookies
		return o, fmt.Sprintf("CUpdate (%d)%%Z", AuthTypePassword|AuthTypeU2F)
	}})
	cs = append(cs, &c04Consumer{name: "cliverify", kind: "cli", run: func(raw string) (c04Obs, string) {
		req := verifNewRequest("POST", paths.VerifyAuthToken, url.Values{"token": {raw}})
		o := begin()
		rr, _ := env.serve(req)
		end(&o)
		o.ok = rr.Code == 200
		o.status = rr.Code
		o.cookies = authCookieOf(rr)
		return o, "CCliVerify"
	}})
	cs = append(cs, &c04Consumer{name: "clisend", kind: "cli", run: func(raw string) (c04Obs, string) {
		req := verifNewRequest("GET", paths.SendAuthDocument, url.Values{"port": {"12345"}, "token": {raw}})
		req.AddCookie(env.cookie("alice", AuthTypePassword))
		o := begin()
		rr, _ := env.serve(req)
		end(&o)
		o.status = rr.Code
		o.cookies = authCookieOf(rr)
		if rr.Code == http.StatusPermanentRedirect {
			if loc, err := url.Parse(rr.Header().Get("Location")); err == nil && loc.Query().Get("auth_cookie") != "" {
				o.ok = true
				o.emitted = []string{loc.Query().Get("auth_cookie")}
				o.user, o.hasUser = "alice", true
			}
		}
		return o, fmt.Sprintf("CCliSend (%d)%%Z %s", AuthTypeWebauthForCLI, coqStr("alice"))
	}})
	// GetSigned through each arm of its select.  The presented record sits in alice's slot of the
	// store that answers; the OTHER store's slot is empty or (every second call) holds a genuine,
	// current record of alice, which must not change the verdict.
	//   primary:    the primary answers
	//   cache-slow: the primary does not answer within remoteDBQueryTimeout (0), the cache does
	//   cache-dead: the primary fails at once (closed pool), the cache answers after the deadline
	closedDB, err := sql.Open("sqlite3", filepath.Join(st.Config.Base.DataDirectory, profileDBFilename))
	if err != nil {
		panic(err)
	}
	closedDB.Close()
	storageCalls := 0
	storageVia := func(name, path string) *c04Consumer {
		return &c04Consumer{name: name, kind: "storage", run: func(raw string) (c04Obs, string) {
			now := time.Now().Unix()
			col := c04StorageCol
			answering, other := st.db, st.cacheDB
			if path != "primary" {
				answering, other = st.cacheDB, st.db
			}
			const ins = "insert or replace into expiring_signed_user_data(username, type, jws_data, expiration_epoch, update_epoch) values(?,?,?,?,?)"
			if _, err := answering.Exec(ins, "alice", c04DataType, raw, col, now); err != nil {
				panic(err)
			}
			otherTerm := "None"
			storageCalls++
			if storageCalls%2 == 0 && c04Decoy != "" {
				if _, err := other.Exec(ins, "alice", c04DataType, c04Decoy, col, now); err != nil {
					panic(err)
				}
				otherTerm = fmt.Sprintf("(Some {| r_col_exp := (%d)%%Z; r_jws := nth %d toks tok0 |})", col, c04DecoyIdx)
			}
			o := begin()
			realDB, realTimeout := st.db, st.remoteDBQueryTimeout
			switch path {
			case "cache-slow":
				st.remoteDBQueryTimeout = 0
			case "cache-dead":
				st.db = closedDB
				st.remoteDBQueryTimeout = 15 * time.Millisecond
			}
			found, data, err := st.GetSigned("alice", c04DataType)
			if path == "cache-slow" {
				time.Sleep(15 * time.Millisecond) // let the timed-out reader of the primary finish
			}
			st.db, st.remoteDBQueryTimeout = realDB, realTimeout
			end(&o)
			o.ok = found && err == nil
			o.data = data
			if o.ok {
				o.user, o.hasUser = "alice", true
			}
			for _, db := range []*sql.DB{st.db, st.cacheDB} {
				db.Exec("delete from expiring_signed_user_data where username=? and type=?", "alice", c04DataType)
			}
			coqPath := "PPrimary"
			if path != "primary" {
				coqPath = "PCache"
			}
			return o, fmt.Sprintf("CStorage %s %s (%d)%%Z %s", coqPath, coqStr("alice"), col, otherTerm)
		}}
	}
	cs = append(cs, storageVia("storage", "primary"), storageVia("storage-cache-slow", "cache-slow"), storageVia("storage-cache-dead", "cache-dead"))
	cs = append(cs, &c04Consumer{name: "token", kind: "code", run: func(raw string) (c04Obs, string) {
		req := verifNewRequest("POST", idpOpenIDCTokenPath, url.Values{"grant_type": {"authorization_code"}, "redirect_uri": {c04RedirectA}, "code": {raw}})
		req.SetBasicAuth(url.QueryEscape(c04ClientA), url.QueryEscape(c04SecretA))
		o := begin()
		rr, _ := env.serve(req)
		end(&o)
		o.status = rr.Code
		o.cookies = authCookieOf(rr)
		if rr.Code == 200 {
			var tr tokenResponse
			if json.Unmarshal(rr.Body.Bytes(), &tr) == nil && tr.IDToken != "" {
				o.ok = true
				o.emitted = []string{tr.IDToken, tr.AccessToken}
			}
		}
		return o, fmt.Sprintf("CToken (c04_treq %s %s %s)", coqStr(c04RedirectA), coqStr(c04ClientA), coqStr(c04SecretA))
	}})
	cs = append(cs, &c04Consumer{name: "userinfo", kind: "access", run: func(raw string) (c04Obs, string) {
		req := verifNewRequest("GET", idpOpenIDCUserinfoPath, nil)
		req.Header.Set("Authorization", "Bearer "+raw)
		o := begin()
		rr, _ := env.serve(req)
		end(&o)
		o.status = rr.Code
		o.cookies = authCookieOf(rr)
		if rr.Code == 200 {
			var ui openidConnectUserInfo
			if json.Unmarshal(rr.Body.Bytes(), &ui) == nil {
				o.ok = true
				o.user, o.hasUser = ui.Subject, true
			}
		}
		return o, "CUserinfo"
	}})
	return cs
}

// ---------------------------------------------------------------- the property's own predicate

func c04Int(c map[string]interface{}, name string) (int64, bool) {
	v, present := c[name]
	if !present {
		return 0, true
	}
	switch n := v.(type) {
	case int64:
		return n, true
	case int:
		return int64(n), true
	case json.Number:
		i, err := n.Int64()
		return i, err == nil
	}
	return 0, false
}

func c04StrClaim(c map[string]interface{}, name string) string {
	s, _ := c[name].(string)
	return s
}

// "" when the statement allows consumer kind to honour t at time now; else the first defect
func (env *verifEnv) c04Defect(t *symTok, cons *c04Consumer, now int64) string {
	nkeys := len(env.state.KeymasterPublicKeys)
	if t.signer < 1 || t.signer > nkeys {
		return "forged"
	}
	if t.tampered || t.claims == nil {
		return "altered"
	}
	allowed := false
	for _, k := range env.state.KeymasterPublicKeys {
		if a, err := publicToPreferedJoseSigAlgo(k); err == nil && tokAlgCode(string(a)) == t.alg {
			allowed = true
		}
	}
	if !allowed {
		return "algorithm"
	}
	c := t.claims
	if got := c04StrClaim(c, c04KindField(cons.kind)); got != c04KindConst[cons.kind] {
		// name the kind the token really is, when it is one
		for _, k := range []string{"session", "cli", "storage", "code", "access"} {
			if c04StrClaim(c, "token_type") == c04KindConst[k] || c04StrClaim(c, "type") == c04KindConst[k] {
				return "kind:" + k
			}
		}
		_ = got
		return "kind:none"
	}
	exp, okE := c04Int(c, "exp")
	if !okE {
		return "malformed"
	}
	if cons.name != "update" && exp < now {
		return "expired"
	}
	if cons.kind == "session" || cons.kind == "cli" || cons.kind == "storage" {
		nbf, okN := c04Int(c, "nbf")
		if !okN || nbf > now {
			return "not-yet-valid"
		}
		issuer := env.state.idpGetIssuer()
		if c04StrClaim(c, "iss") != issuer {
			return "issuer"
		}
		aud, _ := c["aud"].([]interface{})
		if len(aud) < 1 || aud[0] != issuer {
			return "audience"
		}
	}
	// consumers that serve the artefact for a named user (the harness always asks for alice)
	if (cons.kind == "storage" || cons.name == "clisend") && c04StrClaim(c, "sub") != "alice" {
		return "subject"
	}
	return ""
}

// ---------------------------------------------------------------- mutations

type c04Mut struct {
	name  string
	apply func(c map[string]interface{})
}

func (env *verifEnv) c04Mutations(kind string) []c04Mut {
	issuer := env.state.idpGetIssuer()
	now := time.Now().Unix()
	kf := c04KindField(kind)
	other := "type"
	if kf == "type" {
		other = "token_type"
	}
	set := func(n string, v interface{}) func(map[string]interface{}) {
		return func(c map[string]interface{}) { c[n] = v }
	}
	del := func(n string) func(map[string]interface{}) { return func(c map[string]interface{}) { delete(c, n) } }
	m := []c04Mut{
		{"iss=evil", set("iss", "https://evil.example")},
		{"iss=issuer/", set("iss", issuer+"/")},
		{"iss=prefix", set("iss", issuer[:len(issuer)-1])},
		{"iss-deleted", del("iss")},
		{"aud=[evil]", set("aud", []string{"https://evil.example"})},
		{"aud=[evil,issuer]", set("aud", []string{"https://evil.example", issuer})},
		{"aud=[issuer,evil]", set("aud", []string{issuer, "https://evil.example"})},
		{"aud-deleted", del("aud")},
		{"aud=string", set("aud", issuer)},
		{"kind-deleted", del(kf)},
		{"kind=empty", set(kf, "")},
		{"kind=UPPER", set(kf, strings.ToUpper(c04KindConst[kind]))},
		{"kind=trailing-space", set(kf, c04KindConst[kind]+" ")},
		{"kind-in-other-field", func(c map[string]interface{}) { delete(c, kf); c[other] = c04KindConst[kind] }},
		{"nbf=future", set("nbf", now+3600)},
		{"nbf=past", set("nbf", now-3600)},
		{"nbf-deleted", del("nbf")},
		{"exp=past", set("exp", now-3600)},
		{"exp=far", set("exp", now+100000)},
		{"exp-deleted", del("exp")},
		{"sub=bob", set("sub", "bob")},
		{"sub-deleted", del("sub")},
		{"auth_type=0", set("auth_type", 0)},
		{"auth_type=u2f", set("auth_type", AuthTypeU2F)},
		{"auth_type=any", set("auth_type", AuthTypeAny)},
		{"iat=future", set("iat", now+5000)},
		{"username=bob", set("username", "bob")},
		{"auth_exp=past", set("auth_exp", now-3600)},
		{"exp=string", set("exp", "9999999999")},
		// the comparisons' boundaries (values taken when the mutation is applied, just before use)
		{"exp=-2s", func(c map[string]interface{}) { c["exp"] = time.Now().Unix() - 2 }},
		{"exp=-30s", func(c map[string]interface{}) { c["exp"] = time.Now().Unix() - 30 }},
		{"exp=-59s", func(c map[string]interface{}) { c["exp"] = time.Now().Unix() - 59 }},
		{"exp=-90s", func(c map[string]interface{}) { c["exp"] = time.Now().Unix() - 90 }},
		{"exp=+30s", func(c map[string]interface{}) { c["exp"] = time.Now().Unix() + 30 }},
		{"nbf=+30s", func(c map[string]interface{}) { c["nbf"] = time.Now().Unix() + 30 }},
		{"nbf=+59s", func(c map[string]interface{}) { c["nbf"] = time.Now().Unix() + 59 }},
		{"nbf=+90s", func(c map[string]interface{}) { c["nbf"] = time.Now().Unix() + 90 }},
		{"nbf=-1s", func(c map[string]interface{}) { c["nbf"] = time.Now().Unix() - 1 }},
	}
	var kinds []string
	for k := range c04KindConst {
		kinds = append(kinds, k)
	}
	sort.Strings(kinds)
	for _, k := range kinds {
		if k != kind {
			v := c04KindConst[k]
			m = append(m, c04Mut{"kind=" + k, set(kf, v)})
			m = append(m, c04Mut{"kind=" + k + "+other", func(c map[string]interface{}) { c[other] = v }})
		}
	}
	return m
}

// ---------------------------------------------------------------- the test

// the expiration column the storage consumers write, and the genuine record of alice they put
// into the slot of the store that does NOT answer
var (
	c04StorageCol int64
	c04Decoy      string
	c04DecoyIdx   int
)

type c04Case struct {
	tok      int
	consumer string // Coq term
	obs      c04Obs
	label    string
}

func TestVerif_C04(t *testing.T) {
	verifWriteConsts(t)
	res := newVerifResult("producer x consumer matrix (6 real producers x 8 consumers, before and after the artefact was honoured by its own consumer); per consumer ~45 single-claim mutations (iss, aud, kind, nbf, exp, sub, level, username; replaced, deleted, moved to the other kind field) x {signed by the server key, by a foreign key, not re-signed}; ~20 header substitutions (none, HS256 keyed with the public key, relabelled algorithms, foreign ES256/RS256, stripped signature, server key with RS512/PS256, bogus kid); seeded random byte corruption; storage column extension (F14); non-trivial = the request reached signature verification with a parseable token; distinct by (consumer, token note, outcome)")
	env := verifSetup(t, c04Config)
	rng := verifRand()
	prod := env.c04Produce(t)
	env.writeTokenConsts(t, prod)
	// every copy into the cache is driven here: stop the background copier
	select {
	case env.state.dbDone <- struct{}{}:
	case <-time.After(20 * time.Second):
		t.Fatal("background copier did not stop")
	}
	consumers := env.c04Consumers()

	var toks []*symTok
	tokIdx := map[string]int{}
	intern := func(s *symTok) int {
		if i, ok := tokIdx[s.raw]; ok {
			return i
		}
		tokIdx[s.raw] = len(toks)
		toks = append(toks, s)
		return len(toks) - 1
	}
	var cases []c04Case
	c04Decoy, c04DecoyIdx = prod.storage.raw, intern(prod.storage)

	oracle := func(s *symTok, cons *c04Consumer, o c04Obs, label string) {
		now := o.t0 / 1e9
		defect := env.c04Defect(s, cons, now)
		if o.ok && defect != "" {
			res.hit(verifHit{Key: "C04:accepted:" + cons.name + ":" + defect, Oracle: "an endpoint honoured an artefact that is not a genuine, current artefact of its own kind",
				What:     fmt.Sprintf("%s honoured a token with defect %q (%s; %s)", cons.name, defect, s.note, label),
				Case:     map[string]interface{}{"consumer": cons.name, "token": s.raw, "note": s.note, "label": label, "claims": s.claims, "signer": s.signer, "tampered": s.tampered},
				Observed: map[string]interface{}{"status": o.status, "user": o.user, "emitted": o.emitted}})
		}
		if !o.ok && (len(o.emitted) > 0 || len(o.cookies) > 0 || o.db0 != o.db1) {
			res.hit(verifHit{Key: "C04:sideeffect:" + cons.name, Oracle: "a refusing endpoint set a cookie, emitted a token or changed the database",
				What:     fmt.Sprintf("%s refused (%d) but cookies=%d emitted=%d db %s->%s (%s)", cons.name, o.status, len(o.cookies), len(o.emitted), o.db0, o.db1, s.note),
				Case:     map[string]interface{}{"consumer": cons.name, "token": s.raw, "note": s.note, "label": label},
				Observed: map[string]interface{}{"status": o.status, "cookies": o.cookies}})
		}
		if o.ok && o.db0 != o.db1 {
			res.hit(verifHit{Key: "C04:dbwrite:" + cons.name, Oracle: "a token consumer changed the database", What: cons.name + " changed the database", Case: label})
		}
	}
	run := func(s *symTok, cons *c04Consumer, label string) c04Obs {
		o, term := cons.run(s.raw)
		cases = append(cases, c04Case{tok: intern(s), consumer: term, obs: o, label: cons.name + " <- " + s.note + " " + label})
		oracle(s, cons, o, label)
		outcome := "refused"
		if o.ok {
			outcome = "accepted"
		}
		res.eval(cons.name+"|"+s.note+"|"+label+"|"+outcome, s.claims != nil)
		res.bump("consumer:" + cons.name)
		res.bump(outcome)
		return o
	}

	// ---- 1. matrix, cold
	producers := []struct {
		kind string
		tok  *symTok
	}{{"session", prod.session}, {"session", prod.sessionLogin}, {"cli", prod.cli}, {"cli", prod.cliPage},
		{"storage", prod.storage}, {"code", prod.code}, {"access", prod.access}, {"id", prod.id}}
	for _, p := range producers {
		for _, c := range consumers {
			if c.kind != p.kind {
				run(p.tok, c, "matrix:cold")
				res.bump("matrix")
			}
		}
	}
	// ---- 2. own consumers: every artefact is honoured where it belongs (non-vacuity), then again everywhere else
	for _, p := range producers {
		for _, c := range consumers {
			if c.kind == p.kind {
				o := run(p.tok, c, "matrix:own")
				if !o.ok {
					res.hit(verifHit{Key: "C04:harness:own-consumer-refuses:" + c.name, Oracle: "harness", What: fmt.Sprintf("%s refused a fresh artefact of its own kind (%s): status %d", c.name, p.tok.note, o.status), Case: p.tok.note})
				}
			}
		}
	}
	for _, p := range producers {
		for _, c := range consumers {
			if c.kind != p.kind {
				run(p.tok, c, "matrix:after-own-use")
				res.bump("matrix")
			}
		}
	}
	// the session cookie presented as the CLI token of its own request
	{
		var clisend *c04Consumer
		for _, c := range consumers {
			if c.name == "clisend" {
				clisend = c
			}
		}
		ck := env.cookie("alice", AuthTypePassword)
		s := newSymTok(ck.Value, env.signerKeyID(), false, "producer:session(the request's own cookie)")
		req := verifNewRequest("GET", paths.SendAuthDocument, url.Values{"port": {"12345"}, "token": {ck.Value}})
		req.AddCookie(ck)
		o := c04Obs{db0: env.dbDigest(), t0: time.Now().UnixNano()}
		rr, _ := env.serve(req)
		o.t1, o.db1, o.status = time.Now().UnixNano(), env.dbDigest(), rr.Code
		if rr.Code == http.StatusPermanentRedirect {
			if loc, err := url.Parse(rr.Header().Get("Location")); err == nil && loc.Query().Get("auth_cookie") != "" {
				o.ok, o.emitted, o.user, o.hasUser = true, []string{loc.Query().Get("auth_cookie")}, "alice", true
			}
		}
		cases = append(cases, c04Case{tok: intern(s), consumer: fmt.Sprintf("CCliSend (%d)%%Z %s", AuthTypeWebauthForCLI, coqStr("alice")), obs: o, label: "clisend <- own cookie as token"})
		oracle(s, clisend, o, "own-cookie-as-token")
		res.eval("clisend|own-cookie", true)
	}

	// ---- 3. mutations and header substitutions of the artefact each consumer is meant for
	base := map[string]*symTok{"session": prod.session, "cli": prod.cli, "storage": prod.storage, "code": prod.code, "access": prod.access}
	for _, c := range consumers {
		b := base[c.kind]
		muts := env.c04Mutations(c.kind)
		for mi, m := range muts {
			if !verifThorough() && (c.name == "session-http") && mi%3 != 0 {
				continue // the HTTP twin of "session" takes every third mutation in quick
			}
			claims := cloneClaims(b.claims)
			m.apply(claims)
			variants := []*symTok{
				env.tokServerSigned(claims, "mut:"+m.name+":server-key"),
				tokForeignSigned(claims, false, "mut:"+m.name+":foreign-key"),
				env.tokNotResigned(b.raw, claims, "mut:"+m.name+":not-resigned"),
			}
			for _, v := range variants {
				run(v, c, "")
				res.bump("mutation")
			}
		}
		for _, v := range env.tokHeaderVariants(b.raw) {
			run(v, c, "")
			res.bump("header")
		}
	}

	// ---- 4. storage, on every read path: the signed expiry against the unsigned column (F14), a
	// fresh record under an expired column, and another user's genuine record moved into the row
	{
		st := env.state
		now := time.Now().Unix()
		wipe := func() {
			for _, db := range []*sql.DB{st.db, st.cacheDB} {
				db.Exec("delete from expiring_signed_user_data where username=? and type=?", "alice", c04DataType)
			}
		}
		// a record that expired a minute ago, written through the real path; the consumers then
		// store it under a column that lies in the future
		if err := st.UpsertSigned("alice", c04DataType, now-60, "argon2-hash-expired"); err != nil {
			t.Fatal(err)
		}
		var jws string
		st.db.QueryRow("select jws_data from expiring_signed_user_data where username=? and type=?", "alice", c04DataType).Scan(&jws)
		expired := newSymTok(jws, env.signerKeyID(), false, "storage:expired-record-column-extended")
		found0, _, _ := st.GetSigned("alice", c04DataType)
		wipe()
		// a fresh record (claim in the future) that the consumers store under a column in the past
		if err := st.UpsertSigned("alice", c04DataType, now+5000, "argon2-hash-fresh"); err != nil {
			t.Fatal(err)
		}
		st.db.QueryRow("select jws_data from expiring_signed_user_data where username=? and type=?", "alice", c04DataType).Scan(&jws)
		fresh := newSymTok(jws, env.signerKeyID(), false, "storage:fresh-record-column-expired")
		wipe()
		bobClaims := cloneClaims(prod.storage.claims)
		bobClaims["sub"] = "bob"
		bobs := env.tokServerSigned(bobClaims, "storage:record-of-bob-in-row-of-alice")
		f14 := map[string]interface{}{"served_before_extension": found0}
		for _, c := range consumers {
			if c.kind != "storage" {
				continue
			}
			o := run(expired, c, "column-extended")
			f14["served_after_extension:"+c.name] = o.ok
			saved := c04StorageCol
			c04StorageCol = now - 10
			run(fresh, c, "column-expired")
			c04StorageCol = saved
			run(bobs, c, "row-moved")
			res.bump("storage-tamper:" + c.name)
		}
		res.Extra["f14"] = f14
	}

	// ---- 5. byte corruption of genuine artefacts
	type corruptBatch struct {
		base     int
		consumer string
		t0, t1   int64
		v        []byte
	}
	var corrupt []corruptBatch
	perConsumer := 40
	if verifThorough() {
		perConsumer = 6500
	}
	alphabet := "ABCDEFGHIJKLMNOPQRSTUVWXYZabcdefghijklmnopqrstuvwxyz0123456789-_.=+/ %\x00\"\\"
	for _, c := range consumers {
		b := base[c.kind]
		batch := corruptBatch{base: intern(b), t0: time.Now().UnixNano()}
		dots := []int{strings.Index(b.raw, "."), strings.LastIndex(b.raw, ".")}
		for i := 0; i < perConsumer; i++ {
			pos := rng.Intn(len(b.raw))
			switch i % 6 {
			case 0:
				pos = len(b.raw) - 1 - rng.Intn(3) // the tail of the signature (unused base64 bits live here)
			case 1:
				pos = dots[rng.Intn(2)] - 1 - rng.Intn(2) // the tail of the header / payload segment
			}
			nb := alphabet[rng.Intn(len(alphabet))]
			if i%2 == 0 {
				nb = alphabet[rng.Intn(64)]
			}
			if (c.name == "session" || c.name == "session-http" || c.name == "update" || c.name == "userinfo") && (nb == ' ' || nb == '\x00' || nb == '"' || nb == '\\' || nb == '%' || nb == '=' || nb == '+' || nb == '/') {
				nb = 'Q' // header transport: keep to bytes a cookie / bearer header carries unchanged
			}
			v := env.tokCorrupt(b.raw, pos, nb, fmt.Sprintf("corrupt:%s@%d", c.kind, pos))
			if v == nil {
				continue
			}
			o, term := c.run(v.raw)
			batch.consumer = term
			oracle(v, c, o, "corruption")
			code := byte(0)
			if v.tampered {
				code |= 1
			}
			if o.ok {
				code |= 2
			}
			batch.v = append(batch.v, code)
			outcome := "refused"
			if o.ok {
				outcome = "accepted"
			}
			res.eval(fmt.Sprintf("%s|corrupt|%d|%d|%s", c.name, pos, nb, outcome), true)
			res.bump("corruption")
			if !v.tampered {
				res.bump("corruption-same-decoded-bytes")
			}
		}
		batch.t1 = time.Now().UnixNano()
		if len(batch.v) > 0 {
			corrupt = append(corrupt, batch)
		}
	}

	// ---- Coq case file
	var sb strings.Builder
	sb.WriteString(coqCaseHeader)
	sb.WriteString("From KM Require Import Base.Cases Model.Tokens Model.OIDC Model.TokenCases.\nOpen Scope Z_scope.\n")
	sb.WriteString("Definition c04_idp : idp :=\n  " + env.coqIdp() + ".\n")
	sb.WriteString("Definition tok0 : token := {| t_signer := 0%N; t_alg := 0%N; t_tampered := true; t_claims := [] |}.\n")
	sb.WriteString("Definition c04_treq (redirect client secret : bs) : treq :=\n  {| tr_conn := conn_none; tr_post := true; tr_grant := gt_authcode; tr_redirect := redirect; tr_code := tok0; tr_verifier := []; tr_vhash := [];\n     tr_basic := Some (client, secret); tr_form_client := []; tr_form_secret := [] |}.\n")
	sb.WriteString("Definition toks : list token := [\n")
	for i, s := range toks {
		sep := ";"
		if i == len(toks)-1 {
			sep = ""
		}
		sb.WriteString(" " + env.coqToken(s) + sep + "\n")
	}
	sb.WriteString("].\n")
	emitObs := func(o c04Obs) string {
		user := "None"
		if o.hasUser {
			user = "Some " + coqStr(o.user)
		}
		var em []string
		for _, e := range o.emitted {
			em = append(em, env.coqClaims(newSymTok(e, env.signerKeyID(), false, "")))
		}
		return fmt.Sprintf("(%d)%%Z, (%d)%%Z, %s, %s, [%s]", o.t0, o.t1, coqBool(o.ok), user, strings.Join(em, "; "))
	}
	sb.WriteString("Definition cases : list (nat * consumer * Z * Z * bool * option bs * list claimset) := [\n")
	for i, c := range cases {
		sep := ";"
		if i == len(cases)-1 {
			sep = ""
		}
		sb.WriteString(fmt.Sprintf(" (%d%%nat, %s, %s)%s\n", c.tok, c.consumer, emitObs(c.obs), sep))
	}
	sb.WriteString("].\nDefinition c04_mismatches := Eval vm_compute in mismatches (case_bad c04_idp toks) cases.\nPrint c04_mismatches.\n")
	sb.WriteString("Definition c04_ncases := Eval vm_compute in length cases.\nPrint c04_ncases.\n")
	// corruption: one batch per consumer (base token, consumer, clock window, one byte per token)
	sb.WriteString("Definition corrupt_batches : list (nat * consumer * Z * Z * bs) := [\n")
	ncorrupt := 0
	for i, c := range corrupt {
		sep := ";"
		if i == len(corrupt)-1 {
			sep = ""
		}
		ncorrupt += len(c.v)
		sb.WriteString(fmt.Sprintf(" (%d%%nat, %s, (%d)%%Z, (%d)%%Z, %s)%s\n", c.base, c.consumer, c.t0, c.t1, coqPacked(c.v), sep))
	}
	sb.WriteString("].\nDefinition c04_corrupt_mismatches := Eval vm_compute in flat_map (batch_mismatches c04_idp toks) corrupt_batches.\nPrint c04_corrupt_mismatches.\n")
	sb.WriteString(fmt.Sprintf("Definition c04_ncorrupt := %d%%nat.\nPrint c04_ncorrupt.\n", ncorrupt))
	// ---- 6. the two identity channels of the token endpoint (after everything else: fresh codes)
	chCoq, _ := env.c04Channels(t, res)
	sb.WriteString("From KM Require Import Model.OIDCChannels.\n")
	sb.WriteString(chCoq)
	// ---- 6b. the carrier of a presentation: every consumer x every carrier x every artefact kind (c04carrier.go)
	{
		var storageConsumers []*c04Consumer
		for _, c := range consumers {
			if c.kind == "storage" {
				storageConsumers = append(storageConsumers, c)
			}
		}
		sb.WriteString(env.c04CarrierSection(t, res, prod, storageConsumers))
	}
	// ---- 7. peer instances: the artefacts of another member of the deployment, under every shared string setting
	sb.WriteString(env.c04PeerSection(t, res))
	if err := ioutil.WriteFile(filepath.Join(verifOut(), "CasesC04.v"), []byte(sb.String()), 0644); err != nil {
		t.Fatal(err)
	}
	var idx strings.Builder
	for i, c := range cases {
		idx.WriteString(fmt.Sprintf("%d\t%s\tok=%v status=%d user=%q emitted=%d tok=%d %s\n", i, c.label, c.obs.ok, c.obs.status, c.obs.user, len(c.obs.emitted), c.tok, toks[c.tok].raw))
	}
	ioutil.WriteFile(filepath.Join(verifOut(), "CasesC04.idx"), []byte(idx.String()), 0644)
	for _, i := range []int{0, len(cases) / 3, 2 * len(cases) / 3, len(cases) - 1} {
		res.sample(map[string]interface{}{"case": cases[i].label, "accepted": cases[i].obs.ok, "status": cases[i].obs.status})
	}
	res.Extra["tokens"] = len(toks)
	res.Extra["panics"] = env.panics
	if len(env.panics) > 0 {
		res.hit(verifHit{Key: "C04:panic", Oracle: "a token consumer panicked", What: env.panics[0], Case: env.panics})
	}
	res.write(t, "TestVerif_C04")
	_ = os.Getenv
	_ = rand.Int
}

// ---------------------------------------------------------------- the two identity channels of the token endpoint

// C04 — the two identity channels of the token endpoint.  A token request can name a client in the
// Authorization: Basic header (id, secret) and in the body (client_id, client_secret); the two may
// name different registered clients.  The full product
//     code issued to {A, A with a PKCE challenge, B (PKCE), C}
//   x header {absent | id in {"", A, B, C, unknown} x secret in {none, A's, C's, a wrong one}}
//   x body   {client_id in {absent, A, B, C, unknown} x client_secret in {none, A's, C's, a wrong one}}
//   x verifier {none, the right one}
// is driven through the real /idp/oauth2/token handler, in the canonical order of
// Model/OIDCChannels.v (which enumerates the same product inside Coq); only the codes, the
// constants and the vector of observed results are shipped.
//
// Oracle (the statement's own predicate, no precedence rule in it): tokens were released =>
// the request carries, in ONE channel, the identity of the client the code was issued to together
// with that client's proof (its secret in the same channel; for the secret-less client the right
// verifier), and the ID token's sole audience is that client.

const (
	c04ClientC   = "clientC"
	c04SecretC   = "secret+of/C%41"
	c04ClientX   = "clientX"
	c04WrongPw   = "not the secret"
	c04RedirectC = "https://app.c.example/cb"
	c04Verifier  = "c04-verifier-0123456789abcdefghijklmnopqrstuvwxyz-ABCDEFG"
)

type c04ChanRelease struct {
	idx      int
	idt, act *symTok
}

// returns the Coq text to append to CasesC04.v and the index lines (file CasesC04ch.idx)
func (env *verifEnv) c04Channels(t *testing.T, res *verifResult) (string, string) {
	ids := []string{c04ClientA, c04ClientB, c04ClientC, c04ClientX}
	secrets := []string{c04SecretA, c04SecretC, c04WrongPw}
	configured := map[string]string{c04ClientA: c04SecretA, c04ClientB: "", c04ClientC: c04SecretC}
	sum := sha256.Sum256([]byte(c04Verifier))
	chal := b64e(sum[:])
	type codeT struct {
		tok      *symTok
		client   string
		redirect string
		pkce     bool
	}
	mint := func(client, redirect string, pkce bool) codeT {
		extra := url.Values{}
		if pkce {
			extra.Set("code_challenge", chal)
			extra.Set("code_challenge_method", "S256")
		}
		code, status := env.c04Authorize(t, "alice", client, redirect, extra)
		if code == "" {
			t.Fatalf("c04 channels: authorize refused for %s: %d", client, status)
		}
		return codeT{tok: newSymTok(code, env.signerKeyID(), false, "code for "+client), client: client, redirect: redirect, pkce: pkce}
	}
	codes := []codeT{
		mint(c04ClientA, c04RedirectA, false),
		mint(c04ClientA, c04RedirectA, true),
		mint(c04ClientB, c04RedirectB, true),
		mint(c04ClientC, c04RedirectC, false),
	}
	pick := func(l []string, n int) string {
		if n == 0 {
			return ""
		}
		return l[n-1]
	}
	var observed []byte
	var rel []c04ChanRelease
	var idx strings.Builder
	hitOnce := map[string]bool{}
	t0 := time.Now().UnixNano()
	n := 0
	for _, code := range codes {
		for hi := 0; hi <= len(ids); hi++ {
			for hs := 0; hs <= len(secrets); hs++ {
				for bi := 0; bi <= len(ids); bi++ {
					for bp := 0; bp <= len(secrets); bp++ {
						for vm := 0; vm < 2; vm++ {
							form := url.Values{"grant_type": {"authorization_code"}, "redirect_uri": {code.redirect}, "code": {code.tok.raw}}
							if bi > 0 {
								form.Set("client_id", pick(ids, bi))
							}
							if bp > 0 {
								form.Set("client_secret", pick(secrets, bp))
							}
							if vm == 1 {
								form.Set("code_verifier", c04Verifier)
							}
							req := verifNewRequest("POST", idpOpenIDCTokenPath, form)
							header := hi > 0 || hs > 0
							if header {
								// RFC 6749 2.3.1: the header carries the form-encoded id and secret
								req.SetBasicAuth(url.QueryEscape(pick(ids, hi)), url.QueryEscape(pick(secrets, hs)))
							}
							rr, _ := env.serve(req)
							var tr tokenResponse
							ok := rr.Code == 200 && json.Unmarshal(rr.Body.Bytes(), &tr) == nil && tr.IDToken != ""
							label := fmt.Sprintf("token request: code issued to %s%s; header %s; body client_id=%q client_secret=%s; verifier=%v",
								code.client, map[bool]string{true: " (PKCE challenge)", false: ""}[code.pkce],
								map[bool]string{true: fmt.Sprintf("id=%q secret=%s", pick(ids, hi), c04SecretName(pick(secrets, hs))), false: "absent"}[header],
								pick(ids, bi), c04SecretName(pick(secrets, bp)), vm == 1)
							if ok {
								observed = append(observed, 1)
								res.bump("channels:released")
								idt := newSymTok(tr.IDToken, env.signerKeyID(), false, "id")
								act := newSymTok(tr.AccessToken, env.signerKeyID(), false, "access")
								rel = append(rel, c04ChanRelease{idx: n, idt: idt, act: act})
								// the statement's predicate: a proof for the client the code was issued to
								want := configured[code.client]
								proved := false
								if want != "" {
									proved = (header && pick(ids, hi) == code.client && pick(secrets, hs) == want) ||
										(bi > 0 && pick(ids, bi) == code.client && pick(secrets, bp) == want)
								} else {
									proved = vm == 1 && code.pkce && ((header && pick(ids, hi) == code.client) || (bi > 0 && pick(ids, bi) == code.client))
								}
								shape := fmt.Sprintf("header=%s body=%s", c04ChanClass(header, pick(ids, hi), code.client), c04ChanClass(bi > 0, pick(ids, bi), code.client))
								if !proved && !hitOnce["subject"+shape] {
									hitOnce["subject"+shape] = true
									res.hit(verifHit{Key: "C04:accepted:token:subject", Oracle: "the token endpoint honoured an authorization code for a caller that did not prove to be the client the code's signed subject names",
										What:     "tokens released although no channel carries the identity of the code's client together with that client's proof (" + shape + "): " + label,
										Case:     map[string]interface{}{"label": label, "index": n, "code": code.tok.raw, "code_claims": code.tok.claims},
										Observed: map[string]interface{}{"status": rr.Code, "id_token_claims": idt.claims}})
								}
								aud, _ := idt.claims["aud"].([]interface{})
								if (len(aud) != 1 || aud[0] != code.client) && !hitOnce["aud"+shape] {
									hitOnce["aud"+shape] = true
									res.hit(verifHit{Key: "C04:released:token:audience", Oracle: "the ID token released for a code names the code's client as its sole audience",
										What:     fmt.Sprintf("ID token audience %v for a code issued to %s (%s): %s", aud, code.client, shape, label),
										Case:     map[string]interface{}{"label": label, "index": n, "code": code.tok.raw},
										Observed: map[string]interface{}{"id_token_claims": idt.claims}})
								}
							} else {
								observed = append(observed, 0)
								res.bump("channels:refused")
							}
							res.eval(fmt.Sprintf("channels|%d|%v", n, ok), true)
							idx.WriteString(fmt.Sprintf("%d\t%s\treleased=%v status=%d\n", n, label, ok, rr.Code))
							n++
						}
					}
				}
			}
		}
	}
	t1 := time.Now().UnixNano()
	if len(rel) == 0 {
		res.hit(verifHit{Key: "C04:harness:channels-nothing-released", Oracle: "harness", What: "no channel combination released tokens", Case: nil})
	}
	res.Extra["channel_requests"] = n
	res.Extra["channel_released"] = len(rel)

	var sb strings.Builder
	sb.WriteString("\n(* ---- the two identity channels of the token endpoint (Model/OIDCChannels.v) *)\n")
	sb.WriteString("Definition ch_codes_l : list token := [\n")
	for i, c := range codes {
		sep := ";"
		if i == len(codes)-1 {
			sep = ""
		}
		sb.WriteString(" " + env.coqToken(c.tok) + sep + "\n")
	}
	sb.WriteString("].\n")
	var idl, secl, redl []string
	for _, s := range ids {
		idl = append(idl, coqStr(s))
	}
	for _, s := range secrets {
		secl = append(secl, coqStr(s))
	}
	for _, c := range codes {
		redl = append(redl, coqStr(c.redirect))
	}
	sb.WriteString(fmt.Sprintf("Definition c04_chenv : chenv :=\n  {| ch_ids := [%s]; ch_secrets := [%s]; ch_V := %s; ch_HV := %s;\n     ch_redirects := [%s]; ch_codes := ch_codes_l |}.\n",
		strings.Join(idl, "; "), strings.Join(secl, "; "), coqStr(c04Verifier), coqStr(chal), strings.Join(redl, "; ")))
	sb.WriteString("Definition ch_observed : bs := " + coqPacked(observed) + ".\n")
	sb.WriteString(fmt.Sprintf("Definition ch_scanned := Eval vm_compute in ch_scan c04_idp c04_chenv (%d)%%Z (%d)%%Z ch_observed.\n", t0, t1))
	sb.WriteString("Definition c04_channel_mismatches := Eval vm_compute in fst ch_scanned.\nPrint c04_channel_mismatches.\n")
	sb.WriteString("Definition c04_channel_violating := Eval vm_compute in snd ch_scanned.\nPrint c04_channel_violating.\n")
	sb.WriteString("Definition c04_nchannel := Eval vm_compute in length (ch_combos c04_chenv).\nPrint c04_nchannel.\n")
	sb.WriteString("Definition ch_released_cases : list (nat * claimset * claimset) := [\n")
	for i, r := range rel {
		sep := ";"
		if i == len(rel)-1 {
			sep = ""
		}
		sb.WriteString(fmt.Sprintf(" (%d%%nat, %s, %s)%s\n", r.idx, env.coqClaims(r.idt), env.coqClaims(r.act), sep))
	}
	sb.WriteString(fmt.Sprintf("].\nDefinition c04_channel_release_mismatches := Eval vm_compute in map (fun k => fst (fst k)) (filter (ch_release_bad c04_idp c04_chenv (%d)%%Z (%d)%%Z) ch_released_cases).\nPrint c04_channel_release_mismatches.\n", t0, t1))
	sb.WriteString("Definition c04_channel_release_violating := Eval vm_compute in map (fun k => fst (fst k)) (filter (ch_release_violates c04_chenv) ch_released_cases).\nPrint c04_channel_release_violating.\n")
	ioutil.WriteFile(filepath.Join(verifOut(), "CasesC04ch.idx"), []byte(idx.String()), 0644)
	return sb.String(), idx.String()
}

func c04SecretName(s string) string {
	switch s {
	case "":
		return "none"
	case c04SecretA:
		return "A's"
	case c04SecretC:
		return "C's"
	}
	return "wrong"
}

// how a channel relates to the client the code was issued to (stable shape names for hit texts)
func c04ChanClass(present bool, id, codeClient string) string {
	switch {
	case !present:
		return "absent"
	case id == codeClient:
		return "code-client"
	case id == c04ClientX || id == "":
		return "unknown"
	}
	return "other-client"
}
