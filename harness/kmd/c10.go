package main

import (
	"time"
	"crypto"
	"crypto/dsa"
	"crypto/ecdh"
	"crypto/ecdsa"
	"crypto/ed25519"
	"crypto/elliptic"
	"crypto/rand"
	"crypto/rsa"
	"crypto/x509"
	"encoding/asn1"
	"encoding/base64"
	"encoding/pem"
	"fmt"
	"io/ioutil"
	"math/big"
	"net"
	"net/http"
	"path/filepath"
	"strings"
	"testing"

	"github.com/Cloud-Foundations/keymaster/lib/certgen"
	"golang.org/x/crypto/ssh"
)

type c10Key struct {
	desc    string
	kind    int // 0 RSA, 1 ECDSA, 2 Ed25519, 3 other
	a, b    int64
	pub     crypto.PublicKey
	der     []byte // PKIX
	sshLine string
	strong  bool
}

func c10Strong(pub crypto.PublicKey) bool {
	switch k := pub.(type) {
	case *rsa.PublicKey:
		return k.N.BitLen() >= 2048 && k.E >= 65537
	case *ecdsa.PublicKey:
		return k.Curve.Params().BitSize >= 256
	case ed25519.PublicKey:
		return true
	case *ed25519.PublicKey:
		return true
	}
	return false
}

func c10RSA(bits int, e int) *rsa.PublicKey {
	n := new(big.Int).Lsh(big.NewInt(1), uint(bits-1))
	if bits > 8 {
		r, _ := rand.Int(rand.Reader, new(big.Int).Lsh(big.NewInt(1), uint(bits-2)))
		n.Add(n, r)
	}
	n.SetBit(n, 0, 1)
	return &rsa.PublicKey{N: n, E: e}
}

func c10Finish(k *c10Key) {
	if k.der == nil && k.pub != nil {
		k.der, _ = x509.MarshalPKIXPublicKey(k.pub)
	}
	if k.sshLine == "" && k.pub != nil {
		if sp, err := ssh.NewPublicKey(k.pub); err == nil {
			k.sshLine = strings.TrimSpace(string(ssh.MarshalAuthorizedKey(sp))) + " verif@harness\n"
		}
	}
	k.strong = c10Strong(k.pub)
}

func c10Corpus() []*c10Key {
	var ks []*c10Key
	for _, bits := range []int{512, 768, 1024, 1536, 2000, 2040, 2041, 2042, 2044, 2046, 2047, 2048, 2049, 2056, 3071, 3072, 4095, 4096} {
		for _, e := range []int{3, 17, 257, 65535, 65537, 65539, 16777215} {
			if bits < 2000 && e != 65537 && e != 3 {
				continue
			}
			k := &c10Key{desc: fmt.Sprintf("rsa-%d-e%d", bits, e), kind: 0, a: int64(bits), b: int64(e), pub: c10RSA(bits, e)}
			c10Finish(k)
			ks = append(ks, k)
		}
	}
	for _, c := range []elliptic.Curve{elliptic.P224(), elliptic.P256(), elliptic.P384(), elliptic.P521()} {
		priv, _ := ecdsa.GenerateKey(c, rand.Reader)
		k := &c10Key{desc: fmt.Sprintf("ecdsa-p%d", c.Params().BitSize), kind: 1, a: int64(c.Params().BitSize), pub: &priv.PublicKey}
		c10Finish(k)
		ks = append(ks, k)
	}
	edpub, _, _ := ed25519.GenerateKey(rand.Reader)
	k := &c10Key{desc: "ed25519", kind: 2, pub: edpub}
	c10Finish(k)
	ks = append(ks, k)
	// DSA 1024/160
	var params dsa.Parameters
	if err := dsa.GenerateParameters(&params, rand.Reader, dsa.L1024N160); err == nil {
		priv := dsa.PrivateKey{PublicKey: dsa.PublicKey{Parameters: params}}
		dsa.GenerateKey(&priv, rand.Reader)
		dk := &c10Key{desc: "dsa-1024", kind: 3, pub: &priv.PublicKey}
		type dsaAlg struct {
			Alg    asn1.ObjectIdentifier
			Params struct{ P, Q, G *big.Int }
		}
		var alg dsaAlg
		alg.Alg = asn1.ObjectIdentifier{1, 2, 840, 10040, 4, 1}
		alg.Params.P, alg.Params.Q, alg.Params.G = params.P, params.Q, params.G
		y, _ := asn1.Marshal(priv.Y)
		dk.der, _ = asn1.Marshal(struct {
			Alg dsaAlg
			Key asn1.BitString
		}{alg, asn1.BitString{Bytes: y, BitLength: 8 * len(y)}})
		c10Finish(dk)
		ks = append(ks, dk)
	}
	if xk, err := ecdh.X25519().GenerateKey(rand.Reader); err == nil {
		ok := &c10Key{desc: "x25519", kind: 3, pub: xk.PublicKey()}
		c10Finish(ok)
		ks = append(ks, ok)
	}
	ks = append(ks, c10UnknownKeys()...)
	return ks
}

func c10Pem(der []byte) string {
	return string(pem.EncodeToMemory(&pem.Block{Type: "PUBLIC KEY", Bytes: der}))
}

var c10Paths = []string{"ssh", "x509", "x509-kubernetes", "role", "refresh", "aws"}

// ---------------------------------------------------------------- stage (f): the submitted SSH key FILE
//
// The file is turned into a key by the validator (getValidSSHPublicKey) and again by the signer
// (certgen.GenSSHCertFileString on the text): "only strong keys are certified" needs both to read the
// same key out of every text.  Generator: the authorized_keys grammar (options field, several key
// fields, several lines, comments, junk after the base64, declared algorithm vs blob, CR / LF / tab /
// NUL separators, concatenations, truncations) instantiated with pairs of keys - a strong one and a weak
// one in either order, two strong, two weak.

type c10File struct {
	text string
	note string
}

func c10SSHParts(k *c10Key) (typ, b64 string) {
	f := strings.Fields(k.sshLine)
	if len(f) < 2 {
		return "", ""
	}
	return f[0], f[1]
}

func c10SSHFiles(k1, k2 *c10Key) []c10File {
	t1, b1 := c10SSHParts(k1)
	t2, b2 := c10SSHParts(k2)
	var out []c10File
	add := func(note, text string) { out = append(out, c10File{text, note}) }
	add("plain", t1+" "+b1+" c\n")
	add("two key fields", t1+" "+b1+" "+t2+" "+b2+"\n")
	add("blob as comment", t1+" "+b1+" "+b2+"\n")
	add("blob as comment + comment", t1+" "+b1+" "+b2+" c\n")
	for _, j := range []string{".x", "-", "_", ".", ",", "@", "!", "=x", "==x", "===", "\"", "'", "\\", "#", ":", ";", "%", "*", "~", "\x7f", "\xc3\xa9"} {
		add("junk "+fmt.Sprintf("%q", j)+" after the base64, second blob", t1+" "+b1+j+" "+b2+" c\n")
		add("junk "+fmt.Sprintf("%q", j)+" after the base64, second key field", t1+" "+b1+j+" "+t2+" "+b2+"\n")
		add("junk "+fmt.Sprintf("%q", j)+" after the base64 only", t1+" "+b1+j+"\n")
	}
	add("options field", "no-pty "+t1+" "+b1+" c\n")
	add("options field with quoted command", `command="echo `+t2+" "+b2+`" `+t1+" "+b1+" c\n")
	add("options list", "restrict,no-pty "+t1+" "+b1+"\n")
	add("first key as options field", t2+" "+t1+" "+b1+"\n")
	add("first key field without blob, second complete", t2+" "+b2[:8]+" "+t1+" "+b1+"\n")
	add("declared algorithm of the other key", t2+" "+b1+" c\n")
	add("declared algorithm twice", t1+" "+t1+" "+b1+"\n")
	add("two lines", t1+" "+b1+" c\n"+t2+" "+b2+" c\n")
	add("two lines CRLF", t1+" "+b1+" c\r\n"+t2+" "+b2+" c\r\n")
	add("two lines CR", t1+" "+b1+" c\r"+t2+" "+b2+" c")
	add("comment line first", "# c\n"+t1+" "+b1+"\n")
	add("comment line, then both", "# "+t2+" "+b2+"\n"+t1+" "+b1+"\n")
	add("empty line first", "\n"+t1+" "+b1+"\n")
	add("no final newline", t1+" "+b1)
	add("two final newlines", t1+" "+b1+"\n\n")
	add("tab separators", t1+"\t"+b1+"\tc\n")
	add("tab then second key", t1+" "+b1+"\t"+t2+" "+b2+"\n")
	add("two spaces", t1+"  "+b1+" c\n")
	add("leading space", " "+t1+" "+b1+" c\n")
	add("vertical tab before second blob", t1+" "+b1+"\x0b"+b2+"\n")
	add("NUL before second key", t1+" "+b1+"\x00"+t2+" "+b2+"\n")
	add("blobs concatenated", t1+" "+b1+b2+"\n")
	add("blobs joined by =", t1+" "+b1+"="+b2+"\n")
	if len(b1) > 8 {
		add("first blob truncated, second blob", t1+" "+b1[:len(b1)-5]+" "+b2+"\n")
		add("first blob truncated with junk, second key", t1+" "+b1[:len(b1)-5]+".x "+t2+" "+b2+"\n")
	}
	add("very long comment", t1+" "+b1+" "+strings.Repeat("c", 600)+"\n")
	add("long comment holding the second key", t1+" "+b1+" "+strings.Repeat("c", 100)+" "+t2+" "+b2+"\n")
	return out
}

func c10KeyDesc(pub crypto.PublicKey) (kind int, a, b int64) {
	switch k := pub.(type) {
	case *rsa.PublicKey:
		return 0, int64(k.N.BitLen()), int64(k.E)
	case *ecdsa.PublicKey:
		return 1, int64(k.Curve.Params().BitSize), 0
	case ed25519.PublicKey:
		return 2, 0, 0
	case *ed25519.PublicKey:
		return 2, 0, 0
	}
	return 3, 0, 0
}

func c10FileStage(t *testing.T, env *verifEnv, res *verifResult, corpus []*c10Key, userCookie *http.Cookie) (cases, idx []string) {
	byDesc := map[string]*c10Key{}
	ids := map[string]int{} // ssh wire form -> identity (1-based; 0 = a key outside the table)
	for _, k := range corpus {
		byDesc[k.desc] = k
	}
	pick := func(names ...string) []*c10Key {
		var out []*c10Key
		for _, n := range names {
			if k := byDesc[n]; k != nil && k.sshLine != "" {
				out = append(out, k)
				if sp, err := ssh.NewPublicKey(k.pub); err == nil {
					if _, ok := ids[string(sp.Marshal())]; !ok {
						ids[string(sp.Marshal())] = len(ids) + 1
					}
				}
			}
		}
		return out
	}
	strong := pick("rsa-2048-e65537", "ecdsa-p256", "rsa-3072-e65537", "ecdsa-p521", "ed25519")
	weak := pick("rsa-1024-e65537", "dsa-1024", "rsa-2047-e65537", "rsa-2048-e3", "rsa-512-e3")
	if !verifThorough() {
		strong, weak = strong[:min(3, len(strong))], weak[:min(3, len(weak))]
	}
	type pair struct{ a, b *c10Key }
	var pairs []pair
	for i, s := range strong {
		for j, w := range weak {
			if !verifThorough() && (i+j+int(verifSeed()))%2 == 1 && !(i == 0 && j == 0) {
				continue
			}
			pairs = append(pairs, pair{s, w}, pair{w, s})
		}
	}
	if len(strong) > 1 {
		pairs = append(pairs, pair{strong[0], strong[1]}, pair{strong[1], strong[0]})
	}
	if len(weak) > 1 {
		pairs = append(pairs, pair{weak[0], weak[1]})
	}
	coqKey := func(k ssh.PublicKey) string {
		if k == nil {
			return "None"
		}
		kind, a, b := 3, int64(0), int64(0)
		if cp, ok := k.(ssh.CryptoPublicKey); ok {
			kind, a, b = c10KeyDesc(cp.CryptoPublicKey())
		}
		return fmt.Sprintf("(Some (%d, %d, %d, %d))", ids[string(k.Marshal())], kind, a, b)
	}
	for _, pr := range pairs {
		for _, f := range c10SSHFiles(pr.a, pr.b) {
			cs := map[string]interface{}{"path": "ssh", "file": f.text, "shape": f.note, "first_key": pr.a.desc, "second_key": pr.b.desc}
			// the key the strength check is applied to
			var validated ssh.PublicKey
			func() {
				defer func() {
					if p := recover(); p != nil {
						res.hit(verifHit{Key: "C10:panic:ssh-file-validator", Oracle: "panic", What: fmt.Sprintf("the SSH key file validator panicked on %s (%s, %s): %v", f.note, pr.a.desc, pr.b.desc, p), Case: cs})
					}
				}()
				if k, userErr, err := getValidSSHPublicKey(f.text); userErr == nil && err == nil {
					validated = k
				}
			}()
			req := verifCertgenRequest("POST", "alice", "ssh", f.text, nil, nil)
			req.AddCookie(userCookie)
			rr, pan := env.serve(req)
			cert := verifParseCertBody(rr.Body.Bytes())
			issued := rr.Code == 200 && cert != nil && cert.ssh != nil
			class := 1
			if issued {
				class = 0
			} else if rr.Code >= 500 || pan || rr.Code < 400 {
				class = 2
			}
			res.eval(fmt.Sprintf("file|%s|%s|%s|%d", f.note, pr.a.desc, pr.b.desc, rr.Code), validated != nil)
			res.bump("ssh-file")
			res.bump(fmt.Sprintf("ssh-file-status_%d", rr.Code))
			var certified ssh.PublicKey
			if issued {
				certified = cert.ssh.Key
				var certKey crypto.PublicKey
				if cp, ok := certified.(ssh.CryptoPublicKey); ok {
					certKey = cp.CryptoPublicKey()
				}
				if !c10Strong(certKey) {
					res.hit(verifHit{Key: "C10:weak-certified:ssh", Oracle: "a weak or unknown key was certified",
						What: fmt.Sprintf("SSH key file (%s; %s then %s) was certified for a weak key", f.note, pr.a.desc, pr.b.desc), Case: cs, Observed: rr.Code})
				} else if validated == nil || string(validated.Marshal()) != string(certified.Marshal()) {
					res.hit(verifHit{Key: "C10:certified-unvalidated-key:ssh", Oracle: "the certified key is not the key the strength check was applied to",
						What: fmt.Sprintf("SSH key file (%s; %s then %s): the validator and the signer read different keys", f.note, pr.a.desc, pr.b.desc), Case: cs, Observed: rr.Code})
				}
			}
			if pan {
				res.hit(verifHit{Key: "C10:panic:ssh", Oracle: "panic", What: fmt.Sprintf("path ssh panicked on a key file (%s; %s, %s)", f.note, pr.a.desc, pr.b.desc), Case: cs})
			}
			cases = append(cases, fmt.Sprintf("(%s, %s, %d)", coqKey(validated), coqKey(certified), class))
			idx = append(idx, fmt.Sprintf("ssh-file shape=%q first=%s second=%s status=%d issued=%v file=%q", f.note, pr.a.desc, pr.b.desc, rr.Code, issued, f.text))
		}
	}
	res.Extra["ssh_files"] = len(cases)
	return cases, idx
}

func TestVerif_C10(t *testing.T) {
	verifWriteConsts(t)
	res := newVerifResult("(a) ValidatePublicKeyStrength on synthetic RSA moduli of every bit length 1..4200 x 8 exponents, the four NIST curves, Ed25519 (value and pointer), DSA, X25519, nil; (b) key corpus (RSA 512..4096 incl. 2040..2049 x exponents, P-224/256/384/521, Ed25519, DSA, X25519) x the six issuing paths over HTTP; (c) structure-aware and byte-level mutations of keys, tokens and parameters through every path with a panic-recording wrapper; (e) every kind of genuine signed artefact, each claim dropped / type-confused (re-signed with the server key), header variants, corruptions and garbage at every token sink (cookie, token endpoint for secret and PKCE clients, userinfo, CLI verify/send, storage record, level upgrade); non-trivial = parser accepted the key or a mutation of a valid blob; distinct by (path, key, status)")
	env := verifSetup(t, func(c *AppConfigFile, dir string) {
		c.Base.AllowedAuthBackendsForWebUI = []string{"password"}
		c.Base.AllowedAuthBackendsForCerts = []string{"U2F"}
		c.Base.AutomationUsers = []string{"svc-automation"}
		c.Base.AdminUsers = []string{"admin"}
		c.AwsCerts.AllowedAccounts = []string{"123456789012"}
		// token sinks (stage e): OpenID clients with and without a secret, CLI web-auth tokens
		c.Base.WebauthTokenForCliLifetime = 10 * time.Minute
		c.OpenIDConnectIDP.Client = []OpenIDConnectClientConfig{
			{ClientID: c04ClientA, ClientSecret: c04SecretA, AllowedRedirectDomains: []string{"a.example"}},
			{ClientID: c04ClientB, ClientSecret: "", AllowedRedirectDomains: []string{"b.example"}},
		}
	})
	env.enableFakeAws()
	env.handler = env.buildHandler()
	rng := verifRand()
	good := verifNewKeys()
	userCookie := env.cookie("alice", AuthTypeU2F)
	adminCookie := env.cookie("admin", AuthTypePassword)
	ipChain := env.ipRestrictedChain("svc-automation", []net.IPNet{mustCIDR("10.0.0.0/8")}, &good.ec.PublicKey)

	// (a) the predicate itself
	var predCases []string
	addPred := func(kind int, a, b int64, pub interface{}) {
		ok, err := certgen.ValidatePublicKeyStrength(pub)
		v := ok && err == nil
		predCases = append(predCases, fmt.Sprintf("(%d, %d, %d, %s)", kind, a, b, coqBool(v)))
		res.eval(fmt.Sprintf("pred|%d|%d|%d|%v", kind, a, b, v), true)
		res.bump("predicate")
		var strong bool
		if p, ok := pub.(crypto.PublicKey); ok {
			strong = c10Strong(p)
		}
		if v && !strong {
			res.hit(verifHit{Key: "C10:weak-accepted:predicate", Oracle: "strength predicate accepts a weak key",
				What: fmt.Sprintf("ValidatePublicKeyStrength accepts kind=%d a=%d b=%d", kind, a, b), Case: map[string]interface{}{"kind": kind, "a": a, "b": b}})
		}
	}
	for bits := 1; bits <= 4200; bits++ {
		es := []int{65537}
		if bits%64 == 0 || (bits >= 2030 && bits <= 2060) {
			es = []int{1, 3, 17, 65535, 65536, 65537, 65539, 1<<31 - 1}
		}
		for _, e := range es {
			n := new(big.Int).Lsh(big.NewInt(1), uint(bits-1))
			n.SetBit(n, 0, 1)
			addPred(0, int64(bits), int64(e), &rsa.PublicKey{N: n, E: e})
		}
	}
	for _, c := range []elliptic.Curve{elliptic.P224(), elliptic.P256(), elliptic.P384(), elliptic.P521()} {
		priv, _ := ecdsa.GenerateKey(c, rand.Reader)
		addPred(1, int64(c.Params().BitSize), 0, &priv.PublicKey)
	}
	edpub, _, _ := ed25519.GenerateKey(rand.Reader)
	addPred(2, 0, 0, edpub)
	addPred(2, 0, 0, &edpub)
	addPred(3, 0, 0, &dsa.PublicKey{})
	addPred(3, 0, 0, nil)
	addPred(3, 0, 0, "a string")

	// (b) the six issuing paths
	var request c10Requester = func(path string, sshLine, pemKey, derRU string) *http.Request {
		switch path {
		case "ssh":
			r := verifCertgenRequest("POST", "alice", "ssh", sshLine, nil, nil)
			r.AddCookie(userCookie)
			return r
		case "x509", "x509-kubernetes":
			r := verifCertgenRequest("POST", "alice", path, pemKey, nil, nil)
			r.AddCookie(userCookie)
			return r
		case "role":
			r := verifNewRequest("POST", getRoleRequestingPath, roleCertForm("svc-automation", []string{"10.0.0.0/8"}, derRU))
			r.AddCookie(adminCookie)
			return r
		case "refresh":
			r := verifNewRequest("POST", refreshRoleRequestingCertPath, roleCertForm("", nil, derRU))
			return withTLS(r, ipChain, "10.9.9.9:1234")
		default:
			return verifAwsRequest(pemKey)
		}
	}
	var pipeCases, pipeIdx []string
	corpus := c10Corpus()
	for _, k := range corpus {
		for _, path := range c10Paths {
			if path == "ssh" && k.sshLine == "" {
				continue
			}
			if path != "ssh" && k.der == nil {
				continue
			}
			req := request(path, k.sshLine, c10Pem(k.der), base64.RawURLEncoding.EncodeToString(k.der))
			rr, pan := env.serve(req)
			cert := verifParseCertBody(rr.Body.Bytes())
			issued := rr.Code == 200 && cert != nil
			class := 1
			if issued {
				class = 0
			} else if rr.Code >= 500 || pan || rr.Code < 400 {
				class = 2
			}
			res.eval(fmt.Sprintf("path|%s|%s|%d", path, k.desc, rr.Code), true)
			res.bump("path:" + path)
			res.bump(fmt.Sprintf("status_%d", rr.Code))
			pipeCases = append(pipeCases, fmt.Sprintf("(%d, %d, %d, %d)", k.kind, k.a, k.b, class))
			pipeIdx = append(pipeIdx, fmt.Sprintf("path=%s key=%s status=%d issued=%v", path, k.desc, rr.Code, issued))
			cs := map[string]interface{}{"path": path, "key": k.desc}
			if issued {
				var certKey crypto.PublicKey
				if cert.x509 != nil {
					certKey = cert.x509.PublicKey
				} else if cp, ok := cert.ssh.Key.(ssh.CryptoPublicKey); ok {
					certKey = cp.CryptoPublicKey()
				}
				if !k.strong || !c10Strong(certKey) {
					res.hit(verifHit{Key: "C10:weak-certified:" + path, Oracle: "a weak or unknown key was certified",
						What: fmt.Sprintf("path %s certified %s", path, k.desc), Case: cs, Observed: rr.Code})
				}
			} else if !k.strong && class == 2 {
				res.hit(verifHit{Key: "C10:weak-not-client-error:" + path, Oracle: "a weak key is refused with a non-client-error status",
					What: fmt.Sprintf("path %s answers %d for %s", path, rr.Code, k.desc), Case: cs, Observed: rr.Code})
			}
			if pan {
				res.hit(verifHit{Key: "C10:panic:" + path, Oracle: "panic", What: fmt.Sprintf("path %s panicked on %s", path, k.desc), Case: cs})
			}
		}
	}
	// (c) mutations
	nMut := 2500
	if verifThorough() {
		nMut = 150000
	}
	mutate := func(b []byte) []byte {
		o := append([]byte{}, b...)
		switch rng.Intn(7) {
		case 0:
			if len(o) > 0 {
				o = o[:rng.Intn(len(o))]
			}
		case 1:
			for i := 0; i < 1+rng.Intn(3) && len(o) > 0; i++ {
				o[rng.Intn(len(o))] ^= byte(1 << uint(rng.Intn(8)))
			}
		case 2:
			if len(o) > 0 {
				o[rng.Intn(len(o))] = byte(rng.Intn(256))
			}
		case 3:
			extra := make([]byte, rng.Intn(40))
			rng.Read(extra)
			o = append(o, extra...)
		case 4:
			if len(o) > 4 {
				i := rng.Intn(len(o) - 2)
				o = append(o[:i], o[i+1+rng.Intn(2):]...)
			}
		case 5:
			if len(o) > 2 { // length / tag bytes near the front
				o[rng.Intn(min(len(o), 12))] = byte([]int{0x00, 0x7f, 0x80, 0x81, 0x84, 0xff, 0x30, 0x03, 0x02}[rng.Intn(9)])
			}
		default:
			if len(o) > 8 {
				i, j := rng.Intn(len(o)), rng.Intn(len(o))
				o[i], o[j] = o[j], o[i]
			}
		}
		return o
	}
	var bases []*c10Key
	for _, k := range corpus {
		if k.desc == "rsa-2048-e65537" || k.desc == "ecdsa-p256" || k.desc == "ed25519" || k.desc == "ecdsa-p521" || k.desc == "dsa-1024" || k.desc == "rsa-512-e3" {
			bases = append(bases, k)
		}
	}
	sshTypes := []string{"ssh-rsa", "ssh-dss", "ecdsa-sha2-nistp256", "ssh-ed25519", "ecdsa-sha2-nistp384", "sk-ssh-ed25519@openssh.com", "ssh-rsa-cert-v01@openssh.com"}
	for i := 0; i < nMut; i++ {
		k := bases[rng.Intn(len(bases))]
		path := c10Paths[rng.Intn(len(c10Paths))]
		var req *http.Request
		if path == "ssh" {
			if k.sshLine == "" {
				continue
			}
			parts := strings.SplitN(k.sshLine, " ", 3)
			raw, _ := base64.StdEncoding.DecodeString(parts[1])
			line := parts[0] + " " + base64.StdEncoding.EncodeToString(mutate(raw)) + " c\n"
			switch rng.Intn(6) {
			case 0:
				line = sshTypes[rng.Intn(len(sshTypes))] + " " + parts[1] + " c\n"
			case 1:
				line = string(mutate([]byte(k.sshLine)))
			}
			req = request(path, line, "", "")
		} else {
			der := mutate(k.der)
			pemKey := c10Pem(der)
			switch rng.Intn(8) {
			case 0:
				pemKey = string(pem.EncodeToMemory(&pem.Block{Type: []string{"RSA PUBLIC KEY", "CERTIFICATE", "PRIVATE KEY", ""}[rng.Intn(4)], Bytes: k.der}))
			case 1:
				pemKey = string(mutate([]byte(c10Pem(k.der))))
			}
			ru := base64.RawURLEncoding.EncodeToString(der)
			if rng.Intn(8) == 0 {
				ru = string(mutate([]byte(ru)))
			}
			req = request(path, "", pemKey, ru)
		}
		// sometimes also a mangled session token / basic auth instead of the valid cookie
		if rng.Intn(5) == 0 {
			req.Header.Del("Cookie")
			req.AddCookie(authCookie(string(mutate([]byte(userCookie.Value)))))
		}
		rr, pan := env.serve(req)
		res.eval(fmt.Sprintf("mut|%s|%d|%d", path, i, rr.Code), true)
		res.bump("mutation:" + path)
		if pan {
			res.hit(verifHit{Key: "C10:panic:" + path, Oracle: "panic", What: fmt.Sprintf("path %s panicked on a mutated input (seed %d, iteration %d)", path, verifSeed(), i),
				Case: map[string]interface{}{"path": path, "iteration": i, "seed": verifSeed()}})
		}
		if rr.Code == 200 {
			if cert := verifParseCertBody(rr.Body.Bytes()); cert != nil {
				var certKey crypto.PublicKey
				if cert.x509 != nil {
					certKey = cert.x509.PublicKey
				} else if cp, ok := cert.ssh.Key.(ssh.CryptoPublicKey); ok {
					certKey = cp.CryptoPublicKey()
				}
				if !c10Strong(certKey) {
					res.hit(verifHit{Key: "C10:weak-certified:" + path, Oracle: "a weak or unknown key was certified", What: fmt.Sprintf("mutation %d on path %s certified a weak key", i, path), Case: map[string]interface{}{"path": path, "iteration": i, "seed": verifSeed()}})
				}
			}
		}
	}
	// (d) malformed address extensions in otherwise trusted client certificates
	verifCorruptExtensionProbe(env, res, good, "C10")
	// (g) the configuration dimension (key deny lists), (h) the structure of a submitted PEM text
	cfgCases, cfgIdx := c10ConfigStage(env, res, corpus, request)
	pemCases, pemIdx := c10PemStage(env, res, corpus, request)
	// (i) the pubkey form parameter of the role paths: encodings, repeated values
	paramCases, paramIdx := c10ParamStage(env, res, corpus, func(path string, pubkeys []string) *http.Request {
		if path == "role" {
			f := roleCertForm("svc-automation", []string{"10.0.0.0/8"}, "")
			for _, v := range pubkeys {
				f.Add("pubkey", v)
			}
			r := verifNewRequest("POST", getRoleRequestingPath, f)
			r.AddCookie(adminCookie)
			return r
		}
		f := roleCertForm("", nil, "")
		for _, v := range pubkeys {
			f.Add("pubkey", v)
		}
		return withTLS(verifNewRequest("POST", refreshRoleRequestingCertPath, f), ipChain, "10.9.9.9:1234")
	})
	// (j) byte-level framing of every key upload (marks, NULs, odd / even cuts, UTF-16 transcodings)
	frameCases, frameIdx := c10FramingStage(env, res, corpus, request)
	// (f) the SSH key file as the validator and as the signer read it
	fileCases, fileIdx := c10FileStage(t, env, res, corpus, userCookie)
	// (e) signed tokens of every kind, claim-dropped / type-confused / corrupted, at every token sink
	claimCases, claimIdx := c10TokenStage(t, env, res, rng)
	var sb strings.Builder
	sb.WriteString(coqCaseHeader)
	sb.WriteString("From KM Require Import Base.Cases Model.KeyStrength Model.ClaimAccess Model.PemWalk Model.KeyFraming.\nOpen Scope N_scope.\n")
	sb.WriteString("Definition pred_cases : list (N * N * N * bool) := [\n " + strings.Join(predCases, ";\n ") + "].\n")
	sb.WriteString("Definition c10_pred_mismatches := Eval vm_compute in mismatches c10_bad pred_cases.\nPrint c10_pred_mismatches.\n")
	sb.WriteString("(* issuing paths: class 0 = certificate issued, 1 = client error, 2 = server error/other *)\n")
	sb.WriteString("Definition pipe_cases : list (N * N * N * N) := [\n " + strings.Join(pipeCases, ";\n ") + "].\n")
	sb.WriteString("Definition c10_pipeline_mismatches := Eval vm_compute in mismatches (fun c : N * N * N * N => let '(kind, a, b, cls) := c in match pipeline (Some (desc_of kind a b)) with Signed _ => negb (cls =? 0) && negb (cls =? 1) | ClientError => negb (cls =? 1) | ServerError => true end) pipe_cases.\nPrint c10_pipeline_mismatches.\n")
	sb.WriteString("(* SSH key files: (key the validator approved, key inside the certificate, class); a key is (identity, kind, a, b) *)\n")
	sb.WriteString("Definition file_cases : list (option (N * N * N * N) * option (N * N * N * N) * N) := [\n " + strings.Join(fileCases, ";\n ") + "].\n")
	sb.WriteString("Definition c10_file_mismatches := Eval vm_compute in mismatches c10_file_bad file_cases.\nPrint c10_file_mismatches.\n")
	sb.WriteString("Definition c10_agree_mismatches := Eval vm_compute in mismatches c10_agree_bad file_cases.\nPrint c10_agree_mismatches.\n")
	sb.WriteString("(* claim access on well-signed tokens: (payload, clock s, panicked, what getAuthInfoFromAuthJWT returned: user, level, expires, issued-at) *)\n")
	sb.WriteString("Definition c10_issuer : bs := " + coqPacked([]byte(env.state.idpGetIssuer())) + ".\nDefinition c10_kind : bs := " + coqPacked([]byte("keymaster_auth")) + ".\n")
	sb.WriteString("Definition claim_cases : list (json * Z * bool * option (bs * Z * Z * Z)) := [\n " + strings.Join(claimCases, ";\n ") + "].\n")
	sb.WriteString("Definition c10_claim_mismatches := Eval vm_compute in mismatches (fun c : json * Z * bool * option (bs * Z * Z * Z) => let '(pl, now, pan, obs) := c in match get_auth_info c10_issuer c10_kind now pl, obs with | Ok (u, l, e, i), Some (u', l', e', i') => pan || negb (bs_eqb u u' && (l =? l')%Z && (e =? e')%Z && (i =? i')%Z) | Err, None => pan | Panic, _ => negb pan | _, _ => true end) claim_cases.\nPrint c10_claim_mismatches.\n")
	sb.WriteString("(* configuration dimension: (path, parsed key, fingerprint identity, deny list, path consults the list when issuing, class) *)\n")
	sb.WriteString("Definition cfg_cases : list cfg_case := [\n " + strings.Join(cfgCases, ";\n ") + "].\n")
	sb.WriteString("Definition c10_cfg_mismatches := Eval vm_compute in mismatches c10_cfg_bad cfg_cases.\nPrint c10_cfg_mismatches.\n")
	sb.WriteString("Definition c10_cfg_violating := Eval vm_compute in mismatches (fun c => c10_cfg_bad c && c10_cfg_violates c) cfg_cases.\nPrint c10_cfg_violating.\n")
	sb.WriteString("(* PEM structure: (path, blocks as pem.Decode delivers them, bytes after the last block, class, panicked) *)\n")
	sb.WriteString("Definition pem_cases : list pem_case := [\n " + strings.Join(pemCases, ";\n ") + "].\n")
	sb.WriteString("Definition c10_pem_mismatches := Eval vm_compute in mismatches c10_pem_bad pem_cases.\nPrint c10_pem_mismatches.\n")
	sb.WriteString("Definition c10_pem_violating := Eval vm_compute in mismatches (fun c => c10_pem_bad c && c10_pem_violates c) pem_cases.\nPrint c10_pem_violating.\n")
	sb.WriteString("(* pubkey form parameter of the role paths: (path, values, class) *)\n")
	sb.WriteString("Definition param_cases : list param_case := [\n " + strings.Join(paramCases, ";\n ") + "].\n")
	sb.WriteString("Definition c10_param_mismatches := Eval vm_compute in mismatches c10_param_bad param_cases.\nPrint c10_param_mismatches.\n")
	sb.WriteString("Definition c10_param_violating := Eval vm_compute in mismatches (fun c => c10_param_bad c && c10_param_violates c) param_cases.\nPrint c10_param_violating.\n")
	sb.WriteString("(* framed uploads: (path, observed normalisations of the path (strip UTF-8 mark, UTF-16LE, UTF-16BE), uploaded bytes, what the real parser makes of the normalised text, class, panicked) *)\n")
	sb.WriteString("Definition framing_cases : list framing_case := [\n " + strings.Join(frameCases, ";\n ") + "].\n")
	sb.WriteString("Definition c10_framing_mismatches := Eval vm_compute in mismatches c10_framing_bad framing_cases.\nPrint c10_framing_mismatches.\n")
	sb.WriteString("Definition c10_framing_violating := Eval vm_compute in mismatches (fun c => c10_framing_bad c && c10_framing_violates c) framing_cases.\nPrint c10_framing_violating.\n")
	sb.WriteString("Definition c10_ncases := Eval vm_compute in (length pred_cases + length pipe_cases + length file_cases + length claim_cases + length cfg_cases + length pem_cases + length param_cases + length framing_cases)%nat.\nPrint c10_ncases.\n")
	if err := ioutil.WriteFile(filepath.Join(verifOut(), "CasesC10.v"), []byte(sb.String()), 0644); err != nil {
		t.Fatal(err)
	}
	ioutil.WriteFile(filepath.Join(verifOut(), "CasesC10.idx"), []byte(strings.Join(pipeIdx, "\n")), 0644)
	ioutil.WriteFile(filepath.Join(verifOut(), "CasesC10F.idx"), []byte(strings.Join(fileIdx, "\n")), 0644)
	ioutil.WriteFile(filepath.Join(verifOut(), "CasesC10J.idx"), []byte(strings.Join(claimIdx, "\n")), 0644)
	ioutil.WriteFile(filepath.Join(verifOut(), "CasesC10G.idx"), []byte(strings.Join(cfgIdx, "\n")), 0644)
	ioutil.WriteFile(filepath.Join(verifOut(), "CasesC10P.idx"), []byte(strings.Join(pemIdx, "\n")), 0644)
	ioutil.WriteFile(filepath.Join(verifOut(), "CasesC10R.idx"), []byte(strings.Join(paramIdx, "\n")), 0644)
	ioutil.WriteFile(filepath.Join(verifOut(), "CasesC10X.idx"), []byte(strings.Join(frameIdx, "\n")), 0644)
	res.sample(map[string]interface{}{"path": "role", "key": "rsa-2047-e65537", "expected": "client error"})
	res.sample(pipeIdx[0])
	res.sample(pipeIdx[len(pipeIdx)/2])
	res.Extra["panics"] = env.panics
	res.write(t, "TestVerif_C10")
}
