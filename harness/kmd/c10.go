package main

import (
	"time"
	"crypto"
	"crypto/dsa"
	"crypto/ecdh"
	"crypto/ecdsa"
	"crypto/ed25519"
	"crypto/elliptic"
	"crypto/rand"
	"crypto/rsa"
	"crypto/x509"
	"encoding/asn1"
	"encoding/base64"
	"encoding/pem"
	"fmt"
	"io/ioutil"
	"math/big"
	"net"
	"net/http"
	"path/filepath"
	"strings"
	"testing"

	"github.com/Cloud-Foundations/keymaster/lib/certgen"
	"golang.org/x/crypto/ssh"
)

type c10Key struct {
	desc    string
	kind    int // 0 RSA, 1 ECDSA, 2 Ed25519, 3 other
	a, b    int64
	pub     crypto.PublicKey
	der     []byte // PKIX
	sshLine string
	strong  bool
}

func c10Strong(pub crypto.PublicKey) bool {
	switch k := pub.(type) {
	case *rsa.PublicKey:
		return k.N.BitLen() >= 2048 && k.E >= 65537
	case *ecdsa.PublicKey:
		return k.Curve.Params().BitSize >= 256
	case ed25519.PublicKey:
		return true
	case *ed25519.PublicKey:
		return true
	}
	return false
}

func c10RSA(bits int, e int) *rsa.PublicKey {
	n := new(big.Int).Lsh(big.NewInt(1), uint(bits-1))
	if bits > 8 {
		r, _ := rand.Int(rand.Reader, new(big.Int).Lsh(big.NewInt(1), uint(bits-2)))
		n.Add(n, r)
	}
	n.SetBit(n, 0, 1)
	return &rsa.PublicKey{N: n, E: e}
}

func c10Finish(k *c10Key) {
	if k.der == nil && k.pub != nil {
		k.der, _ = x509.MarshalPKIXPublicKey(k.pub)
	}
	if k.sshLine == "" && k.pub != nil {
		if sp, err := ssh.NewPublicKey(k.pub); err == nil {
			k.sshLine = strings.TrimSpace(string(ssh.MarshalAuthorizedKey(sp))) + " verif@harness\n"
		}
	}
	k.strong = c10Strong(k.pub)
}

func c10Corpus() []*c10Key {
	var ks []*c10Key
	for _, bits := range []int{512, 768, 1024, 1536, 2000, 2040, 2041, 2042, 2044, 2046, 2047, 2048, 2049, 2056, 3071, 3072, 4095, 4096} {
		for _, e := range []int{3, 17, 257, 65535, 65537, 65539, 16777215} {
			if bits < 2000 && e != 65537 && e != 3 {
				continue
			}
			k := &c10Key{desc: fmt.Sprintf("rsa-%d-e%d", bits, e), kind: 0, a: int64(bits), b: int64(e), pub: c10RSA(bits, e)}
			c10Finish(k)
			ks = append(ks, k)
		}
	}
	for _, c := range []elliptic.Curve{elliptic.P224(), elliptic.P256(), elliptic.P384(), elliptic.P521()} {
		priv, _ := ecdsa.GenerateKey(c, rand.Reader)
		k := &c10Key{desc: fmt.Sprintf("ecdsa-p%d", c.Params().BitSize), kind: 1, a: int64(c.Params().BitSize), pub: &priv.PublicKey}
		c10Finish(k)
		ks = append(ks, k)
	}
	edpub, _, _ := ed25519.GenerateKey(rand.Reader)
	k := &c10Key{desc: "ed25519", kind: 2, pub: edpub}
	c10Finish(k)
	ks = append(ks, k)
	// DSA 1024/160
	var params dsa.Parameters
	if err := dsa.GenerateParameters(&params, rand.Reader, dsa.L1024N160); err == nil {
		priv := dsa.PrivateKey{PublicKey: dsa.PublicKey{Parameters: params}}
		dsa.GenerateKey(&priv, rand.Reader)
		dk := &c10Key{desc: "dsa-1024", kind: 3, pub: &priv.PublicKey}
		type dsaAlg struct {
			Alg    asn1.ObjectIdentifier
			Params struct{ P, Q, G *big.Int }
		}
		var alg dsaAlg
		alg.Alg = asn1.ObjectIdentifier{1, 2, 840, 10040, 4, 1}
		alg.Params.P, alg.Params.Q, alg.Params.G = params.P, params.Q, params.G
		y, _ := asn1.Marshal(priv.Y)
		dk.der, _ = asn1.Marshal(struct {
			Alg dsaAlg
			Key asn1.BitString
		}{alg, asn1.BitString{Bytes: y, BitLength: 8 * len(y)}})
		c10Finish(dk)
		ks = append(ks, dk)
	}
	if xk, err := ecdh.X25519().GenerateKey(rand.Reader); err == nil {
		ok := &c10Key{desc: "x25519", kind: 3, pub: xk.PublicKey()}
		c10Finish(ok)
		ks = append(ks, ok)
	}
	return ks
}

func c10Pem(der []byte) string {
	return string(pem.EncodeToMemory(&pem.Block{Type: "PUBLIC KEY", Bytes: der}))
}

var c10Paths = []string{"ssh", "x509", "x509-kubernetes", "role", "refresh", "aws"}

func TestVerif_C10(t *testing.T) {
	verifWriteConsts(t)
	res := newVerifResult("(a) ValidatePublicKeyStrength on synthetic RSA moduli of every bit length 1..4200 x 8 exponents, the four NIST curves, Ed25519 (value and pointer), DSA, X25519, nil; (b) key corpus (RSA 512..4096 incl. 2040..2049 x exponents, P-224/256/384/521, Ed25519, DSA, X25519) x the six issuing paths over HTTP; (c) structure-aware and byte-level mutations of keys, tokens and parameters through every path with a panic-recording wrapper; (e) every kind of genuine signed artefact, each claim dropped / type-confused (re-signed with the server key), header variants, corruptions and garbage at every token sink (cookie, token endpoint for secret and PKCE clients, userinfo, CLI verify/send, storage record, level upgrade); non-trivial = parser accepted the key or a mutation of a valid blob; distinct by (path, key, status)")
	env := verifSetup(t, func(c *AppConfigFile, dir string) {
		c.Base.AllowedAuthBackendsForWebUI = []string{"password"}
		c.Base.AllowedAuthBackendsForCerts = []string{"U2F"}
		c.Base.AutomationUsers = []string{"svc-automation"}
		c.Base.AdminUsers = []string{"admin"}
		c.AwsCerts.AllowedAccounts = []string{"123456789012"}
		// token sinks (stage e): OpenID clients with and without a secret, CLI web-auth tokens
		c.Base.WebauthTokenForCliLifetime = 10 * time.Minute
		c.OpenIDConnectIDP.Client = []OpenIDConnectClientConfig{
			{ClientID: c04ClientA, ClientSecret: c04SecretA, AllowedRedirectDomains: []string{"a.example"}},
			{ClientID: c04ClientB, ClientSecret: "", AllowedRedirectDomains: []string{"b.example"}},
		}
	})
	env.enableFakeAws()
	env.handler = env.buildHandler()
	rng := verifRand()
	good := verifNewKeys()
	userCookie := env.cookie("alice", AuthTypeU2F)
	adminCookie := env.cookie("admin", AuthTypePassword)
	ipChain := env.ipRestrictedChain("svc-automation", []net.IPNet{mustCIDR("10.0.0.0/8")}, &good.ec.PublicKey)

	// (a) the predicate itself
	var predCases []string
	addPred := func(kind int, a, b int64, pub interface{}) {
		ok, err := certgen.ValidatePublicKeyStrength(pub)
		v := ok && err == nil
		predCases = append(predCases, fmt.Sprintf("(%d, %d, %d, %s)", kind, a, b, coqBool(v)))
		res.eval(fmt.Sprintf("pred|%d|%d|%d|%v", kind, a, b, v), true)
		res.bump("predicate")
		var strong bool
		if p, ok := pub.(crypto.PublicKey); ok {
			strong = c10Strong(p)
		}
		if v && !strong {
			res.hit(verifHit{Key: "C10:weak-accepted:predicate", Oracle: "strength predicate accepts a weak key",
				What: fmt.Sprintf("ValidatePublicKeyStrength accepts kind=%d a=%d b=%d", kind, a, b), Case: map[string]interface{}{"kind": kind, "a": a, "b": b}})
		}
	}
	for bits := 1; bits <= 4200; bits++ {
		es := []int{65537}
		if bits%64 == 0 || (bits >= 2030 && bits <= 2060) {
			es = []int{1, 3, 17, 65535, 65536, 65537, 65539, 1<<31 - 1}
		}
		for _, e := range es {
			n := new(big.Int).Lsh(big.NewInt(1), uint(bits-1))
			n.SetBit(n, 0, 1)
			addPred(0, int64(bits), int64(e), &rsa.PublicKey{N: n, E: e})
		}
	}
	for _, c := range []elliptic.Curve{elliptic.P224(), elliptic.P256(), elliptic.P384(), elliptic.P521()} {
		priv, _ := ecdsa.GenerateKey(c, rand.Reader)
		addPred(1, int64(c.Params().BitSize), 0, &priv.PublicKey)
	}
	edpub, _, _ := ed25519.GenerateKey(rand.Reader)
	addPred(2, 0, 0, edpub)
	addPred(2, 0, 0, &edpub)
	addPred(3, 0, 0, &dsa.PublicKey{})
	addPred(3, 0, 0, nil)
	addPred(3, 0, 0, "a string")

	// (b) the six issuing paths
	request := func(path string, sshLine, pemKey, derRU string) *http.Request {
		switch path {
		case "ssh":
			r := verifCertgenRequest("POST", "alice", "ssh", sshLine, nil, nil)
			r.AddCookie(userCookie)
			return r
		case "x509", "x509-kubernetes":
			r := verifCertgenRequest("POST", "alice", path, pemKey, nil, nil)
			r.AddCookie(userCookie)
			return r
		case "role":
			r := verifNewRequest("POST", getRoleRequestingPath, roleCertForm("svc-automation", []string{"10.0.0.0/8"}, derRU))
			r.AddCookie(adminCookie)
			return r
		case "refresh":
			r := verifNewRequest("POST", refreshRoleRequestingCertPath, roleCertForm("", nil, derRU))
			return withTLS(r, ipChain, "10.9.9.9:1234")
		default:
			return verifAwsRequest(pemKey)
		}
	}
	var pipeCases, pipeIdx []string
	corpus := c10Corpus()
	for _, k := range corpus {
		for _, path := range c10Paths {
			if path == "ssh" && k.sshLine == "" {
				continue
			}
			if path != "ssh" && k.der == nil {
				continue
			}
			req := request(path, k.sshLine, c10Pem(k.der), base64.RawURLEncoding.EncodeToString(k.der))
			rr, pan := env.serve(req)
			cert := verifParseCertBody(rr.Body.Bytes())
			issued := rr.Code == 200 && cert != nil
			class := 1
			if issued {
				class = 0
			} else if rr.Code >= 500 || pan || rr.Code < 400 {
				class = 2
			}
			res.eval(fmt.Sprintf("path|%s|%s|%d", path, k.desc, rr.Code), true)
			res.bump("path:" + path)
			res.bump(fmt.Sprintf("status_%d", rr.Code))
			pipeCases = append(pipeCases, fmt.Sprintf("(%d, %d, %d, %d)", k.kind, k.a, k.b, class))
			pipeIdx = append(pipeIdx, fmt.Sprintf("path=%s key=%s status=%d issued=%v", path, k.desc, rr.Code, issued))
			cs := map[string]interface{}{"path": path, "key": k.desc}
			if issued {
				var certKey crypto.PublicKey
				if cert.x509 != nil {
					certKey = cert.x509.PublicKey
				} else if cp, ok := cert.ssh.Key.(ssh.CryptoPublicKey); ok {
					certKey = cp.CryptoPublicKey()
				}
				if !k.strong || !c10Strong(certKey) {
					res.hit(verifHit{Key: "C10:weak-certified:" + path, Oracle: "a weak or unknown key was certified",
						What: fmt.Sprintf("path %s certified %s", path, k.desc), Case: cs, Observed: rr.Code})
				}
			} else if !k.strong && class == 2 {
				res.hit(verifHit{Key: "C10:weak-not-client-error:" + path, Oracle: "a weak key is refused with a non-client-error status",
					What: fmt.Sprintf("path %s answers %d for %s", path, rr.Code, k.desc), Case: cs, Observed: rr.Code})
			}
			if pan {
				res.hit(verifHit{Key: "C10:panic:" + path, Oracle: "panic", What: fmt.Sprintf("path %s panicked on %s", path, k.desc), Case: cs})
			}
		}
	}
	// (c) mutations
	nMut := 2500
	if verifThorough() {
		nMut = 150000
	}
	mutate := func(b []byte) []byte {
		o := append([]byte{}, b...)
		switch rng.Intn(7) {
		case 0:
			if len(o) > 0 {
				o = o[:rng.Intn(len(o))]
			}
		case 1:
			for i := 0; i < 1+rng.Intn(3) && len(o) > 0; i++ {
				o[rng.Intn(len(o))] ^= byte(1 << uint(rng.Intn(8)))
			}
		case 2:
			if len(o) > 0 {
				o[rng.Intn(len(o))] = byte(rng.Intn(256))
			}
		case 3:
			extra := make([]byte, rng.Intn(40))
			rng.Read(extra)
			o = append(o, extra...)
		case 4:
			if len(o) > 4 {
				i := rng.Intn(len(o) - 2)
				o = append(o[:i], o[i+1+rng.Intn(2):]...)
			}
		case 5:
			if len(o) > 2 { // length / tag bytes near the front
				o[rng.Intn(min(len(o), 12))] = byte([]int{0x00, 0x7f, 0x80, 0x81, 0x84, 0xff, 0x30, 0x03, 0x02}[rng.Intn(9)])
			}
		default:
			if len(o) > 8 {
				i, j := rng.Intn(len(o)), rng.Intn(len(o))
				o[i], o[j] = o[j], o[i]
			}
		}
		return o
	}
	var bases []*c10Key
	for _, k := range corpus {
		if k.desc == "rsa-2048-e65537" || k.desc == "ecdsa-p256" || k.desc == "ed25519" || k.desc == "ecdsa-p521" || k.desc == "dsa-1024" || k.desc == "rsa-512-e3" {
			bases = append(bases, k)
		}
	}
	sshTypes := []string{"ssh-rsa", "ssh-dss", "ecdsa-sha2-nistp256", "ssh-ed25519", "ecdsa-sha2-nistp384", "sk-ssh-ed25519@openssh.com", "ssh-rsa-cert-v01@openssh.com"}
	for i := 0; i < nMut; i++ {
		k := bases[rng.Intn(len(bases))]
		path := c10Paths[rng.Intn(len(c10Paths))]
		var req *http.Request
		if path == "ssh" {
			if k.sshLine == "" {
				continue
			}
			parts := strings.SplitN(k.sshLine, " ", 3)
			raw, _ := base64.StdEncoding.DecodeString(parts[1])
			line := parts[0] + " " + base64.StdEncoding.EncodeToString(mutate(raw)) + " c\n"
			switch rng.Intn(6) {
			case 0:
				line = sshTypes[rng.Intn(len(sshTypes))] + " " + parts[1] + " c\n"
			case 1:
				line = string(mutate([]byte(k.sshLine)))
			}
			req = request(path, line, "", "")
		} else {
			der := mutate(k.der)
			pemKey := c10Pem(der)
			switch rng.Intn(8) {
			case 0:
				pemKey = string(pem.EncodeToMemory(&pem.Block{Type: []string{"RSA PUBLIC KEY", "CERTIFICATE", "PRIVATE KEY", ""}[rng.Intn(4)], Bytes: k.der}))
			case 1:
				pemKey = string(mutate([]byte(c10Pem(k.der))))
			}
			ru := base64.RawURLEncoding.EncodeToString(der)
			if rng.Intn(8) == 0 {
				ru = string(mutate([]byte(ru)))
			}
			req = request(path, "", pemKey, ru)
		}
		// sometimes also a mangled session token / basic auth instead of the valid cookie
		if rng.Intn(5) == 0 {
			req.Header.Del("Cookie")
			req.AddCookie(authCookie(string(mutate([]byte(userCookie.Value)))))
		}
		rr, pan := env.serve(req)
		res.eval(fmt.Sprintf("mut|%s|%d|%d", path, i, rr.Code), true)
		res.bump("mutation:" + path)
		if pan {
			res.hit(verifHit{Key: "C10:panic:" + path, Oracle: "panic", What: fmt.Sprintf("path %s panicked on a mutated input (seed %d, iteration %d)", path, verifSeed(), i),
				Case: map[string]interface{}{"path": path, "iteration": i, "seed": verifSeed()}})
		}
		if rr.Code == 200 {
			if cert := verifParseCertBody(rr.Body.Bytes()); cert != nil {
				var certKey crypto.PublicKey
				if cert.x509 != nil {
					certKey = cert.x509.PublicKey
				} else if cp, ok := cert.ssh.Key.(ssh.CryptoPublicKey); ok {
					certKey = cp.CryptoPublicKey()
				}
				if !c10Strong(certKey) {
					res.hit(verifHit{Key: "C10:weak-certified:" + path, Oracle: "a weak or unknown key was certified", What: fmt.Sprintf("mutation %d on path %s certified a weak key", i, path), Case: map[string]interface{}{"path": path, "iteration": i, "seed": verifSeed()}})
				}
			}
		}
	}
	// (d) malformed address extensions in otherwise trusted client certificates
	verifCorruptExtensionProbe(env, res, good, "C10")
	// (e) signed tokens of every kind, claim-dropped / type-confused / corrupted, at every token sink
	c10TokenStage(t, env, res, rng)
	var sb strings.Builder
	sb.WriteString(coqCaseHeader)
	sb.WriteString("From KM Require Import Base.Cases Model.KeyStrength.\nOpen Scope N_scope.\n")
	sb.WriteString("Definition pred_cases : list (N * N * N * bool) := [\n " + strings.Join(predCases, ";\n ") + "].\n")
	sb.WriteString("Definition c10_pred_mismatches := Eval vm_compute in mismatches c10_bad pred_cases.\nPrint c10_pred_mismatches.\n")
	sb.WriteString("(* issuing paths: class 0 = certificate issued, 1 = client error, 2 = server error/other *)\n")
	sb.WriteString("Definition pipe_cases : list (N * N * N * N) := [\n " + strings.Join(pipeCases, ";\n ") + "].\n")
	sb.WriteString("Definition c10_pipeline_mismatches := Eval vm_compute in mismatches (fun c : N * N * N * N => let '(kind, a, b, cls) := c in match pipeline (Some (desc_of kind a b)) with Signed _ => negb (cls =? 0) && negb (cls =? 1) | ClientError => negb (cls =? 1) | ServerError => true end) pipe_cases.\nPrint c10_pipeline_mismatches.\n")
	sb.WriteString("Definition c10_ncases := Eval vm_compute in (length pred_cases + length pipe_cases)%nat.\nPrint c10_ncases.\n")
	if err := ioutil.WriteFile(filepath.Join(verifOut(), "CasesC10.v"), []byte(sb.String()), 0644); err != nil {
		t.Fatal(err)
	}
	ioutil.WriteFile(filepath.Join(verifOut(), "CasesC10.idx"), []byte(strings.Join(pipeIdx, "\n")), 0644)
	res.sample(map[string]interface{}{"path": "role", "key": "rsa-2047-e65537", "expected": "client error"})
	res.sample(pipeIdx[0])
	res.sample(pipeIdx[len(pipeIdx)/2])
	res.Extra["panics"] = env.panics
	res.write(t, "TestVerif_C10")
}
