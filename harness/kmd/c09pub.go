package main

// C09, stage (e): after unsealing, the published keys include the keys that sign — observed over
// TIME and under every time-related configuration knob.
//
// The other stages look at the published sets right after the injection, on configurations that
// name only the options the harness knows.  Here:
//   * configuration by reflection: every time.Duration field of AppConfigFile (and of its nested
//     structs), and every integer field whose name speaks of seconds / intervals, is set to a very
//     small value (1 ms / 1) — whatever options exist in the tree under test, including ones this
//     file has never heard of; options the real loader refuses with that value are left alone;
//   * keymaster_public_keys_filename lists many foreign keys, so that anything that re-reads or
//     re-processes the file takes a while;
//   * after the injection was answered 200 the public endpoints are polled for a few hundred
//     milliseconds (seconds in the thorough tier): at EVERY poll /public/sshca must list the main
//     and the Ed25519 CA key, the JWKS the key that signs the session cookies, /public/x509ca a CA
//     certificate for each signer, and the server must accept the cookie it has just issued;
//   * several rounds, the injection timed at a random offset after the start of the daemon.
// The polls are shipped to Coq and compared with the model (nothing but unsealCA writes the list:
// every poll sees what the injection left; Model/Seal.v poll_ok), and the property's predicate on
// the observation (poll_violates) turns a deviating round into a failing input.

import (
	"crypto/ed25519"
	"crypto/rand"
	"crypto/rsa"
	"crypto/x509"
	"encoding/base64"
	"encoding/json"
	"encoding/pem"
	"fmt"
	"io/ioutil"
	"math/big"
	mrand "math/rand"
	"net/http"
	"os"
	"path/filepath"
	"reflect"
	"strings"
	"testing"
	"time"

	"github.com/Cloud-Foundations/golib/pkg/log/testlogger"
	"golang.org/x/crypto/ssh"
	"gopkg.in/yaml.v2"
)

type c09Knob struct {
	name  string
	index []int
	dur   bool
}

var c09TimeWords = []string{"secs", "seconds", "interval", "delay", "timeout", "period", "every", "minutes", "millis"}

// the time-related knobs of the configuration, found by reflection over AppConfigFile
func c09TimeKnobs() []c09Knob {
	var out []c09Knob
	durT := reflect.TypeOf(time.Duration(0))
	var walk func(t reflect.Type, idx []int, name string, depth int)
	walk = func(t reflect.Type, idx []int, name string, depth int) {
		if depth > 6 {
			return
		}
		for i := 0; i < t.NumField(); i++ {
			f := t.Field(i)
			if f.PkgPath != "" || f.Tag.Get("yaml") == "-" {
				continue
			}
			fidx := append(append([]int{}, idx...), i)
			fname := f.Name
			if name != "" {
				fname = name + "." + f.Name
			}
			switch {
			case f.Type == durT:
				out = append(out, c09Knob{fname, fidx, true})
			case f.Type.Kind() >= reflect.Int && f.Type.Kind() <= reflect.Int64:
				low := strings.ToLower(f.Name + " " + f.Tag.Get("yaml"))
				for _, w := range c09TimeWords {
					if strings.Contains(low, w) {
						out = append(out, c09Knob{fname, fidx, false})
						break
					}
				}
			case f.Type.Kind() == reflect.Struct:
				walk(f.Type, fidx, fname, depth+1)
			}
		}
	}
	walk(reflect.TypeOf(AppConfigFile{}), nil, "", 0)
	return out
}

func c09SetTiny(c *AppConfigFile, knobs []c09Knob) {
	v := reflect.ValueOf(c).Elem()
	for _, k := range knobs {
		f := v.FieldByIndex(k.index)
		if k.dur {
			f.SetInt(int64(time.Millisecond))
		} else {
			f.SetInt(1)
		}
	}
}

// does the real loader accept the generated configuration with this edit?  (like verifSetupSealed,
// but a refusal is an answer)
func c09LoaderAccepts(t *testing.T, edit func(c *AppConfigFile, dir string)) (ok bool) {
	defer func() {
		if p := recover(); p != nil {
			ok = false
		}
	}()
	material := verifMaterial(t)
	dir, err := ioutil.TempDir("", "verif_km_knob")
	if err != nil {
		t.Fatal(err)
	}
	defer os.RemoveAll(dir)
	copyTree(t, material, dir)
	configFilename := filepath.Join(dir, "config.yml")
	raw, err := ioutil.ReadFile(configFilename)
	if err != nil {
		t.Fatal(err)
	}
	raw = []byte(strings.ReplaceAll(string(raw), material, dir))
	var cfg AppConfigFile
	if err := yaml.Unmarshal(raw, &cfg); err != nil {
		t.Fatal(err)
	}
	cfg.Base.HostIdentity = "keymaster.example"
	cfg.Base.HttpAddress = ":443"
	cfg.Base.AdminAddress = ":6920"
	edit(&cfg, dir)
	out, err := yaml.Marshal(&cfg)
	if err != nil {
		return false
	}
	if err := ioutil.WriteFile(configFilename, out, 0640); err != nil {
		t.Fatal(err)
	}
	state, err := loadVerifyConfigFile(configFilename, testlogger.New(t))
	if err != nil {
		return false
	}
	if state.dbDone != nil {
		close(state.dbDone)
	}
	if state.db != nil {
		state.db.Close()
	}
	if state.cacheDB != nil {
		state.cacheDB.Close()
	}
	return true
}

// n foreign keymaster keys (authorized_keys lines): Ed25519 keys, and a few RSA keys (verifying a token
// against a foreign RSA key costs a modular exponentiation, against an Ed25519 key nothing)
func c09ForeignKeyLines(n int) []string {
	var lines []string
	for i := 0; i < n; i++ {
		var sp ssh.PublicKey
		var err error
		if i%250 == 249 {
			// a 2048-bit modulus nobody holds the factors of is as good a peer key as any
			b := make([]byte, 256)
			rand.Read(b)
			b[0] |= 0x80
			b[255] |= 1
			sp, err = ssh.NewPublicKey(&rsa.PublicKey{N: new(big.Int).SetBytes(b), E: 65537})
		} else {
			pub, _, e2 := ed25519.GenerateKey(rand.Reader)
			if e2 != nil {
				panic(e2)
			}
			sp, err = ssh.NewPublicKey(pub)
		}
		if err != nil {
			panic(err)
		}
		lines = append(lines, strings.TrimSpace(string(ssh.MarshalAuthorizedKey(sp))))
	}
	return lines
}

type c09Poll struct {
	npub     int
	complete bool
}

// the base64 blob of an authorized_keys line
func c09KeyBlob(line string) string {
	f := strings.Fields(line)
	if len(f) >= 2 {
		return f[1]
	}
	return line
}

type c09Expected struct {
	mainBlob, edBlob string
	mainPub          interface{}
	edPub            ed25519.PublicKey
}

// one look at the published sets; returns what is missing ("" = every key that signs is published and
// the server accepts its own cookie) and the number of published keys
var c09PollTimes [3]time.Duration

func (env *verifEnv) c09PollPublished(exp *c09Expected, cookieValue string, full bool) (missing string, npub int) {
	t0 := time.Now()
	defer func() { c09PollTimes[2] += time.Since(t0) }()
	rr, _ := env.serve(verifNewRequest("GET", "/public/sshca", nil))
	c09PollTimes[0] += time.Since(t0)
	if rr.Code != 200 {
		return fmt.Sprintf("sshca-answers-%d", rr.Code), 0
	}
	body := rr.Body.String()
	npub = strings.Count(body, "\n")
	if !strings.Contains(body, exp.mainBlob) {
		return "sshca-lacks-main-key", npub
	}
	if exp.edBlob != "" && !strings.Contains(body, exp.edBlob) {
		return "sshca-lacks-ed25519-key", npub
	}
	req := verifNewRequest("GET", profilePath, nil)
	req.AddCookie(&http.Cookie{Name: authCookieName, Value: cookieValue})
	t1 := time.Now()
	rr, _ = env.serve(req)
	c09PollTimes[1] += time.Since(t1)
	if rr.Code != 200 {
		return "own-cookie-rejected", npub
	}
	if !full {
		return "", npub
	}
	rr, _ = env.serve(verifNewRequest("GET", idpOpenIDCJWKSPath, nil))
	if rr.Code != 200 {
		return fmt.Sprintf("jwks-answers-%d", rr.Code), npub
	}
	var jwks struct {
		Keys []struct {
			Kty string `json:"kty"`
			N   string `json:"n"`
			X   string `json:"x"`
		} `json:"keys"`
	}
	if err := json.Unmarshal(rr.Body.Bytes(), &jwks); err != nil {
		return "jwks-unreadable", npub
	}
	wantN := ""
	if rk, ok := exp.mainPub.(*rsa.PublicKey); ok {
		wantN = base64.RawURLEncoding.EncodeToString(rk.N.Bytes())
	}
	found := wantN == ""
	for _, k := range jwks.Keys {
		if k.Kty == "RSA" && k.N == wantN {
			found = true
		}
	}
	if !found {
		return "jwks-lacks-main-key", npub
	}
	rr, _ = env.serve(verifNewRequest("GET", "/public/x509ca", nil))
	if rr.Code != 200 {
		return fmt.Sprintf("x509ca-answers-%d", rr.Code), npub
	}
	haveMain, haveEd := false, exp.edPub == nil
	rest := rr.Body.Bytes()
	for {
		blk, r := pem.Decode(rest)
		if blk == nil {
			break
		}
		rest = r
		c, err := x509.ParseCertificate(blk.Bytes)
		if err != nil {
			continue
		}
		switch pk := c.PublicKey.(type) {
		case *rsa.PublicKey:
			if rk, ok := exp.mainPub.(*rsa.PublicKey); ok && rk.N.Cmp(pk.N) == 0 {
				haveMain = true
			}
		case ed25519.PublicKey:
			if exp.edPub != nil && pk.Equal(exp.edPub) {
				haveEd = true
			}
		}
	}
	if !haveMain {
		return "x509ca-lacks-main-ca", npub
	}
	if !haveEd {
		return "x509ca-lacks-ed25519-ca", npub
	}
	return "", npub
}

func c09PublishedOverTime(t *testing.T, res *verifResult, rng *mrand.Rand) (coq string, idx string) {
	// ---- which time knobs does this tree have, and which does its loader accept at 1 ms / 1
	knobs := c09TimeKnobs()
	var accepted []c09Knob
	var names, refused []string
	for _, k := range knobs {
		k := k
		if c09LoaderAccepts(t, func(c *AppConfigFile, dir string) { c09SetTiny(c, []c09Knob{k}) }) {
			accepted = append(accepted, k)
			names = append(names, k.name)
		} else {
			refused = append(refused, k.name)
		}
	}
	if len(accepted) > 1 && !c09LoaderAccepts(t, func(c *AppConfigFile, dir string) { c09SetTiny(c, accepted) }) {
		t.Fatalf("the loader accepts each of %v at its tiny value but not all together", names)
	}
	res.Extra["time_knobs_tiny"] = names
	res.Extra["time_knobs_refused"] = refused
	nForeign, rounds, window := 1500, 6, 250*time.Millisecond
	if verifThorough() {
		nForeign, rounds, window = 3000, 40, 2*time.Second
	}
	foreign := c09ForeignKeyLines(nForeign)
	v := c09Variant{name: "rsa+ed, many foreign keys listed, every time knob tiny", edPass: verifPassphrase, edRes: "good", mainRes: "good", extraOther: true}
	keys := verifNewKeys()
	var sb, ib strings.Builder
	sb.WriteString(fmt.Sprintf("Definition cfg_pub : cfg := {| right_pass := %s; main_key := 1; main_res := FGood; role_ok := true; ed_file := Some (%s, 2, FGood); extra_pubkeys := 9 :: map N.of_nat (seq 100 %d) |}.\n",
		coqPacked([]byte(verifPassphrase)), coqPacked([]byte(verifPassphrase)), nForeign))
	sb.WriteString("(* per round: the distinct consecutive observations (number of published keys, every signing key published and own cookie accepted) of the polls after the injection *)\n")
	sb.WriteString("Definition pub_cases : list (list (nat * bool)) := [\n")
	totalPolls := 0
	for round := 0; round < rounds; round++ {
		exp := &c09Expected{}
		t0 := time.Now()
		env := c09Sealed(t, v, func(c *AppConfigFile, dir string) {
			c09Edit(c, dir)
			c09SetTiny(c, accepted)
			b, err := ioutil.ReadFile(c.Base.SSHCAFilename + ".pub")
			if err != nil {
				t.Fatal(err)
			}
			exp.mainBlob = c09KeyBlob(string(b))
			if pk, _, _, _, err := ssh.ParseAuthorizedKey(b); err == nil {
				if cp, ok := pk.(ssh.CryptoPublicKey); ok {
					exp.mainPub = cp.CryptoPublicKey()
				}
			}
			f, err := os.OpenFile(c.Base.KeymasterPublicKeysFilename, os.O_APPEND|os.O_WRONLY, 0644)
			if err != nil {
				t.Fatal(err)
			}
			f.WriteString(strings.Join(foreign, "\n") + "\n")
			f.Close()
		})
		loadTime := time.Since(t0)
		if p, ok := c09EdKeys.Load(env.dir); ok {
			exp.edPub = p.(ed25519.PrivateKey).Public().(ed25519.PublicKey)
			sp, _ := ssh.NewPublicKey(exp.edPub)
			exp.edBlob = c09KeyBlob(string(ssh.MarshalAuthorizedKey(sp)))
		}
		// the injection at a random moment of whatever the daemon does periodically
		offset := time.Duration(rng.Intn(150)) * 100 * time.Microsecond
		time.Sleep(offset)
		total := 0
		ob := env.c09Inject(c09Op{true, true, true, verifPassphrase, ""}, &total)
		if ob.code != 200 {
			t.Fatalf("published-over-time: the right passphrase was answered %d", ob.code)
		}
		env.finishStartup()
		cookieValue := env.cookie("alice", AuthTypePassword).Value
		var polls []c09Poll
		kase := map[string]interface{}{"variant": v.name, "foreign_keys_listed": nForeign + 1, "time_knobs_tiny": names, "injection_offset": offset.String(), "round": round}
		deadline := time.Now().Add(window)
		firstMissing := ""
		n := 0
		for time.Now().Before(deadline) {
			since := time.Since(deadline.Add(-window))
			missing, npub := env.c09PollPublished(exp, cookieValue, n%8 == 7)
			n++
			p := c09Poll{npub, missing == ""}
			if len(polls) == 0 || polls[len(polls)-1] != p {
				polls = append(polls, p)
			}
			res.eval(fmt.Sprintf("poll|%d|%s", npub, missing), true)
			if missing != "" && firstMissing == "" {
				firstMissing = missing
				res.hit(verifHit{Key: "C09:published-over-time:" + missing,
					Oracle: "after unsealing, at every moment, the published CA and JWKS keys include the keys that sign, and the server accepts the cookies it issues",
					What:   fmt.Sprintf("%v after the injection was answered 200 (poll %d): %s; /public/sshca lists %d keys (%d foreign keys configured, 2 signers)", since.Round(100*time.Microsecond), n, missing, npub, nForeign+1),
					Case:   kase, Observed: map[string]interface{}{"missing": missing, "published_keys": npub, "after": since.String()}})
			}
		}
		totalPolls += n
		// what the server signs at the end of the window verifies against what it publishes then
		if pub, ok := env.c09Published(t); ok {
			userEd, _, _ := ed25519.GenerateKey(rand.Reader)
			edSSH, _ := ssh.NewPublicKey(userEd)
			edUser := strings.TrimSpace(string(ssh.MarshalAuthorizedKey(edSSH))) + " verif-ed@harness\n"
			for _, pr := range c09Probes(keys, edUser) {
				switch pr.name {
				case "login-password", "certgen-ssh-basic", "certgen-x509-basic", "certgen-ssh-ed25519-userkey-basic":
				default:
					continue
				}
				req, sent := pr.build(env, env)
				rr, _ := env.serve(req)
				arts := c09Artefacts(rr, sent)
				res.eval(fmt.Sprintf("pub-artefact|%s|%d|%d", pr.name, rr.Code, len(arts)), len(arts) > 0)
				for _, a := range arts {
					if pub.identify(a) == 0 {
						res.hit(verifHit{Key: fmt.Sprintf("C09:signed-by-unpublished-key:kind%d:%s", a.kind, pr.route),
							Oracle: "after unsealing, the published CA and JWKS keys include the keys that sign",
							What:   fmt.Sprintf("%s answered %d with an artefact (kind %d) that verifies against no published key, %v after unsealing", pr.name, rr.Code, a.kind, window),
							Case:   kase})
					}
				}
			}
		} else {
			res.hit(verifHit{Key: "C09:published-over-time:public-endpoints-fail", Oracle: "after unsealing the public key endpoints answer", What: "one of /public/x509ca, /public/sshca, JWKS did not answer 200 after unsealing", Case: kase})
		}
		var ps []string
		for _, p := range polls {
			ps = append(ps, fmt.Sprintf("(%d%%nat, %s)", p.npub, coqBool(p.complete)))
		}
		sep := ";"
		if round == rounds-1 {
			sep = ""
		}
		sb.WriteString(" [" + strings.Join(ps, "; ") + "]" + sep + "\n")
		ib.WriteString(fmt.Sprintf("pub %d\tround=%d injection-offset=%v polls=%d load=%v observations=%v first-missing=%q knobs=%v\n", round, round, offset, n, loadTime.Round(time.Millisecond), polls, firstMissing, names))
		res.bump("pub-rounds")
	}
	sb.WriteString("].\n")
	sb.WriteString("Definition c09_pub_mismatches := Eval vm_compute in mismatches (fun p => negb (poll_ok cfg_pub p)) pub_cases.\nPrint c09_pub_mismatches.\n")
	sb.WriteString("Definition c09_pub_violating := Eval vm_compute in mismatches poll_violates pub_cases.\nPrint c09_pub_violating.\n")
	res.Extra["pub_rounds"] = rounds
	res.Extra["pub_polls"] = totalPolls
	res.Extra["pub_poll_ms_sshca_cookie_all"] = fmt.Sprint(c09PollTimes[0].Milliseconds(), c09PollTimes[1].Milliseconds(), c09PollTimes[2].Milliseconds())
	return sb.String(), ib.String()
}
