package main

// C15, first clause — a userProfile rendered as a term of coq/theories/Model/Profile.v, so that Coq
// evaluates  profile_eqb (canon (gob_roundtrip saved)) (canon loaded)  on every (saved, loaded) pair
// that went through the real SaveUserProfile / LoadUserProfile.
//
// What the rendering keeps: every exported field of userProfile and of the structs it reaches (the
// fields gob carries), maps with their keys in Go's iteration order (the model sorts), nil / empty
// kept apart for maps, slices and pointers (the model decides what of that is content).
// What it abstracts: a byte string or string longer than c15AbsLen bytes is rendered as
// [256 + length; first 6 bytes of its SHA-256] (an element >= 256 cannot be a byte, so the two forms
// never collide); a u2f.Registration is its Raw bytes (its own MarshalBinary — what gob carries of it);
// SessionData.Extensions is the byte string of its sorted "key=value," listing; a time is
// Unix()*10^9 + Nanosecond() (location and monotonic reading are not content).

import (
	"crypto/sha256"
	"fmt"
	"math/big"
	"sort"
	"strconv"
	"strings"
	"time"

	"github.com/duo-labs/webauthn/webauthn"
	"github.com/tstranex/u2f"
)

const c15AbsLen = 14

// transport: seven bytes per 63-bit integer literal (Base/Pack.v; Coq reads number literals slowly);
// sb n ws = the n bytes packed in ws, pdig n w = [256 + n; the six bytes of w] (defined in the case file)
func c15CoqElems(b []byte) string {
	if len(b) == 0 {
		return "[]"
	}
	if len(b) > c15AbsLen {
		h := sha256.Sum256(b)
		var w uint64
		for j := 0; j < 6; j++ {
			w |= uint64(h[j]) << (8 * uint(j))
		}
		return fmt.Sprintf("(pdig %d %d%%uint63)", len(b), w)
	}
	var ws []string
	for i := 0; i < len(b); i += 7 {
		var w uint64
		for j := 0; j < 7 && i+j < len(b); j++ {
			w |= uint64(b[i+j]) << (8 * uint(j))
		}
		ws = append(ws, strconv.FormatUint(w, 10))
	}
	return fmt.Sprintf("(sb %d [%s]%%uint63)", len(b), strings.Join(ws, ";"))
}

func c15CoqStr(s string) string { return c15CoqElems([]byte(s)) }

func c15CoqGbytes(b []byte) string {
	if b == nil {
		return "None"
	}
	return "(Some " + c15CoqElems(b) + ")"
}

func c15CoqBytesList(l [][]byte) string {
	if l == nil {
		return "None"
	}
	var el []string
	for _, b := range l {
		el = append(el, c15CoqGbytes(b))
	}
	return "(Some [" + strings.Join(el, ";") + "])"
}

func c15CoqStrList(l []string) string {
	if l == nil {
		return "None"
	}
	var el []string
	for _, s := range l {
		el = append(el, c15CoqStr(s))
	}
	return "(Some [" + strings.Join(el, ";") + "])"
}

func c15CoqZ(v *big.Int) string {
	if v.Sign() < 0 {
		return "(" + v.String() + ")%Z"
	}
	return v.String() + "%Z"
}

func c15CoqInt(v int64) string   { return c15CoqZ(big.NewInt(v)) }
func c15CoqUint(v uint64) string { return c15CoqZ(new(big.Int).SetUint64(v)) }

func c15CoqTime(t time.Time) string {
	v := new(big.Int).Mul(big.NewInt(t.Unix()), big.NewInt(1000000000))
	return c15CoqZ(v.Add(v, big.NewInt(int64(t.Nanosecond()))))
}

func c15CoqBool(b bool) string {
	if b {
		return "true"
	}
	return "false"
}

func c15CoqRegistration(r *u2f.Registration) string {
	if r == nil {
		return "None"
	}
	raw := r.Raw
	if raw == nil {
		raw = []byte{}
	}
	return c15CoqGbytes(raw)
}

func c15CoqExtensions(m map[string]interface{}) string {
	if m == nil {
		return "None"
	}
	keys := make([]string, 0, len(m))
	for k := range m {
		keys = append(keys, k)
	}
	sort.Strings(keys)
	var sb strings.Builder
	for _, k := range keys {
		fmt.Fprintf(&sb, "%s=%v,", k, m[k])
	}
	return c15CoqGbytes([]byte(sb.String()))
}

func c15CoqChallenge(c *u2f.Challenge) string {
	if c == nil {
		return "None"
	}
	return fmt.Sprintf("(Some (mk_chal %s %s %s %s))", c15CoqGbytes(c.Challenge), c15CoqTime(c.Timestamp), c15CoqStr(c.AppID), c15CoqStrList(c.TrustedFacets))
}

func c15CoqSession(s *webauthn.SessionData) string {
	if s == nil {
		return "None"
	}
	return fmt.Sprintf("(Some (mk_sess %s %s %s %s %s))", c15CoqStr(s.Challenge), c15CoqGbytes(s.UserID), c15CoqBytesList(s.AllowedCredentialIDs),
		c15CoqStr(string(s.UserVerification)), c15CoqExtensions(s.Extensions))
}

// a nil element of a map is not a value of the model (gob refuses to encode it): ok = false
func c15CoqProfile(p *userProfile) (term string, ok bool) {
	ok = true
	u2fMap := "None"
	if p.U2fAuthData != nil {
		var el []string
		for k, e := range p.U2fAuthData {
			if e == nil {
				ok = false
				continue
			}
			el = append(el, fmt.Sprintf("(%s, mk_u2f %s %s %s %s %s %s)", c15CoqInt(k), c15CoqBool(e.Enabled), c15CoqTime(e.CreatedAt), c15CoqStr(e.CreatorAddr),
				c15CoqUint(uint64(e.Counter)), c15CoqStr(e.Name), c15CoqRegistration(e.Registration)))
		}
		u2fMap = "(Some [" + strings.Join(el, ";") + "])"
	}
	totpMap := "None"
	if p.TOTPAuthData != nil {
		var el []string
		for k, e := range p.TOTPAuthData {
			if e == nil {
				ok = false
				continue
			}
			el = append(el, fmt.Sprintf("(%s, mk_totp %s %s %s %s %s %s)", c15CoqInt(k), c15CoqBool(e.Enabled), c15CoqTime(e.CreatedAt), c15CoqStr(e.Name),
				c15CoqBytesList(e.EncryptedSecret), c15CoqInt(int64(e.TOTPType)), c15CoqStr(e.ValidatorAddr)))
		}
		totpMap = "(Some [" + strings.Join(el, ";") + "])"
	}
	waMap := "None"
	if p.WebauthnData != nil {
		var el []string
		for k, e := range p.WebauthnData {
			if e == nil {
				ok = false
				continue
			}
			c := e.Credential
			el = append(el, fmt.Sprintf("(%s, mk_wa %s %s %s %s %s %s %s %s %s)", c15CoqInt(k), c15CoqBool(e.Enabled), c15CoqTime(e.CreatedAt), c15CoqStr(e.Name),
				c15CoqGbytes(c.ID), c15CoqGbytes(c.PublicKey), c15CoqStr(c.AttestationType),
				c15CoqGbytes(c.Authenticator.AAGUID), c15CoqUint(uint64(c.Authenticator.SignCount)), c15CoqBool(c.Authenticator.CloneWarning)))
		}
		waMap = "(Some [" + strings.Join(el, ";") + "])"
	}
	pending := "None"
	if p.PendingTOTPSecret != nil {
		pending = "(Some " + c15CoqBytesList(*p.PendingTOTPSecret) + ")"
	}
	term = fmt.Sprintf("(mk_profile %s %s %s %s %s (mk_boot %s %s) %s %s %s %s %s %s)",
		u2fMap, c15CoqChallenge(p.RegistrationChallenge), pending, c15CoqInt(p.LastSuccessfullTOTPCounter), totpMap,
		c15CoqTime(p.BootstrapOTP.ExpiresAt), c15CoqGbytes(p.BootstrapOTP.Sha512Hash), c15CoqBool(p.UserHasRegistered2ndFactor),
		waMap, c15CoqUint(p.WebauthnID), c15CoqStr(p.DisplayName), c15CoqStr(p.Username), c15CoqSession(p.WebauthnSessionData))
	return term, ok
}

// the (saved, loaded) pairs of a run
type c15ProfilePairs struct {
	terms []string
	idx   []string
	max   int
}

// loaded == nil (LoadUserProfile returned an error) is shipped as the zero profile
func (pp *c15ProfilePairs) add(what string, saved, loaded *userProfile) {
	if len(pp.terms) >= pp.max {
		return
	}
	if loaded == nil {
		loaded = &userProfile{}
	}
	s, ok1 := c15CoqProfile(saved)
	l, ok2 := c15CoqProfile(loaded)
	if !ok1 || !ok2 {
		return
	}
	pp.terms = append(pp.terms, "("+s+",\n  "+l+")")
	q := strconv.QuoteToASCII(what) // one line, ASCII (the canonical text holds random bytes)
	pp.idx = append(pp.idx, q[1:len(q)-1])
}

// appended to CasesC15.v; the names of Model/Profile.v stay inside the module
func (pp *c15ProfilePairs) coq() string {
	var sb strings.Builder
	sb.WriteString("Require KM.Model.Profile.\nModule C15P.\nImport KM.Model.Profile.\nLocal Open Scope N_scope.\n")
	sb.WriteString("Definition sb (n : N) (ws : list int) : bs := unpack (N.to_nat n) ws.\nDefinition pdig (n : N) (w : int) : bs := (256 + n) :: le_bytes 6 (N_of_int w).\n")
	sb.WriteString("Definition pcases : list pcase := [\n" + strings.Join(pp.terms, ";\n") + "\n].\n")
	sb.WriteString("End C15P.\n")
	sb.WriteString("Definition c15_profile_npairs := Eval vm_compute in length C15P.pcases.\nPrint c15_profile_npairs.\n")
	sb.WriteString("Definition c15_profile_mismatches := Eval vm_compute in KM.Model.Profile.pmismatches KM.Model.Profile.pcase_ok C15P.pcases.\nPrint c15_profile_mismatches.\n")
	sb.WriteString("Definition c15_profile_violating := Eval vm_compute in KM.Model.Profile.pmismatches KM.Model.Profile.pcase_content_kept C15P.pcases.\nPrint c15_profile_violating.\n")
	return sb.String()
}
