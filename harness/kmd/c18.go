package main

import (
	"net/http/httptest"
	"encoding/json"
	"bytes"
	"fmt"
	"io/ioutil"
	"net/http"
	"net/url"
	"path/filepath"
	"strings"
	"testing"

	"golang.org/x/net/html"
)

const canary = "vrfcnry"

func c18Payloads() []string {
	return []string{
		`"><` + canary + ` x=1>`,
		`'><` + canary + `>`,
		`<` + canary + `>`,
		`" ` + canary + `attr="1`,
		`' ` + canary + `attr='1`,
		`</title></script></textarea><` + canary + `>`,
		`javascript:` + canary + `()`,
		`&lt;` + canary + `&gt;"&quot;><` + canary + `>`,
		"\x00<" + canary + ">",
		"\xc0\xbc" + canary + "\xc0\xbe\"><" + canary + ">",
		"`><" + canary + ">`",
		`/x?"><` + canary + `>`,
		`/x?a=1&b="onmouseover="` + canary + `()`,
		`--><` + canary + `><!--`,
		`]]><` + canary + `>`,
		`\"><` + canary + `>`,
	}
}

// walk the token stream of an HTML5 tokenizer and look for canary-named elements or attributes
func c18Scan(body []byte) (problems []string) {
	z := html.NewTokenizer(bytes.NewReader(body))
	inScript := false
	for {
		tt := z.Next()
		if tt == html.ErrorToken {
			return
		}
		tok := z.Token()
		switch tt {
		case html.StartTagToken, html.SelfClosingTagToken, html.EndTagToken:
			if strings.Contains(strings.ToLower(tok.Data), canary) {
				problems = append(problems, "element <"+tok.Data+">")
			}
			for _, a := range tok.Attr {
				k := strings.ToLower(a.Key)
				if strings.Contains(k, canary) {
					problems = append(problems, "attribute "+a.Key+" on <"+tok.Data+">")
				}
				if (k == "href" || k == "src" || k == "action" || k == "formaction") && strings.HasPrefix(strings.ToLower(strings.TrimSpace(a.Val)), "javascript:") && strings.Contains(a.Val, canary) {
					problems = append(problems, "javascript: URL in "+a.Key+" of <"+tok.Data+">")
				}
				if strings.HasPrefix(k, "on") && strings.Contains(a.Val, canary) {
					problems = append(problems, "event handler "+a.Key+" on <"+tok.Data+">")
				}
			}
			if tok.Data == "script" {
				inScript = tt == html.StartTagToken
			}
		case html.TextToken:
			if inScript && strings.Contains(tok.Data, "<"+canary) {
				problems = append(problems, "raw payload inside <script>")
			}
		case html.CommentToken:
		}
	}
}

func c18IsHTML(rr http.Header, body []byte) bool {
	ct := rr.Get("Content-Type")
	if ct == "" {
		ct = http.DetectContentType(body)
	}
	return strings.HasPrefix(ct, "text/html")
}

func c18ExtractValue(body []byte) (string, bool) {
	i := bytes.Index(body, []byte(`id="login_destination_input"`))
	if i < 0 {
		return "", false
	}
	rest := body[i:]
	j := bytes.Index(rest, []byte(`VALUE="`))
	if j < 0 {
		return "", false
	}
	rest = rest[j+len(`VALUE="`):]
	k := bytes.IndexByte(rest, '"')
	if k < 0 {
		return "", false
	}
	return string(rest[:k]), true
}

func TestVerif_C18(t *testing.T) {
	res := newVerifResult("16 canary payloads (quotes, angle brackets, entities, NUL, overlong UTF-8, backticks, comment/CDATA closers, javascript:) placed in every form/query field, the path suffix and the Referer/User-Agent of every route of the regenerated service mux, with no credential / user sessions (password, password+U2F) / admin sessions (password only, +TOTP, +U2F), GET and POST, Accept: text/html; every text/html response tokenised with golang.org/x/net/html; sessions of users whose NAMES are payloads on every route; success paths (completed login and bootstrap-OTP second factor, GET and POST) with hostile destinations; plus destinations through the login-failure, 2FA and OpenID-authorize login pages compared byte for byte with the model of the hidden INPUT; non-trivial = response is HTML and echoes part of the payload; distinct by (route, mode, credential, payload, problems)")
	env := verifSetup(t, func(c *AppConfigFile, dir string) {
		c.Base.AllowedAuthBackendsForWebUI = []string{"U2F", "TOTP"}
		c.Base.AllowedAuthBackendsForCerts = []string{"U2F"}
		c.Base.AdminUsers = []string{"admin"}
		c.Base.EnableLocalTOTP = true
		c.Base.EnableBootstrapOTP = true
		c.Base.WebauthTokenForCliLifetime = 3600e9
		c.Base.PasswordAttemptGlobalBurstLimit = 1000000
		c.Base.PasswordAttemptGlobalRateLimit = 1000000
		c.OpenIDConnectIDP.Client = append(c.OpenIDConnectIDP.Client, OpenIDConnectClientConfig{ClientID: "app", ClientSecret: "s", AllowedRedirectDomains: []string{"example.com"}})
	})
	routes := verifRouteTable()
	fields := []string{"user", "username", "login_destination", "error", "name", "index", "action", "client_id", "redirect_uri", "state", "scope", "nonce", "token", "port", "OTP", "otp", "code", "password", "duration", "type", "identity", "audience", "response_type", "OTPValue", "email", "message"}
	creds := []struct {
		name   string
		cookie *http.Cookie
	}{{"none", nil}, {"user", env.cookie("alice", AuthTypePassword|AuthTypeU2F)}, {"admin", env.cookie("admin", AuthTypePassword|AuthTypeU2F)}, {"pwonly", env.cookie("alice", AuthTypePassword)},
		{"adminpw", env.cookie("admin", AuthTypePassword)}, {"admintotp", env.cookie("admin", AuthTypePassword|AuthTypeTOTP)}}
	// stored data that later shows up in pages: users whose names are payloads
	for _, p := range c18Payloads()[:4] {
		f := url.Values{}
		f.Set("username", p)
		req := verifNewRequest("POST", addUserPath, f)
		req.AddCookie(creds[2].cookie)
		env.serve(req)
	}
	probe := func(route verifRoute, mode, credName string, cookie *http.Cookie, payload string) {
		target := route.Path
		form := url.Values{}
		method := "GET"
		switch mode {
		case "query":
			for _, f := range fields {
				form.Set(f, payload)
			}
		case "post":
			method = "POST"
			for _, f := range fields {
				form.Set(f, payload)
			}
		case "path":
			if !strings.HasSuffix(target, "/") {
				return
			}
			target += url.PathEscape(payload)
		case "plain": // nothing hostile in the request itself: the payload is the acting user's name
		}
		req := verifNewRequest(method, target, form)
		req.Header.Set("Accept", "text/html")
		req.Header.Set("User-Agent", "Mozilla/5.0 Chrome/120 "+payload)
		if cookie != nil {
			req.AddCookie(cookie)
		}
		if method == "POST" {
			req.Header.Set("Referer", "https://keymaster.example/"+url.PathEscape(payload))
		}
		rr, _ := env.serve(req)
		body := rr.Body.Bytes()
		isHTML := c18IsHTML(rr.Header(), body)
		echoes := bytes.Contains(body, []byte(canary))
		var problems []string
		if isHTML {
			problems = c18Scan(body)
		}
		res.eval(fmt.Sprintf("%s|%s|%s|%s|%v", route.Path, mode, credName, payload, problems), isHTML && echoes)
		if isHTML {
			res.bump("html_responses")
		}
		if isHTML && echoes {
			res.bump("html_echoing_payload")
		}
		if len(problems) > 0 {
			res.hit(verifHit{Key: "C18:markup:" + route.Path, Oracle: "request-controlled text became an element, attribute or script content",
				What: fmt.Sprintf("%s %s (%s, %s) payload %q: %s", method, route.Path, mode, credName, payload, strings.Join(problems, "; ")),
				Case: map[string]interface{}{"route": route.Path, "mode": mode, "cred": credName, "payload": payload}, Observed: problems})
		}
	}
	payloads := c18Payloads()
	for _, route := range routes {
		if strings.HasPrefix(route.Path, "/static/") || strings.HasPrefix(route.Path, "/custom_static/") {
			continue
		}
		for _, c := range creds {
			for pi, p := range payloads {
				for _, mode := range []string{"query", "post", "path"} {
					if !verifThorough() && c.name == "pwonly" && pi%2 == 1 {
						continue
					}
					probe(route, mode, c.name, c.cookie, p)
				}
			}
		}
	}
	// the authenticated user's NAME is request-controlled text too (it was typed into a login form or
	// came from a federated provider): sessions of users whose names are payloads visit every route
	for pi, p := range payloads[:4] {
		for _, level := range []int{AuthTypePassword | AuthTypeU2F, AuthTypePassword} {
			c := env.cookie(p, level)
			for _, route := range routes {
				if strings.HasPrefix(route.Path, "/static/") || strings.HasPrefix(route.Path, "/custom_static/") {
					continue
				}
				probe(route, "plain", fmt.Sprintf("payload-user-%d-level-%d", pi, level), c, p)
				if level&AuthTypeU2F != 0 {
					probe(route, "post", fmt.Sprintf("payload-user-%d-level-%d", pi, level), c, p)
				}
			}
		}
	}
	// success paths: a completed login / second factor with a hostile destination (a second state whose
	// web UI accepts the password alone, so that the login handler answers with the redirect itself)
	env2 := verifSetup(t, func(c *AppConfigFile, dir string) {
		c.Base.AllowedAuthBackendsForWebUI = []string{"password"}
		c.Base.AllowedAuthBackendsForCerts = []string{"U2F"}
		c.Base.AdminUsers = []string{"admin"}
		c.Base.PasswordAttemptGlobalBurstLimit = 1000000
		c.Base.PasswordAttemptGlobalRateLimit = 1000000
	})
	env2.state.SaveUserProfile("alice", &userProfile{})
	scanSuccess := func(via, dest string, rr *httptest.ResponseRecorder) {
		body := rr.Body.Bytes()
		var problems []string
		if len(body) > 0 && (c18IsHTML(rr.Header(), body) || bytes.Contains(body, []byte("<"))) {
			problems = c18Scan(body)
		}
		// the Location header must not smuggle markup either when a browser shows the fallback link
		res.eval("success|"+via+"|"+dest+fmt.Sprint(problems), bytes.Contains(body, []byte(canary)))
		res.bump("success_path:" + via)
		if len(problems) > 0 {
			res.hit(verifHit{Key: "C18:markup:success:" + via, Oracle: "request-controlled text became an element, attribute or script content",
				What: fmt.Sprintf("%s with login_destination %q (status %d): %s", via, dest, rr.Code, strings.Join(problems, "; ")),
				Case: map[string]interface{}{"via": via, "login_destination": dest}, Observed: problems})
		}
	}
	admin2 := env2.cookie("admin", AuthTypePassword|AuthTypeU2F)
	succDests := append([]string{}, payloads...)
	succDests = append(succDests, "/a?x=<"+canary+">", "/a?\"><"+canary+" x=\"", "/x?q='><"+canary+">")
	for _, d := range succDests {
		if !strings.HasPrefix(d, "/") {
			d = "/" + d
		}
		for _, method := range []string{"POST", "GET"} {
			f := url.Values{}
			f.Set("username", "alice")
			f.Set("password", "alicepw")
			f.Set("login_destination", d)
			req := verifNewRequest(method, "/api/v0/login", f)
			req.Header.Set("Accept", "text/html")
			rr, _ := env2.serve(req)
			scanSuccess("login:"+method, d, rr)
			// bootstrap OTP: issue, then present with the hostile destination
			fo := url.Values{}
			fo.Set("username", "alice")
			ro := verifNewRequest("POST", generateBoostrapOTPPath, fo)
			ro.AddCookie(admin2)
			rro, _ := env2.serve(ro)
			var od newBootstrapOTPPPageTemplateData
			if json.Unmarshal(rro.Body.Bytes(), &od) == nil && od.BootstrapOTPValue != "" {
				fb := url.Values{}
				fb.Set("OTP", od.BootstrapOTPValue)
				fb.Set("login_destination", d)
				rb := verifNewRequest(method, bootstrapOtpAuthPath, fb)
				rb.Header.Set("Accept", "text/html")
				rb.AddCookie(env2.cookie("alice", AuthTypePassword))
				rrb, _ := env2.serve(rb)
				scanSuccess("bootstrapOtp:"+method, d, rrb)
			}
		}
	}
	// the hidden INPUT, byte for byte
	var cases, idx []string
	record := func(destIn string, body []byte, via string) {
		v, ok := c18ExtractValue(body)
		if !ok {
			return
		}
		ensured := ensureHTMLSafeLoginDestination(destIn)
		cases = append(cases, fmt.Sprintf("(%s, %s)", coqPacked([]byte(ensured)), coqPacked([]byte(v))))
		idx = append(idx, fmt.Sprintf("via=%s dest=%q ensured=%q value=%q", via, destIn, ensured, v))
		res.eval("input|"+via+"|"+destIn, true)
		res.bump("hidden_input:" + via)
		if strings.ContainsAny(v, "\"<>'") {
			res.hit(verifHit{Key: "C18:hidden-input:" + via, Oracle: "attribute value of the hidden INPUT contains a markup byte", What: fmt.Sprintf("destination %q rendered as VALUE=\"%s\"", destIn, v), Case: destIn})
		}
	}
	dests := append([]string{}, payloads...)
	dests = append(dests, "/ok", "/a?b=c&d=e", "/a?x=<y>", "/a#\"frag", "/é?\"", "/%22%3E%3Cscript%3E", "/a?%22=1", "/a;b='c'", "/x?"+strings.Repeat("\"", 50))
	for _, d := range dests {
		if !strings.HasPrefix(d, "/") {
			d = "/" + d
		}
		// login failure page
		f := url.Values{}
		f.Set("username", "alice")
		f.Set("password", "wrong")
		f.Set("login_destination", d)
		req := verifNewRequest("POST", "/api/v0/login", f)
		req.Header.Set("Accept", "text/html")
		rr, _ := env.serve(req)
		req.ParseForm()
		record(getLoginDestination(req), rr.Body.Bytes(), "login-failure")
		// second factor page after a good password
		f.Set("password", "alicepw")
		req2 := verifNewRequest("POST", "/api/v0/login", f)
		req2.Header.Set("Accept", "text/html")
		rr2, _ := env.serve(req2)
		req2.ParseForm()
		record(getLoginDestination(req2), rr2.Body.Bytes(), "2fa-page")
		// OpenID authorize without a session: the request URL itself becomes the destination
		req3 := verifNewRequest("GET", idpOpenIDCAuthorizationPath+"?client_id=app", nil)
		req3.Header.Set("Accept", "text/html")
		var rawq []byte
		for i := 0; i < len(d); i++ {
			if c := d[i]; c < 0x21 || c == 0x7f || c == '#' {
				rawq = append(rawq, []byte(fmt.Sprintf("%%%02X", c))...)
			} else {
				rawq = append(rawq, c)
			}
		}
		req3.URL.RawQuery = "client_id=app&x=" + url.QueryEscape(d) + "&raw=" + string(rawq)
		rr3, _ := env.serve(req3)
		record(req3.URL.String(), rr3.Body.Bytes(), "authorize-login")
	}
	var sb strings.Builder
	sb.WriteString(coqCaseHeader)
	sb.WriteString("From KM Require Import Base.Cases Model.Html.\nOpen Scope N_scope.\n")
	sb.WriteString("(* (output of ensureHTMLSafeLoginDestination, raw VALUE attribute text in the served page) *)\n")
	sb.WriteString("Definition cases : list (bs * bs) := [\n " + strings.Join(cases, ";\n ") + "].\n")
	sb.WriteString("Definition c18_mismatches := Eval vm_compute in mismatches (fun c : bs * bs => negb (bs_eqb (html_escape (fst c)) (snd c))) cases.\nPrint c18_mismatches.\nDefinition c18_ncases := Eval vm_compute in length cases.\nPrint c18_ncases.\n")
	if err := ioutil.WriteFile(filepath.Join(verifOut(), "CasesC18.v"), []byte(sb.String()), 0644); err != nil {
		t.Fatal(err)
	}
	ioutil.WriteFile(filepath.Join(verifOut(), "CasesC18.idx"), []byte(strings.Join(idx, "\n")), 0644)
	if len(cases) == 0 {
		res.hit(verifHit{Key: "C18:harness:no-input", Oracle: "harness", What: "no page with the hidden input was produced", Case: ""})
	}
	res.sample(map[string]interface{}{"route": "/api/v0/login", "field": "login_destination", "payload": payloads[11]})
	if len(idx) > 2 {
		res.sample(idx[0])
		res.sample(idx[len(idx)/2])
	}
	res.write(t, "TestVerif_C18")
}
